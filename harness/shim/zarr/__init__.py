# Shadow of the installed zarr 3.x: pipefunc's zarr backend needs the zarr-2 API and dies with
# AttributeError at import, which pipefunc/map/__init__.py does not suppress.  An ImportError is
# suppressed there, so the harness puts this directory first on PYTHONPATH (DESIGN.md section 1).
raise ImportError("zarr is shadowed by the /verif harness (zarr backends are out of scope)")
