"""Import pipefunc from the configured working tree (VERIF_REPO, default /repo) under the zarr shim."""
from __future__ import annotations

import os
import sys
from pathlib import Path

REPO = Path(os.environ.get("VERIF_REPO", "/repo")).resolve()
HARNESS = Path(__file__).resolve().parents[1]
SHIM = HARNESS / "shim"

for p in (str(REPO), str(HARNESS), str(SHIM)):
    if p in sys.path:
        sys.path.remove(p)
sys.path[:0] = [str(SHIM), str(HARNESS), str(REPO)]

import pipefunc  # noqa: E402
import pipefunc.map  # noqa: E402,F401

if not Path(pipefunc.__file__).resolve().is_relative_to(REPO):
    raise RuntimeError(f"pipefunc imported from {pipefunc.__file__}, expected under {REPO}")


def child_env() -> dict[str, str]:
    """Environment for child interpreters started by the harness."""
    e = dict(os.environ)
    e["PYTHONPATH"] = f"{SHIM}:{HARNESS}:{REPO}"
    e.setdefault("PYTHONHASHSEED", "0")
    e["PYTHONDONTWRITEBYTECODE"] = "1"
    return e
