"""Batch trace validation: thousands of recorded traces per TLC invocation (DESIGN.md section 3.3).

A trace module follows one convention: `Traces == ndJsonDeserialize(IOEnv.TRACE_FILE)`, variables
`tid`, `l`, specification `Spec`, constraint `Track` (records the highest event index reached per
trace in TLC registers), postcondition `Accepted` printing <<"REJECT", tid, reached>> for every trace
that was not consumed to its end.  Registers are per worker, hence `-workers 1` per TLC process;
parallelism comes from running several TLC processes on chunks.
"""
from __future__ import annotations

import json
import re
from concurrent.futures import ThreadPoolExecutor
from pathlib import Path
from typing import Any, Iterable

from .tlc import MachineryError, run_tlc

_RE_PRINT = re.compile(r'^<<"(\w+)", (.*)>>$')


def parse_prints(lines: Iterable[str]) -> list[tuple[str, Any]]:
    """Lines `<<"TAG", "json string">>` or `<<"TAG", i, j>>` printed by PrintT."""
    out = []
    for ln in lines:
        m = _RE_PRINT.match(ln.strip())
        if not m:
            continue
        tag, rest = m[1], m[2]
        if rest.startswith('"'):
            try:
                s = json.loads(rest)  # TLA+ string literal escapes are JSON compatible for our payloads
                out.append((tag, json.loads(s)))
                continue
            except json.JSONDecodeError:
                try:
                    out.append((tag, json.loads(rest)))
                    continue
                except json.JSONDecodeError:
                    pass
        try:
            out.append((tag, [int(x) for x in rest.split(",")]))
        except ValueError:
            out.append((tag, rest))
    return out


TRACE_CFG = """SPECIFICATION Spec
CONSTRAINT Track
{invs}
POSTCONDITION Accepted
"""


def validate_traces(ctx, module: str, traces: list[dict], name: str, *, invariants: list[str],
                    strip: tuple[str, ...] = (), chunk: int = 4000, count: bool = True,
                    dfs: bool = False, timeout: float = 1800, constants: str = "") -> dict[int, int]:
    """Validate traces with the trace spec `module`. Returns {trace index: event index reached} for every
    REJECTED trace (reached = 1-based index of the first event that could not be explained)."""
    if not traces:
        return {}
    chunks = [list(range(i, min(i + chunk, len(traces)))) for i in range(0, len(traces), chunk)]
    cfg = TRACE_CFG.format(invs="\n".join(f"INVARIANT {i}" for i in invariants))
    if constants:
        cfg = cfg.replace("SPECIFICATION Spec", "SPECIFICATION Spec\nCONSTANTS " + constants)

    def one(ci: int) -> tuple[int, Any]:
        idxs = chunks[ci]
        wd = ctx.workdir(f"tv_{module}_{name}_{ci}")
        f = wd / "traces.ndjson"
        with f.open("w") as fh:
            for i in idxs:
                t = {k: v for k, v in traces[i].items() if k not in strip}
                fh.write(json.dumps(t, separators=(",", ":")) + "\n")
        r = run_tlc(module, cfg, wd, workers=1, env={"TRACE_FILE": str(f)}, timeout=timeout, dfs_queue=dfs)
        return ci, r

    rejected: dict[int, int] = {}
    with ThreadPoolExecutor(max_workers=8) as ex:
        for ci, r in ex.map(one, range(len(chunks))):
            if r.violated:
                # an invariant of the model failed on a state reached while explaining real behaviour
                raise MachineryError(f"{module}: invariant {r.violated} violated during trace validation "
                                     f"(the spec itself is inconsistent):\n{r.stdout[-3000:]}")
            if count:
                ctx.add_tlc(r, f"{module} {name} chunk {ci} ({len(chunks[ci])} traces)")
            seen = 0
            for tag, payload in parse_prints(r.prints):
                if tag == "REJECT":
                    local, reached = payload[0], payload[1]
                    rejected[chunks[ci][local - 1]] = max(reached, 1)
                    seen += 1
            if "Evaluating postcondition" not in r.stdout and "Accepted" not in r.stdout and r.distinct == 0:
                raise MachineryError(f"{module}: no states explored:\n{r.stdout[-2000:]}")
    if count:
        ctx.traces_validated += len(traces) - len(rejected)
    return rejected
