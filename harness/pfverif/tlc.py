"""Run TLC / SANY on the modules under /verif/spec and parse what they print.

Every run happens in a scratch directory (copy of spec/*.tla + generated MC module/cfg), with its
own -metadir, an outer timeout and a JVM heap cap.  TLC failures other than a property violation are
machinery failures (MachineryError -> exit 2), never conflated with a violation.
"""
from __future__ import annotations

import dataclasses
import os
import re
import shutil
import subprocess
import time
from pathlib import Path

ROOT = Path(os.environ.get("VERIF_ROOT", Path(__file__).resolve().parents[2]))
SPEC_DIR = ROOT / "spec"
JAR = "/opt/veriftools/tla/tla2tools.jar:/opt/veriftools/tla/CommunityModules-deps.jar"


class MachineryError(RuntimeError):
    """The verification machinery itself failed (exit code 2)."""


@dataclasses.dataclass
class TLCResult:
    module: str
    stdout: str
    wall_s: float
    generated: int = 0
    distinct: int = 0
    left: int = 0
    depth: int = 0
    violated: list[str] = dataclasses.field(default_factory=list)  # invariant / property names
    error: str | None = None  # any other TLC error text
    prints: list[str] = dataclasses.field(default_factory=list)  # lines printed by PrintT/Print
    coverage: dict[str, int] = dataclasses.field(default_factory=dict)
    cmd: str = ""

    @property
    def ok(self) -> bool:
        return not self.violated and self.error is None


_RE_STATES = re.compile(r"(\d+) states generated, (\d+) distinct states found, (\d+) states left on queue")
_RE_INV = re.compile(r"Error: Invariant (\S+) is violated")
_RE_PROP = re.compile(r"Error: (?:Action|Temporal) propert(?:y|ies) (\S+)? ?(?:is|were) violated")
_RE_DEPTH = re.compile(r"The depth of the complete state graph search is (\d+)")
_RE_COV = re.compile(r"^<(\w+) line \d+, col \d+ to line \d+, col \d+ of module (\w+)>: (\d+):(\d+)")


def prepare_workdir(workdir: Path) -> None:
    workdir.mkdir(parents=True, exist_ok=True)
    for f in SPEC_DIR.glob("*.tla"):
        shutil.copy(f, workdir / f.name)


def run_tlc(
    module: str,
    cfg: str,
    workdir: Path,
    *,
    workers: int | str = "auto",
    env: dict[str, str] | None = None,
    extra: list[str] | None = None,
    timeout: float = 1800,
    heap: str = "4g",
    deadlock: bool = False,
    coverage: bool = False,
    dfs_queue: bool = False,
    allow_violation: bool = True,
) -> TLCResult:
    """Run `module` (must exist in workdir or spec/) with the given cfg text."""
    prepare_workdir(workdir)
    cfgfile = workdir / f"{module}.cfg"
    cfgfile.write_text(cfg)
    meta = workdir / f"meta_{module}_{int(time.time() * 1e6) % 10**9}"
    jopts = [f"-Xmx{heap}", "-XX:+UseParallelGC", "-Xss64m"]
    if dfs_queue:
        jopts.append("-Dtlc2.tool.queue.IStateQueue=StateDeque")
    cmd = ["java", *jopts, "-cp", JAR, "tlc2.TLC", "-workers", str(workers), "-metadir", str(meta),
           "-noGenerateSpecTE", "-config", cfgfile.name]
    if not deadlock:
        cmd.append("-deadlock")  # -deadlock DISABLES deadlock checking
    if coverage:
        cmd += ["-coverage", "1"]
    cmd += extra or []
    cmd.append(module)
    e = dict(os.environ)
    e.pop("JAVA_TOOL_OPTIONS", None)
    e.update(env or {})
    t0 = time.time()
    try:
        p = subprocess.run(cmd, cwd=workdir, env=e, capture_output=True, text=True, timeout=timeout)
    except subprocess.TimeoutExpired as ex:
        subprocess.run(["pkill", "-f", str(meta)], check=False)
        raise MachineryError(f"TLC timed out after {timeout}s on {module}") from ex
    finally:
        shutil.rmtree(meta, ignore_errors=True)
    out = p.stdout + ("\n" + p.stderr if p.stderr.strip() else "")
    r = TLCResult(module=module, stdout=out, wall_s=time.time() - t0, cmd=" ".join(cmd))
    for m in _RE_STATES.finditer(out):
        r.generated, r.distinct, r.left = int(m[1]), int(m[2]), int(m[3])
    m = _RE_DEPTH.search(out)
    if m:
        r.depth = int(m[1])
    r.violated = _RE_INV.findall(out)
    if "is violated" in out or "was violated" in out or "were violated" in out:
        for line in out.splitlines():
            if line.startswith("Error:") and "violated" in line and "Invariant" not in line:
                r.violated.append(line[len("Error:"):].strip())
    for line in out.splitlines():
        mm = _RE_COV.match(line)
        if mm:
            r.coverage[mm[1]] = r.coverage.get(mm[1], 0) + int(mm[4])
    errs = [ln for ln in out.splitlines() if ln.startswith("Error:") and "violated" not in ln
            and "The behavior up to this point" not in ln and "The following behavior" not in ln]
    if errs or (p.returncode not in (0, 12, 13) and not r.violated):
        # 12 = safety violation, 13 = liveness violation
        idx = out.find("Error:")
        r.error = out[idx: idx + 3000] if idx >= 0 else f"TLC exit {p.returncode}: {out[-2000:]}"
    r.prints = _extract_prints(out)
    if r.error is not None:
        raise MachineryError(f"TLC failed on {module}:\n{r.error}")
    if r.violated and not allow_violation:
        raise MachineryError(f"TLC reports {r.violated} on {module}:\n{out[-3000:]}")
    return r


_NOISE = ("TLC2 Version", "Running ", "Parsing file", "Semantic processing", "Starting...", "Computing initial",
          "Finished computing", "Progress(", "Model checking completed", "The depth of", "Finished in",
          "Implied-temporal", "Checking temporal", "Finished checking", "Warning:", "Semantic ", "Linting",
          "Computed ", "The number of states", "calculated (optimistic)", "based on the actual", "Error:",
          "(a ", "(You ", "  ", "@!@!@", "The coverage", "End of statistics", "<", "|", "Evaluating postcondition",
          "Picked up", "Mode: ", "Checkpointing", "Time Stamp")


def _extract_prints(out: str) -> list[str]:
    """Lines produced by PrintT: we make all our prints start with <<"TAG", so select those."""
    return [ln for ln in out.splitlines() if ln.startswith('<<"')]


def sany(path: Path) -> None:
    p = subprocess.run(["java", "-cp", JAR, "tla2sany.SANY", path.name], cwd=path.parent,
                       capture_output=True, text=True, timeout=120)
    if p.returncode != 0 or "error" in p.stdout.lower().replace("errors: 0", ""):
        if "Semantic errors" in p.stdout or "***Parse Error***" in p.stdout or p.returncode != 0:
            raise MachineryError(f"SANY rejects {path}:\n{p.stdout[-2000:]}")
