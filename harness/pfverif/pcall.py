"""Driver for top-level pipeline calls: runs pipeline(out, **kw) / run(full_output) / func(out)(**kw) on a real
Pipeline built from a description and records the PipelineCall trace events (uniformly typed for TLC)."""
from __future__ import annotations

import contextlib
import io
from typing import Any

from . import build
from .terms import Term, from_json, to_json

BLANK = {"e": "", "out": "", "kw": [], "mode": "call", "f": "", "kwargs": [], "val": {"f": "", "a": []}, "pairs": [],
         "cls": "", "n": 0}


def ev(**kw) -> dict:
    e = dict(BLANK)
    e.update(kw)
    return e


def tla_desc_to_py(d: dict) -> dict:
    """Description as exported by TLC (pairs lists) -> build.py description."""
    funcs = []
    for f in d["funcs"]:
        funcs.append({"name": f["name"], "params": list(f["params"]), "outputs": list(f["outputs"]),
                      "defaults": {p: v for p, v in f["defaults"]}, "bound": {p: v for p, v in f["bound"]},
                      "mapspec": None, "internal_shape": list(f.get("internal", [])), "cache": bool(f.get("cache", False)),
                      "renamed": list(f.get("renamed", [])),
                      "retnone": bool(f.get("retnone", False)), "rettuple": bool(f.get("rettuple", False)), "outperm": bool(f.get("outperm", False)),
                      "outrenamed": bool(f.get("outrenamed", False)), "picker": bool(f.get("picker", False)), "hook": bool(f.get("hook", False)), "dataclass": bool(f.get("dataclass", False)), "annot": f.get("annot") or ""})
    return {"funcs": funcs}


def kv(name: str) -> dict:
    return {"f": f"@k_{name}", "a": []}


def call_events(log_start: int) -> list[dict]:
    out = []
    for rec in build.LOG[log_start:]:
        if rec["e"] == "call":
            fd = build.REG[rec["fid"]]
            out.append(ev(e="call", f=rec["f"], kwargs=[[p, rec["kwargs"][p]] for p in fd["params"]]))
        elif rec["e"] == "hook":
            fd = build.REG[rec["fid"]]
            out.append(ev(e="hook", f=rec["f"], kwargs=[[p, rec["kwargs"][p]] for p in fd["params"]], val=rec["result"]))
    return out


def do_call(pipeline, out: str, kw_pairs: list[list], mode: str) -> list[dict]:
    """One top-level call -> events begin, call*, return|returnfull|raise."""
    events = [ev(e="begin", out=out, kw=kw_pairs, mode="full" if mode == "full" else "call")]
    kwargs = {n: from_json(v) for n, v in kw_pairs}
    start = len(build.LOG)
    buf = io.StringIO()
    try:
        with contextlib.redirect_stdout(buf):
            if mode == "call":
                r = pipeline(out, **kwargs)
            elif mode == "run":
                r = pipeline.run(out, kwargs=kwargs)
            elif mode == "func":
                r = pipeline.func(out)(**kwargs)
            elif mode == "full":
                r = pipeline.run(out, full_output=True, kwargs=kwargs)
            else:
                raise ValueError(mode)
    except Exception as ex:  # noqa: BLE001
        events += call_events(start)
        events.append(ev(e="raise", cls=type(ex).__name__, val=to_json(Term("#msg:" + str(ex)[:200]))))
        return events
    events += call_events(start)
    if mode == "full":
        events.append(ev(e="returnfull", pairs=[[str(k), to_json(v)] for k, v in r.items()]))
    else:
        events.append(ev(e="return", val=to_json(r)))
    return events


# ---- additions for C09 (cache histories on twin pipelines); nothing above is changed ---------------------------
BLANK_FUNC = {"name": "", "params": [], "outputs": [], "defaults": [], "bound": [], "has_ms": False,
              "ms": {"ins": [], "outs": []}, "internal": [], "cache": False}
BLANK_OBS = {"keys": [], "size": 0, "cap": 0}
BLANK_MUT = {"kind": "", "f": "", "p": "", "v": {"f": "", "a": []}, "func": BLANK_FUNC}


def with_cache_fields(e: dict) -> dict:
    """Event of `ev`/`do_call` + the always-present C09 fields obs (cache observation) and mut (mutation)."""
    e.setdefault("obs", BLANK_OBS)
    e.setdefault("mut", BLANK_MUT)
    return e


def observe_cache(pipeline) -> dict:
    """What the PUBLIC mapping `pipeline.cache.cache` holds right now, as documented keys
    (output_name, ((arg, value), ...)) -> {"o": [names], "args": [[arg, value-json], ...]}; plus the number of
    entries and the capacity (0 = unbounded) of the container that mapping belongs to.  Keys of any other shape
    (e.g. written by Pipeline.map) are not reported."""
    cache = getattr(pipeline, "cache", None)
    if cache is None:
        return {"keys": [], "size": 0, "cap": 0}
    try:
        mapping = cache.cache
    except AttributeError:          # DiskCache(with_lru_cache=False) has no mapping
        return {"keys": [], "size": 0, "cap": 0}
    keys = []
    for k in list(mapping):
        try:
            oname, items = k
            names = [oname] if isinstance(oname, str) else list(oname)
            if not all(isinstance(n, str) for n in names) or not isinstance(items, tuple):
                continue
            args = []
            for it in items:
                a, v = it
                if not isinstance(a, str):
                    raise TypeError
                args.append([a, to_json(v)])
            keys.append({"o": names, "args": args})
        except (TypeError, ValueError):
            continue
    front = getattr(cache, "lru_cache", cache)       # DiskCache: the mapping is its in-memory LRU front
    cap = getattr(front, "max_size", None)
    return {"keys": keys, "size": len(front), "cap": int(cap) if cap else 0}


def func_py_from_tla(f: dict) -> dict:
    return tla_desc_to_py({"funcs": [f]})["funcs"][0]


def output_name_of(fd: dict):
    outs = fd["outputs"]
    return outs[0] if len(outs) == 1 else tuple(outs)


def do_mutation(pipeline, mut: dict, outputs_of: dict[str, list[str]]) -> None:
    """Apply one mutation event [kind, f, p, v, func] through the public API.
    outputs_of: function name -> its output names (never changed by the mutations used here)."""
    kind = mut["kind"]
    with contextlib.redirect_stdout(io.StringIO()):
        if kind == "update_defaults" and mut.get("f"):
            # on the member function that declares the default (same description change when no other function declares one)
            pipeline[output_name_of({"outputs": outputs_of[mut["f"]]})].update_defaults({mut["p"]: from_json(mut["v"])})
        elif kind == "update_defaults":
            pipeline.update_defaults({mut["p"]: from_json(mut["v"])})
        elif kind == "update_bound":
            pipeline[output_name_of({"outputs": outputs_of[mut["f"]]})].update_bound({mut["p"]: from_json(mut["v"])})
        elif kind == "replace":
            pipeline.replace(build.make_pipefunc(func_py_from_tla(mut["func"])))
        else:
            raise ValueError(kind)


def func_state(pipeline, name: str, outputs: list[str], cache: bool, base: dict | None = None) -> dict:
    """Current description record (TLA+/JSON form) of one function of a live pipeline, read from its public
    attributes (parameters, defaults, bound); every other field (retnone, outperm, ...) is taken from `base`,
    the record the function was built from."""
    pf = pipeline[output_name_of({"outputs": outputs})]
    rec = dict(base or {})
    rec.update({"name": name, "params": list(pf.parameters), "outputs": list(outputs),
                "defaults": [[p, to_json(v)] for p, v in pf.defaults.items()],
                "bound": [[p, to_json(v)] for p, v in pf.bound.items()],
                "has_ms": False, "ms": {"ins": [], "outs": []}, "internal": [], "cache": bool(cache)})
    return rec
