"""Driver for top-level pipeline calls: runs pipeline(out, **kw) / run(full_output) / func(out)(**kw) on a real
Pipeline built from a description and records the PipelineCall trace events (uniformly typed for TLC)."""
from __future__ import annotations

import contextlib
import io
from typing import Any

from . import build
from .terms import Term, from_json, to_json

BLANK = {"e": "", "out": "", "kw": [], "mode": "call", "f": "", "kwargs": [], "val": {"f": "", "a": []}, "pairs": [],
         "cls": "", "n": 0}


def ev(**kw) -> dict:
    e = dict(BLANK)
    e.update(kw)
    return e


def tla_desc_to_py(d: dict) -> dict:
    """Description as exported by TLC (pairs lists) -> build.py description."""
    funcs = []
    for f in d["funcs"]:
        funcs.append({"name": f["name"], "params": list(f["params"]), "outputs": list(f["outputs"]),
                      "defaults": {p: v for p, v in f["defaults"]}, "bound": {p: v for p, v in f["bound"]},
                      "mapspec": None, "internal_shape": list(f.get("internal", [])), "cache": bool(f.get("cache", False))})
    return {"funcs": funcs}


def kv(name: str) -> dict:
    return {"f": f"@k_{name}", "a": []}


def call_events(log_start: int) -> list[dict]:
    out = []
    for rec in build.LOG[log_start:]:
        if rec["e"] == "call":
            fd = build.REG[rec["fid"]]
            out.append(ev(e="call", f=rec["f"], kwargs=[[p, rec["kwargs"][p]] for p in fd["params"]]))
    return out


def do_call(pipeline, out: str, kw_pairs: list[list], mode: str) -> list[dict]:
    """One top-level call -> events begin, call*, return|returnfull|raise."""
    events = [ev(e="begin", out=out, kw=kw_pairs, mode="full" if mode == "full" else "call")]
    kwargs = {n: from_json(v) for n, v in kw_pairs}
    start = len(build.LOG)
    buf = io.StringIO()
    try:
        with contextlib.redirect_stdout(buf):
            if mode == "call":
                r = pipeline(out, **kwargs)
            elif mode == "run":
                r = pipeline.run(out, kwargs=kwargs)
            elif mode == "func":
                r = pipeline.func(out)(**kwargs)
            elif mode == "full":
                r = pipeline.run(out, full_output=True, kwargs=kwargs)
            else:
                raise ValueError(mode)
    except Exception as ex:  # noqa: BLE001
        events += call_events(start)
        events.append(ev(e="raise", cls=type(ex).__name__, val=to_json(Term("#msg:" + str(ex)[:200]))))
        return events
    events += call_events(start)
    if mode == "full":
        events.append(ev(e="returnfull", pairs=[[str(k), to_json(v)] for k, v in r.items()]))
    else:
        events.append(ev(e="return", val=to_json(r)))
    return events
