"""Descriptions (DESIGN.md section 3.2) -> real pipefunc PipeFuncs / Pipelines, with logging user functions.

A description is a JSON-able dict:
  {"funcs": [{"name", "params": [...], "outputs": [...], "defaults": {p: value-json}, "bound": {p: value-json},
              "renamed": [p, ...], "mapspec": str|None, "internal_shape": [n, ...], "cache": bool,
              "fail": {"when": "*" | kwargs-json | call-count int, "cls": "ValueError", "args": [...]} | None}],
   "lazy": bool, "cache_type": str|None, "cache_kwargs": {...}, "scope": str|None}
`params` / `outputs` are pipeline-level names.  A parameter listed in `renamed` has the underlying function argument
`o_<name>` and a `renames` entry.  The value of output `o` of a call is the term `o(arg values in params order)`; with an
internal shape the function returns a nested list whose element at internal index (j1..jm) is `o(args..., #i j1, ..)`.
"""
from __future__ import annotations

import itertools
import json
import os
import threading
from typing import Any

from . import bootstrap  # noqa: F401
from .terms import Term, canon, from_json, idx_atom, to_json

# ---- call log ---------------------------------------------------------------------------------------
LOG: list[dict] = []           # in-process log
LOG_FILE: str | None = None    # cross-process log (O_APPEND, one JSON line per call)
_LOCK = threading.Lock()
_SEQ = itertools.count()
REG: dict[str, dict] = {}      # function id -> description of the function
_SHARED_EXC: dict[str, BaseException] = {}
_COUNTS: dict[str, int] = {}
GATE = None                    # optional callable(fname, event, kwargs_json, logfn): controllable executor
DELAY = None                   # optional callable(fname, kwargs_json): seeded delays for real pools


def reset_log(log_file: str | None = None) -> None:
    global LOG_FILE
    LOG.clear()
    _COUNTS.clear()
    LOG_FILE = log_file
    if log_file and os.path.exists(log_file):
        os.unlink(log_file)


def read_log() -> list[dict]:
    if LOG_FILE and os.path.exists(LOG_FILE):
        with open(LOG_FILE) as fh:
            return [json.loads(ln) for ln in fh if ln.strip()]
    return list(LOG)


def _log(rec: dict) -> None:
    with _LOCK:
        rec["seq"] = next(_SEQ)
        LOG.append(rec)
    if LOG_FILE:
        fd = os.open(LOG_FILE, os.O_WRONLY | os.O_APPEND | os.O_CREAT, 0o644)
        try:
            os.write(fd, (json.dumps(rec) + "\n").encode())
        finally:
            os.close(fd)


class HarnessError(Exception):
    """Custom picklable exception used for failure injection (plain subclass)."""


class StatefulError(Exception):
    """Custom exception carrying extra state through __reduce__."""

    def __init__(self, msg: str, code: int = 7) -> None:
        super().__init__(msg)
        self.code = code

    def __reduce__(self):
        # the instance dict travels too (that is where Python keeps __notes__): a class whose own pickling drops its
        # attributes also drops the annotation pipefunc added in the worker - the class's doing, outside the property
        return (StatefulError, (self.args[0], self.code), self.__dict__)


class StopSub(StopIteration):
    """A user exception that subclasses StopIteration (e.g. an 'out of data' signal): iterator machinery swallows it."""


EXC = {"StopSub": StopSub, "ValueError": ValueError, "KeyError": KeyError, "RuntimeError": RuntimeError, "ZeroDivisionError": ZeroDivisionError,
       "HarnessError": HarnessError, "StatefulError": StatefulError}


def _nested(shape: list[int], fn) -> Any:
    def rec(prefix: tuple[int, ...], rest: list[int]):
        if not rest:
            return fn(prefix)
        return [rec((*prefix, j), rest[1:]) for j in range(rest[0])]
    return rec((), shape)


def invoke(fid: str, kwargs: dict[str, Any], res: Any = None) -> Any:
    """Body of every harness-built user function."""
    fd = REG[fid]
    # a user function must receive VALUES: a storage object handed over instead of the array it holds is a different thing
    # (terms.canon reads storage objects through to_array() - right for results, wrong for arguments)
    kwargs = {p: (Term(f"#storage-object:{type(v).__name__}") if hasattr(v, "to_array") and hasattr(v, "dump") else v)
              for p, v in kwargs.items()}
    kw_json = {p: to_json(kwargs[p]) for p in fd["params"]}
    base = {"f": fd["name"], "fid": fid, "kwargs": kw_json, "pid": os.getpid(), "n": -1}

    def emit(e: str, **more) -> None:
        def logfn() -> None:
            if e == "call":            # the invocation index is taken at the (scheduled) call point
                with _LOCK:
                    base["n"] = _COUNTS.get(fid, 0)
                    _COUNTS[fid] = base["n"] + 1
            _log(dict(base, e=e, **more))
        if GATE is not None:
            GATE(fd["name"], e, kw_json, logfn)   # logged at the scheduled point, under the gate's lock
        else:
            logfn()

    emit("call")
    if DELAY is not None:
        DELAY(fd["name"], kw_json)
    fail = fd.get("fail")
    if fail is not None:
        w = fail["when"]
        if (w == "*" or (isinstance(w, int) and w == base["n"]) or (isinstance(w, dict) and w == kw_json)
                or (isinstance(w, list) and kw_json in w)):
            eargs = list(fail.get("args", []))
            if fail.get("argskw"):           # the exception's args name the failing invocation (so that a stale snapshot /
                eargs.append(json.dumps(kw_json, sort_keys=True))   # exception of an EARLIER failure is distinguishable)
            if fail.get("shared"):           # user code that raises one pre-built exception INSTANCE again and again
                exc = _SHARED_EXC.setdefault(fid, EXC[fail["cls"]](*eargs))
            else:
                exc = EXC[fail["cls"]](*eargs)
            emit("fail", cls=fail["cls"], args=list(exc.args))
            if fail.get("prenote"):          # the user's exception already carries a note of its own
                exc.add_note("note added by the user function before raising")
            raise exc
    args = tuple(canon(kwargs[p]) for p in fd["params"])
    if fd.get("rescpus"):                       # the result depends on the evaluated resources (their cpus count)
        args = args + (Term(f"@cpus{res.cpus}"),)
    if fd.get("impl"):                          # tag of the implementation (Pipeline.replace swaps bodies, same signature)
        args = args + (Term("@impl:" + fd["impl"]),)
    ishape = fd.get("internal_shape") or []

    def value(o: str):
        if not ishape:
            return Term(o, args)
        nested = _nested(ishape, lambda idx: Term(o, args + tuple(idx_atom(j) for j in idx)))
        if fd.get("hide_ms") or len(ishape) >= 2:   # no MapSpec of its own: the whole array is ONE result, consumers index it
            # numpy style; a block of rank >= 2 is handed over as an object ndarray as well (pipefunc indexes it with tuples)
            import numpy as _np
            arr = _np.empty(tuple(ishape), dtype=object)
            for idx in _np.ndindex(*ishape):
                x = nested
                for j in idx:
                    x = x[j]
                arr[idx] = x
            return arr
        return nested

    outs = fd["outputs"]
    if fd.get("retnone"):
        res = None if len(outs) == 1 else tuple(None for _ in outs)
    elif fd.get("picker") and len(outs) > 1:
        # a custom output_picker: the function returns a mapping keyed by the (final) output names, listed in REVERSED
        # order so that a positional pick would be wrong
        res = {o: value(o) for o in reversed(outs)}
    elif fd.get("rettuple") and len(outs) == 1 and not ishape and not fd.get("dataclass"):
        # the single result is itself a tuple (bounds, a shape, a (mean, std) pair): still ONE value for ONE output name
        from .terms import tuple_term
        res = tuple_term(value(outs[0]))
    else:
        res = value(outs[0]) if len(outs) == 1 else tuple(value(o) for o in outs)
    emit("ret")
    return res


def orig_name(fd: dict, p: str) -> str:
    """Name of the underlying Python parameter: scoped (dotted) and explicitly renamed parameters get a sanitised one."""
    return "o_" + p.replace(".", "_") if (p in fd.get("renamed", []) or "." in p) else p


def make_callable(fid: str, fd: dict):
    """A real Python function with the exact signature (original parameter names).  With `rescpus` the function takes the
    evaluated Resources through the extra argument `res` (resources_variable) and its result depends on res.cpus."""
    names = [orig_name(fd, p) for p in fd["params"]]
    pairs = ", ".join(f"{p!r}: {n}" for p, n in zip(fd["params"], names))
    sig = names + (["res"] if fd.get("rescpus") else [])
    extra = ", res" if fd.get("rescpus") else ""
    if fd.get("dataclass") and len(fd["outputs"]) == 1 and not fd.get("retnone") and not fd.get("rescpus"):
        # a DATACLASS as the pipeline function: constructing it is the call, the instance is the result (it carries the term).
        # Every parameter with a default in the description ALSO has a (different) field default on the dataclass: the
        # explicit PipeFunc default must win.
        lines = ["import dataclasses", "@dataclasses.dataclass(kw_only=True, repr=False, eq=False)", f"class {fd['name']}:"]
        for p_, n in zip(fd["params"], names):
            dflt = " = dataclasses.field(default_factory=lambda: _b.Term('@dcfield_" + n + "'))" if p_ in (fd.get("defaults") or {}) else ""
            lines.append(f"    {n}: object{dflt}")
        lines += ["    def __repr__(self):", "        return repr(self._pfverif_term)",        # prints like the term it stands for
                  "    def __eq__(self, o):", "        return _b.canon(self) == _b.canon(o)",
                  "    def __hash__(self):", "        return hash(self._pfverif_term)",
                  "    def __post_init__(self):",
                  f"        self._pfverif_term = _b.invoke({fid!r}, {{" + ", ".join(f"{p_!r}: self.{n}" for p_, n in zip(fd["params"], names)) + "})"]
        ns = {"_b": __import__("pfverif.build", fromlist=["x"])}
        exec("\n".join(lines), ns)  # noqa: S102
        cls = ns[fd["name"]]
        cls.__module__ = "pfverif_user"
        return cls
    pyname = fd.get("pyname") or fd["name"]      # `pyname`: several functions of a pipeline may share one Python __name__
    if fd.get("annot"):          # `annot`: every parameter and the result annotated with this type (static validation only)
        t = fd["annot"]
        sig = [f"{n}: {t}" for n in sig]
        ret = f" -> {t}" if len(fd["outputs"]) == 1 else f" -> tuple[{', '.join([t] * len(fd['outputs']))}]"
    else:
        ret = ""
    src = (f"def {pyname}({', '.join(sig)}){ret}:\n"
           f"    from pfverif import build as _b\n"
           f"    return _b.invoke({fid!r}, {{{pairs}}}{extra})\n")
    ns: dict = {}
    exec(src, ns)  # noqa: S102
    fn = ns[pyname]
    fn.__module__ = "pfverif_user"
    return fn


_IDS = itertools.count()


def py_value(j: dict):
    """A default / bound value given as term JSON -> the Python value a user would write: arrays become lists (rank 1) or
    object ndarrays (rank >= 2), everything else an opaque Term."""
    t = from_json(j)
    if t.f != "#arr":
        return t
    from .terms import arr_shape, to_ndarray
    rank = len(arr_shape(t))
    arr = to_ndarray(t, rank)
    return list(arr) if rank == 1 else arr


def make_pipefunc(fd: dict, tag: str = ""):
    from pipefunc import PipeFunc

    fid = f"{tag}{fd['name']}#{next(_IDS)}"
    REG[fid] = fd
    fn = make_callable(fid, fd)
    renames = {orig_name(fd, p): p for p in fd["params"] if orig_name(fd, p) != p}
    defaults = {p: py_value(v) for p, v in (fd.get("defaults") or {}).items()}
    bound = {p: py_value(v) for p, v in (fd.get("bound") or {}).items()}
    outs = fd["outputs"]
    # "decl_internal_shape": what PipeFunc(internal_shape=) is told (None / a WRONG shape when map(internal_shapes=) is to
    # supply or override it); "internal_shape" stays what the function really returns
    ishape = (fd["decl_internal_shape"] if "decl_internal_shape" in fd else fd.get("internal_shape")) or None
    if fd.get("hide_ms"):        # the producer carries neither a MapSpec nor an internal shape: pipefunc generates the MapSpec
        ishape = None            # from the consumers' MapSpecs (the description states the MapSpec that must result)
    orig_outs = list(outs)
    if fd.get("outperm") and len(outs) > 1:
        # the function is declared with the output names in reversed order and renamed position by position, so that
        # routing must follow the names AFTER renaming: position k is finally called outs[k]
        orig_outs = list(reversed(outs))
        renames.update({o: n for o, n in zip(orig_outs, outs) if o != n})
    elif fd.get("outrenamed") or any("." in o for o in outs):
        orig_outs = ["r_" + o.replace(".", "_") for o in outs]
        renames.update(dict(zip(orig_outs, outs)))
    reskw: dict = {}
    if fd.get("rescpus"):
        from pipefunc.resources import Resources
        src_param = fd["rescpus"]
        reskw = {"resources": (lambda kw, _p=src_param: Resources(cpus=len(kw[_p]))), "resources_variable": "res",
                 "resources_scope": "map"}
    if fd.get("picker") and len(outs) > 1 and not fd.get("retnone"):
        reskw["output_picker"] = pick_by_name
    if fd.get("elemscope"):          # static resources evaluated per element (learners are then split per element)
        from pipefunc.resources import Resources
        reskw.update({"resources": Resources(cpus=1), "resources_scope": "element"})
    if fd.get("hook"):
        def hook(func, result, kwargs, _fid=fid, _fd=fd):
            # post_execution_hook(func, result, kwargs): logged as an event of its own (kwargs arrive under the ORIGINAL names)
            _log({"e": "hook", "f": _fd["name"], "fid": _fid, "result": to_json(result),
                  "kwargs": {p: to_json(kwargs[orig_name(_fd, p)]) for p in _fd["params"]}})
        reskw["post_execution_hook"] = hook
    pf = PipeFunc(fn, orig_outs[0] if len(outs) == 1 else tuple(orig_outs), renames=renames or None, **reskw,
                  defaults=defaults or None, bound=bound or None, mapspec=None if fd.get("hide_ms") else fd.get("mapspec"),
                  internal_shape=(ishape[0] if fd.get("intshape") and len(ishape) == 1 else tuple(ishape)) if ishape else None,
                  cache=bool(fd.get("cache", False)))           # `intshape`: a rank-1 internal shape given as a plain int
    pf._pfverif_id = fid  # noqa: SLF001
    return pf


def pick_by_name(output: Any, name: str) -> Any:
    """The custom output_picker of `picker` functions (module level: picklable for process pools)."""
    return output[name]


def make_cache_kwargs(desc: dict) -> dict:
    kw: dict = {}
    if desc.get("cache_type"):
        kw["cache_type"] = desc["cache_type"]
        kw["cache_kwargs"] = desc.get("cache_kwargs") or None
    return kw


def make_pipeline(desc: dict, tag: str = "", **extra):
    from pipefunc import Pipeline

    funcs = [make_pipefunc(fd, tag) for fd in desc["funcs"]]
    kw = dict(lazy=bool(desc.get("lazy", False)), **make_cache_kwargs(desc))
    if desc.get("scope"):
        kw["scope"] = desc["scope"]
    kw.update(extra)
    return Pipeline(funcs, **kw)


def scoped(tdesc: dict, inputs: list, scope: str, names: set | None = None) -> tuple[dict, list]:
    """The same description with `names` (default: every parameter and output) moved into scope `scope` (dotted names), as
    `Pipeline.update_scope` would produce; inputs renamed accordingly.  Works on TLA-form descriptions."""
    import copy
    allnames = {p for f in tdesc["funcs"] for p in f["params"]} | {o for f in tdesc["funcs"] for o in f["outputs"]}
    names = allnames if names is None else names & allnames

    def r(n: str) -> str:
        return f"{scope}.{n}" if n in names else n
    d = copy.deepcopy(tdesc)
    for f in d["funcs"]:
        f["params"] = [r(p) for p in f["params"]]
        f["outputs"] = [r(o) for o in f["outputs"]]
        f["defaults"] = [[r(k), v] for k, v in f["defaults"]]
        f["bound"] = [[r(k), v] for k, v in f["bound"]]
        for side in ("ins", "outs"):
            for a in f["ms"][side]:
                a["name"] = r(a["name"])
    return d, [[r(n), v] for n, v in inputs]


# ---- description -> TLA+/JSON form ------------------------------------------------------------------
def parse_mapspec(ms: str | None) -> dict:
    """'a[i], b[:, j] -> c[i, j]' -> {"ins": [{"name","axes"}], "outs": [...]} (harness-side tokenizer, trivial)."""
    if not ms:
        return {"ins": [], "outs": []}
    lhs, rhs = ms.split("->")

    def side(s: str) -> list[dict]:
        out = []
        s = s.strip()
        if s == "...":
            return out
        depth = 0
        cur = ""
        parts = []
        for ch in s:
            if ch == "[":
                depth += 1
            elif ch == "]":
                depth -= 1
            if ch == "," and depth == 0:
                parts.append(cur)
                cur = ""
            else:
                cur += ch
        if cur.strip():
            parts.append(cur)
        for p in parts:
            name, rest = p.strip().split("[", 1)
            axes = [a.strip() for a in rest.rstrip("]").split(",")]
            out.append({"name": name.strip(), "axes": axes})
        return out
    return {"ins": side(lhs), "outs": side(rhs)}


def desc_to_tla(desc: dict) -> dict:
    """Uniformly typed JSON for TLC: optional parts are flags + always-present fields; maps are pair lists."""
    funcs = []
    for fd in desc["funcs"]:
        funcs.append({
            "name": fd["name"], "params": list(fd["params"]), "outputs": list(fd["outputs"]),
            "defaults": [[p, v] for p, v in (fd.get("defaults") or {}).items()],
            "bound": [[p, v] for p, v in (fd.get("bound") or {}).items()],
            "has_ms": bool(fd.get("mapspec")), "ms": parse_mapspec(fd.get("mapspec")),
            "internal": list(fd.get("internal_shape") or []),
            "cache": bool(fd.get("cache", False)),
            "retnone": bool(fd.get("retnone", False)),
            "rescpus": fd.get("rescpus") or "", "impl": fd.get("impl") or "",
        })
    return {"funcs": funcs}
