"""Driver for Pipeline.map: runs a real map on a pipeline built from a description and records MapRun trace
events (begin, call/ret/fail in execution order, return/raise/reject), uniformly typed for TLC."""
from __future__ import annotations

import contextlib
import io
import shutil
import tempfile
from typing import Any

import numpy as np

from . import build
from .terms import Term, canon, from_json, to_json

BLANK = {"e": "", "F": [], "cleanup": True, "fixed": [], "f": "", "kwargs": [], "results": [], "loaded": [], "cls": "", "msg": "", "args": [], "attributed": False, "disk": [], "linputs": [], "ldefaults": [], "shapes": [],
         "storage_in": [], "storage_out": [], "mapspecs_in": [], "mapspecs_out": [], "proc": "", "fixedraw": [], "new_inputs": [], "cache": False, "func": {},
         "repro": ["", []], "repro_loaded": ["", []]}


def ev(**kw) -> dict:
    e = dict(BLANK)
    e.update(kw)
    return e


def to_nd(t: Term):
    from .terms import arr_shape, to_ndarray
    return to_ndarray(t, len(arr_shape(t)))


def user_atom_class():
    """A class defined in the running program's __main__ (as a user's script would): cloudpickle must store its instances
    by value for them to load in another interpreter."""
    import __main__
    if not hasattr(__main__, "UserAtom"):
        exec("class UserAtom:\n"
             "    def __init__(self, a): self._pfverif_atom = a\n"
             "    def __eq__(self, o): return type(o).__name__ == 'UserAtom' and self._pfverif_atom == o._pfverif_atom\n"
             "    def __hash__(self): return hash(self._pfverif_atom)\n"
             "    def __repr__(self): return self._pfverif_atom\n", __main__.__dict__)  # noqa: S102
    return __main__.UserAtom


def _wrap_user(t: Term):
    if t.f == "#arr":
        return Term("#arr", tuple(_wrap_user(x) for x in t.a)) if False else t
    return t


class NoCopyAtom:
    """An input value that can be pickled but NOT copied (stands for a lock, an open file, a generator ...): a valid
    argument that code paths which copy.deepcopy their arguments choke on."""

    def __init__(self, a: str) -> None:
        self._pfverif_atom = a

    def __eq__(self, o: object) -> bool:
        return isinstance(o, NoCopyAtom) and self._pfverif_atom == o._pfverif_atom

    def __hash__(self) -> int:
        return hash(self._pfverif_atom)

    def __repr__(self) -> str:
        return self._pfverif_atom

    def __deepcopy__(self, memo):
        raise TypeError("cannot copy a NoCopyAtom (it stands for a lock / an open file)")

    __copy__ = __deepcopy__


class NoEqAtom(NoCopyAtom):
    """An input value whose comparison raises (as e.g. ragged / ambiguous array comparisons do): two runs cannot tell
    whether their inputs are the same; pipefunc then proceeds ("hoping for the best")."""

    def __eq__(self, o: object) -> bool:
        raise ValueError("the truth value of comparing NoEqAtoms is ambiguous")

    __hash__ = NoCopyAtom.__hash__
    __deepcopy__ = None      # copyable again (RunInfo.dump deep-copies its inputs)
    __copy__ = None


def inputs_to_py(inputs: list[list], kinds: dict[str, str] | None = None) -> dict[str, Any]:
    """[[name, value-json]] -> python inputs; arrays of rank 1 as list or ndarray (kinds[name]), rank>=2 ndarray.
    kinds[name] == "userclass": a list whose elements are instances of a class defined in __main__."""
    out: dict[str, Any] = {}
    for name, vj in inputs:
        t = from_json(vj)
        if (kinds or {}).get(name) in ("userclass", "nocopy", "noeq"):
            cls = user_atom_class() if kinds[name] == "userclass" else NoCopyAtom if kinds[name] == "nocopy" else NoEqAtom
            out[name] = [cls(x.f) for x in t.a] if t.f == "#arr" and all(not y.a for y in t.a) else cls(t.f) if not t.a else t
            if isinstance(out[name], Term):
                out[name] = list(to_nd(t))
            continue
        if t.f != "#arr":
            out[name] = t
            continue
        rank = 0
        x = t
        while isinstance(x, Term) and x.f == "#arr" and x.a:
            rank += 1
            x = x.a[0]
        from .terms import to_ndarray
        arr = to_ndarray(t, rank)
        kind = (kinds or {}).get(name, "ndarray")
        out[name] = list(arr) if (rank == 1 and kind == "list") else arr
    return out


def log_events(start: int, desc: dict | None = None) -> list[dict]:
    out = []
    for rec in build.read_log()[start:] if build.LOG_FILE else build.LOG[start:]:
        fd = build.REG.get(rec["fid"]) or next(f for f in desc["funcs"] if f["name"] == rec["f"])
        kw = [[p, rec["kwargs"][p]] for p in fd["params"]]
        if rec["e"] in ("call", "ret"):
            out.append(ev(e=rec["e"], f=rec["f"], kwargs=kw))
        elif rec["e"] == "fail":
            out.append(ev(e="fail", f=rec["f"], kwargs=kw, cls=rec["cls"], args=[str(a) for a in rec.get("args", [])]))
    return out


def ms_string(ms: dict) -> str | None:
    def side(xs):
        return ", ".join(f"{x['name']}[{', '.join(x['axes'])}]" for x in xs)
    if not ms["outs"]:
        return None
    return (side(ms["ins"]) if ms["ins"] else "...") + " -> " + side(ms["outs"])


def tla_desc_to_py(d: dict) -> dict:
    funcs = []
    for f in d["funcs"]:
        funcs.append({"name": f["name"], "params": list(f["params"]), "outputs": list(f["outputs"]),
                      "defaults": {p: v for p, v in f["defaults"]}, "bound": {p: v for p, v in f["bound"]},
                      "mapspec": ms_string(f["ms"]) if f["has_ms"] else None,
                      "internal_shape": list(f.get("internal", [])), "cache": bool(f.get("cache", False)),
                      "retnone": bool(f.get("retnone", False)), "rescpus": f.get("rescpus") or "", "impl": f.get("impl") or "", "picker": bool(f.get("picker", False)), "elemscope": bool(f.get("elemscope", False)), "pyname": f.get("pyname") or "", "intshape": bool(f.get("intshape", False)), "rettuple": bool(f.get("rettuple", False)), "hide_ms": bool(f.get("hide_ms", False))})
    return {"funcs": funcs}


def results_json(results: dict) -> list[list]:
    return [[str(k), to_json(r.output)] for k, r in results.items()]


def raise_event(kind: str, ex: BaseException, evs: list[dict], run_folder, desc: dict, persistent: bool = True) -> dict:
    """The exception as the caller sees it: class, args, whether its notes name the failing function and kwargs, and what
    load_outputs still returns for outputs that were completely computed before the failure."""
    fails = [e for e in evs if e["e"] == "fail"]
    notes = list(getattr(ex, "__notes__", []) or [])
    attributed = False
    if fails:
        from .terms import from_json
        # with several failing invocations the caller sees one of them: its note must name that function and kwargs
        attributed = any(f0["f"] in n and all(f"{p}=" in n and (v["f"] == "#arr" or ("None" if v["f"] == "#none" else repr(from_json(v))) in n)
                                              for p, v in f0["kwargs"])
                         for n in notes for f0 in fails)
    loaded = []
    if run_folder is not None and fails and persistent:
        from pipefunc.map import load_outputs
        complete = set()
        for fd in desc["funcs"]:
            ncall = sum(1 for e in evs if e["e"] == "call" and e["f"] == fd["name"])
            nret = sum(1 for e in evs if e["e"] == "ret" and e["f"] == fd["name"])
            if ncall and ncall == nret and fd["name"] not in {f["f"] for f in fails} and not _later_than_failed(desc, fd, fails):
                complete.update(fd["outputs"])
        for name in sorted(complete):
            try:
                loaded.append([name, to_json(load_outputs(name, run_folder=run_folder))])
            except Exception as ex2:  # noqa: BLE001
                loaded.append([name, to_json(Term("#load-error:" + type(ex2).__name__))])
    return ev(e=kind, cls=type(ex).__name__, msg=str(ex)[:300], args=[str(a) for a in ex.args], attributed=attributed,
              loaded=loaded)


def generations(desc: dict) -> dict[str, int]:
    """function name -> topological generation (1-based), from the description alone (trivial harness-side helper)."""
    prod = {o: fd["name"] for fd in desc["funcs"] for o in fd["outputs"]}
    by = {fd["name"]: fd for fd in desc["funcs"]}
    memo: dict[str, int] = {}

    def g(n: str) -> int:
        if n not in memo:
            deps = [prod[p] for p in by[n]["params"] if p in prod and p not in (by[n].get("bound") or {})]
            memo[n] = 1 + max([g(x) for x in deps], default=0)
        return memo[n]
    return {n: g(n) for n in by}


def _later_than_failed(desc: dict, fd: dict, fails: list[dict]) -> bool:
    """Only functions of generations before the failing one were certainly processed by the parent."""
    gens = generations(desc)
    return gens[fd["name"]] >= min(gens[f["f"]] for f in fails)


def do_map(pipeline, desc: dict, inputs_py: dict, *, run_folder: str | None, storage="dict", parallel=False,
           cleanup=True, fixed_indices=None, fixed_resolved: list | None = None, fixed_raw: list | None = None,
           F: list[str] | None = None,
           executor=None, output_names=None, internal_shapes=None, load=True, settle=None, use_async=False,
           **extra) -> tuple[list[dict], Any]:
    """One map run -> (events, results or exception).  use_async: through Pipeline.map_async (awaited to the end)."""
    fnames = F if F is not None else [fd["name"] for fd in desc["funcs"]]
    events = [ev(e="begin", F=fnames, cleanup=cleanup, fixed=fixed_resolved or [], fixedraw=fixed_raw or [],
                 cache=pipeline.cache is not None)]
    start = len(build.read_log())     # the cross-process log file when one is set, the in-process list otherwise
    buf = io.StringIO()
    import asyncio
    try:
        with contextlib.redirect_stdout(buf):
            if use_async:
                async def go():
                    am = pipeline.map_async(inputs_py, run_folder=run_folder, storage=storage, cleanup=cleanup,
                                            fixed_indices=fixed_indices, executor=executor, output_names=output_names,
                                            internal_shapes=internal_shapes, **extra)
                    return await am.task
                res = asyncio.run(go())
            else:
                res = pipeline.map(inputs_py, run_folder=run_folder, storage=storage, parallel=parallel, cleanup=cleanup,
                                   fixed_indices=fixed_indices, executor=executor, output_names=output_names,
                                   internal_shapes=internal_shapes, **extra)
    except (Exception, asyncio.CancelledError) as ex:  # noqa: BLE001
        if settle is not None:
            settle()
        evs = log_events(start)
        events += evs
        kind = "raise" if any(e["e"] == "fail" for e in evs) else "reject" if not evs else "error"
        if kind == "reject":
            events = [ev(e="reject", F=fnames, cleanup=cleanup, fixed=fixed_resolved or [], fixedraw=fixed_raw or [],
                         cls=type(ex).__name__, msg=str(ex)[:300])]
        else:
            events.append(raise_event(kind, ex, evs, run_folder, desc, persistent=(storage == "file_array")))
        return events, ex
    events += log_events(start)
    loaded = []
    if run_folder is not None and load:
        from pipefunc.map import load_outputs
        for name in res:
            try:
                loaded.append([str(name), to_json(load_outputs(name, run_folder=run_folder))])
            except Exception as ex:  # noqa: BLE001
                loaded.append([str(name), to_json(Term("#load-error:" + type(ex).__name__))])
    events.append(ev(e="return", results=results_json(res), loaded=loaded))
    return events, res
