"""Controllable concurrent.futures.Executor: every submitted task runs in its own thread, but the user functions inside
block at their entry and exit gates until the schedule script (a TLC behaviour) says it is their turn.  No timing is
involved; a watchdog turns a script the code cannot follow into a reported 'stuck' outcome."""
from __future__ import annotations

import json
import threading
from concurrent.futures import Executor, Future

from . import build


class Stuck(Exception):
    pass


class Script:
    SEEN_STUCK = False
    """Sequence of {"e": call|ret|fail, "f": name, "kwargs": [[p, value]]} items consumed in order."""

    def __init__(self, items: list[dict], timeout: float | None = None) -> None:
        self.items = [(it["e"], it["f"], json.dumps(dict((p, v) for p, v in it["kwargs"]), sort_keys=True))
                      for it in items if it["e"] in ("call", "ret", "fail")]
        self.pos = 0
        self.cv = threading.Condition()
        # generous while nothing is wrong (a loaded machine must never produce a false 'stuck'); once one script of this
        # process could not be followed the verdict is already a violation and the rest may fail fast
        self.timeout = timeout if timeout is not None else (15.0 if Script.SEEN_STUCK else 120.0)
        self.stuck: str | None = None
        self.unexpected: list[tuple] = []
        self.late = 0

    def gate(self, fname: str, event: str, kw_json: dict, logfn) -> None:
        me = (event, fname, json.dumps(kw_json, sort_keys=True))
        with self.cv:
            if self.pos >= len(self.items):
                # the script is exhausted (the model's behaviour ended, e.g. with Raise): tasks that were submitted but never
                # scheduled run now, unscheduled; their events are logged in arrival order after the scripted ones
                self.late += 1
                logfn()
                return
            ok = self.cv.wait_for(lambda: self.stuck is not None or self.pos >= len(self.items)
                                  or self.items[self.pos] == me, timeout=self.timeout)
            if ok and self.stuck is None and self.pos >= len(self.items):
                self.late += 1
                logfn()
                return
            if not ok or self.stuck is not None:
                if self.stuck is None:
                    nxt = self.items[self.pos] if self.pos < len(self.items) else None
                    self.stuck = f"waiting for {me}, script position {self.pos} expects {nxt}"
                    Script.SEEN_STUCK = True
                    self.cv.notify_all()
                logfn()          # let the run proceed (unscheduled) so that nothing hangs; the outcome is 'stuck'
                return
            logfn()
            self.pos += 1
            self.cv.notify_all()

    def finished(self) -> bool:
        return self.pos == len(self.items) and self.stuck is None


class ScriptedExecutor(Executor):
    def __init__(self) -> None:
        self.threads: list[threading.Thread] = []
        self.submitted = 0

    def submit(self, fn, /, *args, **kwargs) -> Future:
        fut: Future = Future()
        self.submitted += 1

        def runner() -> None:
            if not fut.set_running_or_notify_cancel():
                return
            try:
                fut.set_result(fn(*args, **kwargs))
            except BaseException as ex:  # noqa: BLE001
                fut.set_exception(ex)

        t = threading.Thread(target=runner, daemon=True)
        self.threads.append(t)
        t.start()
        return fut

    def shutdown(self, wait: bool = True, *, cancel_futures: bool = False) -> None:
        if wait:
            for t in self.threads:
                t.join(timeout=30)


def with_script(script: Script):
    """Context manager installing the script's gate into build.GATE."""
    class _Ctx:
        def __enter__(self):
            build.GATE = script.gate
            return script

        def __exit__(self, *a):
            build.GATE = None
    return _Ctx()
