"""./check <PROPERTY> [--tier quick|thorough] [--seed N] [--replay FILE]

Exit codes: 0 = the property held on everything explored (KNOWN-FINDING lines possible),
            1 = at least one `VIOLATION property=<id> replay=<path>` line,
            2 = machinery failure (TLC crashed, spec does not parse, harness exception).
"""
from __future__ import annotations

import argparse
import importlib
import json
import os
import sys
import traceback

from .ctx import Ctx
from .tlc import MachineryError


def main(argv: list[str] | None = None) -> int:
    ap = argparse.ArgumentParser()
    ap.add_argument("prop")
    ap.add_argument("--tier", default=os.environ.get("VERIF_TIER", "quick"), choices=["quick", "thorough"])
    ap.add_argument("--seed", type=int, default=int(os.environ.get("VERIF_SEED", "0") or 0))
    ap.add_argument("--replay", default=None)
    a = ap.parse_args(argv)
    prop = a.prop.upper()
    try:
        from . import bootstrap  # noqa: F401  (checks that pipefunc is imported from VERIF_REPO)
        mod = importlib.import_module(f"pfverif.props.{prop.lower()}")
    except Exception:  # noqa: BLE001
        traceback.print_exc()
        print(f"MACHINERY-FAILURE property={prop}: cannot load check")
        return 2
    if a.replay:
        with open(a.replay) as f:
            rep = json.load(f)
        try:
            return int(mod.replay(rep))
        except Exception:  # noqa: BLE001
            traceback.print_exc()
            return 2
    ctx = Ctx(prop, a.tier, a.seed, level=getattr(mod, "LEVEL", "model_checking"))
    try:
        mod.run(ctx)
        return ctx.finish()
    except MachineryError as e:
        print(f"MACHINERY-FAILURE property={prop}: {e}")
        ctx.cleanup()
        return 2
    except Exception:  # noqa: BLE001
        traceback.print_exc()
        print(f"MACHINERY-FAILURE property={prop}: harness exception")
        ctx.cleanup()
        return 2


if __name__ == "__main__":
    rc = main()
    sys.stdout.flush()
    sys.stderr.flush()
    import threading
    stuck = [t for t in threading.enumerate() if t is not threading.main_thread() and not t.daemon and t.is_alive()]
    if stuck:
        # a thread of the code under test that never ends (e.g. a profiler that is never stopped) must not keep the check
        # from terminating with its verdict: run the exit handlers (multiprocessing children etc.) and leave
        import atexit
        import os
        try:
            atexit._run_exitfuncs()  # noqa: SLF001
        finally:
            os._exit(rc)
    sys.exit(rc)
