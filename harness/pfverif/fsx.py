"""File-system interposer for harness child processes (C05): counts the file-system operations that reach the OS under
one directory tree and makes the process die (os._exit) right after operation number `die_after`.

Granularity = raw IO: open-for-write (file now exists, empty/truncated), each raw write(2) (optionally cut short: a torn
write), close, mkdir, replace/rename, unlink, rmdir.  Python-level write() calls are NOT counted: buffered/text layers
are built over a counting FileIO, so one counted write is one write(2).
"""
from __future__ import annotations

import builtins
import io
import os

_real_open = io.open
_real = {k: getattr(os, k) for k in ("mkdir", "replace", "rename", "unlink", "rmdir", "remove")}

STATE = {"root": None, "n": 0, "die_after": None, "torn": False, "log": None, "active": False}


def _under(path) -> bool:
    try:
        p = os.path.abspath(os.fspath(path))
    except TypeError:
        return False
    return STATE["root"] is not None and (p == STATE["root"] or p.startswith(STATE["root"] + os.sep))


def _rel(path) -> str:
    return os.path.relpath(os.path.abspath(os.fspath(path)), STATE["root"])


def _op(kind: str, path, extra: str = "") -> None:
    """Called AFTER the operation took effect."""
    STATE["n"] += 1
    if STATE["log"] is not None:
        STATE["log"].append((kind, _rel(path), extra))
    if STATE["die_after"] is not None and STATE["n"] >= STATE["die_after"]:
        os._exit(77)


def _will_die_on_next() -> bool:
    return STATE["die_after"] is not None and STATE["n"] + 1 >= STATE["die_after"]


class _CountingFileIO(io.FileIO):
    def __init__(self, file, mode):
        super().__init__(file, mode)
        self._pf_path = file
        _op("open_w", file)

    def write(self, b):
        if STATE["torn"] and _will_die_on_next() and len(b) > 1:
            n = super().write(bytes(b[: len(b) // 2]))      # torn write: half of the bytes reach the file
            _op("write", self._pf_path, f"torn {n}/{len(b)}")
            return n
        n = super().write(b)
        _op("write", self._pf_path, str(n))
        return n

    def close(self):
        if not self.closed:
            super().close()
            _op("close", self._pf_path)


def _open(file, mode="r", buffering=-1, encoding=None, errors=None, newline=None, closefd=True, opener=None):
    writing = any(c in mode for c in "wax+")
    if not STATE["active"] or not writing or isinstance(file, int) or not _under(file):
        return _real_open(file, mode, buffering, encoding, errors, newline, closefd, opener)
    raw_mode = "".join(c for c in mode if c in "wax+r") or "w"
    raw = _CountingFileIO(os.fspath(file), raw_mode)
    if "b" in mode:
        if buffering == 0:
            return raw
        return io.BufferedWriter(raw) if "+" not in mode else io.BufferedRandom(raw)
    buf = io.BufferedWriter(raw)
    return io.TextIOWrapper(buf, encoding=encoding, errors=errors, newline=newline)


def _wrap1(name: str, kind: str):
    real = _real[name]

    def f(path, *a, **kw):
        r = real(path, *a, **kw)
        if STATE["active"] and _under(path) and "dir_fd" not in kw:
            _op(kind, path)
        elif STATE["active"] and kw.get("dir_fd") is not None and STATE["root"] is not None:
            _op(kind, os.path.join(STATE["root"], "<dirfd>", os.fspath(path)))
        return r
    return f


def _wrap2(name: str, kind: str):
    real = _real[name]

    def f(src, dst, *a, **kw):
        r = real(src, dst, *a, **kw)
        if STATE["active"] and _under(dst):
            _op(kind, dst, _rel(src) if _under(src) else "")
        return r
    return f


def install(root: str, die_after: int | None = None, torn: bool = False, record: bool = False) -> None:
    STATE.update(root=os.path.abspath(root), n=0, die_after=die_after, torn=torn, log=[] if record else None, active=True)
    io.open = _open
    builtins.open = _open
    os.mkdir = _wrap1("mkdir", "mkdir")
    os.unlink = _wrap1("unlink", "unlink")
    os.remove = _wrap1("remove", "unlink")
    os.rmdir = _wrap1("rmdir", "rmdir")
    os.replace = _wrap2("replace", "replace")
    os.rename = _wrap2("rename", "replace")


def uninstall() -> list | None:
    STATE["active"] = False
    io.open = _real_open
    builtins.open = _real_open
    for k, v in _real.items():
        setattr(os, k, v)
    return STATE["log"]
