"""Scheduler-controlled lock for cache interleavings (C14, shared=True).

The two "processes" of a CacheConc behaviour are realised as threads over ONE Manager-backed (shared=True) cache
object whose `_cache_lock` attribute is replaced, on the instance, by a lock that hands over in the order of the TLC
behaviour.  Exactly one thread runs at a time; every model step of process p corresponds to the stretch of real code
between two blocking points of p's current operation (operation start, lock acquisition, an explicit point between the
callers' `in` test and `get`).  No timing is involved.
"""
from __future__ import annotations

import threading


class Controller:
    def __init__(self, steps: list[dict], timeout: float = 120.0) -> None:
        self.steps = steps              # [{"p": 1|2, "s": kind, "n": op index}]
        self.pos = 0
        self.cv = threading.Condition()
        self.timeout = timeout
        self.stuck: str | None = None
        self.local = threading.local()
        self.events: list[dict] = []    # operations in linearisation order (appended at operation end)

    def remaining_for(self, p: int, n: int) -> int:
        return sum(1 for s in self.steps[self.pos:] if s["p"] == p and s["n"] == n)

    def turn(self, p: int) -> None:
        with self.cv:
            ok = self.cv.wait_for(lambda: self.stuck is not None or self.pos >= len(self.steps)
                                  or self.steps[self.pos]["p"] == p, timeout=self.timeout)
            if not ok and self.stuck is None:
                self.stuck = f"process {p} waited for its turn at script position {self.pos}"
                self.cv.notify_all()

    def yield_(self) -> None:
        with self.cv:
            self.pos += 1
            self.cv.notify_all()

    # ---- blocking points of the thread that runs process p ------------------------------------------
    def op_start(self, p: int, n: int) -> None:
        self.local.p, self.local.n = p, n
        self.turn(p)

    def point(self) -> None:
        """A blocking point inside the current operation: ends the current model step, waits for the next one of the
        same operation if the behaviour has one."""
        p, n = self.local.p, self.local.n
        with self.cv:
            more = sum(1 for s in self.steps[self.pos + 1:] if s["p"] == p and s["n"] == n) > 0
        if more:
            self.yield_()
            self.turn(p)

    def op_end(self, event: dict) -> None:
        p, n = self.local.p, self.local.n
        self.events.append(event)
        # consume model steps of this operation the code did not need (e.g. repaired get has no separate test step)
        while True:
            with self.cv:
                more = sum(1 for s in self.steps[self.pos + 1:] if s["p"] == p and s["n"] == n) > 0
            if not more:
                break
            self.yield_()
            self.turn(p)
        self.yield_()


class CtlLock:
    """Replaces `cache._cache_lock` on one instance: acquisition is a blocking point; a real lock still guards it."""

    def __init__(self, ctl: Controller) -> None:
        self.ctl = ctl
        self.real = threading.RLock()

    def __enter__(self):
        # the harness's own observations (cache.cache takes the lock when shared) are no steps of the behaviour
        if not getattr(self.ctl.local, "observing", False):
            self.ctl.point()
        self.real.acquire()
        return self

    def __exit__(self, *a):
        self.real.release()
        return False
