"""C09 - caching never changes what a pipeline returns (call side; Pipeline.map is an extension point, see below).

Spec: PipelineCache.tla, two layers.
  Layer A (ideal rule): a history is a sequence of top-level calls and mutations (update_defaults, update_bound,
    replace) on one pipeline; the description is a variable; every call that succeeds WITHOUT caching must return
    Eval(d_now, kw, out); a cache=True function may be skipped only if the term it would produce now was produced
    earlier in the history; any other needed function must execute; in an exactly repeated call a cache=True function
    whose documented key was OBSERVED in pipeline.cache.cache before the call must not execute again.
  Layer B (implementation-shaped): the key scheme of _pipeline/_cache.py + the cache branches of Pipeline._run with a
    switch Scheme = asis | repaired and invariant Coherent.
1. TLC explores layer B (MC_PipelineCache) over small descriptions x every non-empty subset of cached functions x
   histories: Scheme=repaired must satisfy Coherent/Correct (design check of the fix); Scheme=asis must exhibit the
   stale-value families (supplied intermediate read / populate, update_bound); TLC exports one witness history per
   distinct reachable model state.
2. Twin pipelines (cached / uncached) are built from one description and driven through the same history: the TLC
   histories of (1) and seeded random ones (<= 12 events, cache types simple/lru/hybrid/disk, small capacities, every
   calling convention, supplied intermediates, surplus/missing keywords, interleaved mutations).  The trace is the
   CACHED twin's events; the uncached twin only decides "succeeds without caching".
3. TLC validates every trace against layer A (TracePipelineCache) and names the failed guard / cause of a stale value.

EXTENSION POINT (map side): `Pipeline.map` uses `_get_or_set_cache` (pipefunc/map/_run.py) keyed by the function's own
kwargs.  `map_histories(ctx, rng)` below is the hook: it should return traces with additional event kinds once
TracePipelineCache has actions for them; it returns [] now and nothing about map runs is claimed.
"""
from __future__ import annotations

import contextlib
import copy
import io
import json
import random
import tempfile
import time
from concurrent.futures import ThreadPoolExecutor
from pathlib import Path

from .. import build, pcall
from ..ctx import Ctx, digest
from ..tlc import MachineryError, run_tlc
from ..tracekit import TRACE_CFG, parse_prints, validate_traces
from . import c02

PROPERTY = "C09"
LEVEL = "model_checking"

CACHE_TYPES = ["simple", "lru", "hybrid", "disk"]
SCHEME_CONST = 'Scheme = "asis"'        # TracePipelineCache never uses layer B; the constant just needs a value

MCCFG = """SPECIFICATION HSpec
CONSTANTS N = {n} Rich = FALSE Shard = {shard} NShards = {nshards} MaxLen = {maxlen} MaxMut = {maxmut}
          Family = "{fam}" Export = {export} ExportMod = {exportmod} Scheme = "{scheme}"
VIEW HView
INVARIANT HKeysSane HTabSane HExport {invs}
"""
REQUIRED_FAMILIES = ("read-with-supplied-intermediate", "populated-with-supplied-intermediate",
                     "stale-after-update_bound")


# ---- twin pipelines -----------------------------------------------------------------------------------------------
def cache_kwargs_for(ctype: str, small: int, shared: bool, disk_dir: str | None) -> dict | None:
    """Constructor arguments of the pipeline's cache.  small > 0: capacity `small` (evictions happen)."""
    if ctype == "simple":
        return None
    if ctype == "lru":
        kw: dict = {"shared": shared}
    elif ctype == "hybrid":
        kw = {"shared": shared}
    else:
        kw = {"cache_dir": disk_dir, "lru_shared": shared}
        if small:
            kw["lru_cache_size"] = small
            kw["max_size"] = small
        return kw
    if small:
        kw["max_size"] = small
    return kw


def make_twins(tdesc: dict, ctype: str, ckw: dict | None):
    pd = pcall.tla_desc_to_py(tdesc)
    cached = dict(pd, cache_type=ctype, cache_kwargs=copy.deepcopy(ckw))
    plain = {"funcs": [dict(f, cache=False) for f in pd["funcs"]]}
    with contextlib.redirect_stdout(io.StringIO()):
        pc = build.make_pipeline(cached)
        pu = build.make_pipeline(plain)
    if pu.cache is not None:
        raise MachineryError("the uncached twin has a cache")
    return pc, pu


def run_history(tdesc: dict, ctype: str, ckw: dict | None, script: list[dict], twins=None) -> dict:
    """Drive both twins through `script`; returns the trace of the cached twin + the outcomes of both."""
    pc, pu = twins or make_twins(tdesc, ctype, ckw)
    outputs_of = {f["name"]: list(f["outputs"]) for f in tdesc["funcs"]}
    evs: list[dict] = []
    outcomes: list[dict] = []
    for op in script:
        if op["op"] == "mutate":
            mut = {k: op[k] for k in ("kind", "f", "p", "v", "func")}
            pcall.do_mutation(pc, mut, outputs_of)
            um = copy.deepcopy(mut)
            um["func"] = dict(um["func"], cache=False)
            pcall.do_mutation(pu, um, outputs_of)
            evs.append(pcall.with_cache_fields(pcall.ev(e="mutate", mut=mut)))
            outcomes.append({"op": "mutate"})
            continue
        obs = pcall.observe_cache(pc)
        ce = pcall.do_call(pc, op["out"], op["kw"], op["mode"])
        ue = pcall.do_call(pu, op["out"], op["kw"], op["mode"])
        ce[0]["obs"] = obs
        u_ok = ue[-1]["e"] in ("return", "returnfull")
        outcomes.append({"op": "call", "uncached": ue[-1], "cached": ce[-1],
                         "cached_calls": [e["f"] for e in ce if e["e"] == "call"],
                         "uncached_calls": [e["f"] for e in ue if e["e"] == "call"]})
        if not u_ok:
            ce[-1] = pcall.ev(e="outside", cls=ce[-1]["cls"] or ce[-1]["e"])
        evs += [pcall.with_cache_fields(e) for e in ce]
    return {"desc": tdesc, "ev": evs, "script": script, "cache_type": ctype, "cache_kwargs": ckw, "outcomes": outcomes}


# ---- histories exported by TLC (layer B behaviours) ------------------------------------------------------------------
def script_from_model(hist: list[dict], idx: int) -> list[dict]:
    conv = ["call", "run", "func"]
    out = []
    for j, h in enumerate(hist):
        if h["op"] == "call":
            out.append({"op": "call", "out": h["out"], "kw": [list(p) for p in h["kw"]],
                        "mode": "full" if h["mode"] == "full" else conv[(idx + j) % 3],
                        "pred": sorted(([n, v] for n, v in h["ret"]), key=lambda p: p[0]), "pred_good": h["good"]})
        else:
            out.append({"op": "mutate", "kind": h["kind"], "f": h["f"], "p": h["p"], "v": h["v"], "func": h["func"]})
    return out


def shape_of(h: dict) -> tuple:
    return (h["verdict"],) + tuple(e["kind"] if e["op"] == "mutate" else e["mode"] for e in h["hist"])


def select_histories(hists: list[dict], budget: int) -> list[dict]:
    """Deterministic selection of at most `budget` exported histories: round-robin over the groups
    (model verdict, sequence of event kinds), each group in digest order, so that every kind of history the model
    produced (every stale-value family, every mutation kind in every position) is replayed."""
    groups: dict[tuple, list[dict]] = {}
    for h in sorted(hists, key=digest):
        groups.setdefault(shape_of(h), []).append(h)
    order = sorted(groups)
    chosen: list[dict] = []
    k = 0
    while len(chosen) < budget and any(len(groups[g]) > k for g in order):
        for g in order:
            if len(groups[g]) > k and len(chosen) < budget:
                chosen.append(groups[g][k])
        k += 1
    return chosen


def model_runs(ctx: Ctx, specs: list[dict], timeout: float = 3000) -> dict[str, list[dict]]:
    """Run MC_PipelineCache for every spec {name, n, fam, maxlen, maxmut, scheme, export, nshards, invs}; all shards of
    all specs share one pool of TLC processes (one worker each: with a VIEW the witness history kept per state depends
    on the search order, a single worker makes the export deterministic).  Returns name -> exported histories."""
    jobs = [(sp, shard) for sp in specs for shard in sp.get("shards", range(sp["nshards"]))]

    def one(job):
        sp, shard = job
        cfg = MCCFG.format(n=sp["n"], shard=shard, nshards=sp["nshards"], maxlen=sp["maxlen"], maxmut=sp["maxmut"],
                           fam=sp["fam"], export="TRUE" if sp["export"] else "FALSE", exportmod=sp.get("exportmod", 1),
                           scheme=sp["scheme"], invs=sp["invs"])
        return run_tlc("MC_PipelineCache", cfg, ctx.workdir(f"mc_{sp['name']}_{shard}"), workers=1, heap="2g",
                       timeout=timeout, allow_violation=False)
    out: dict[str, list[dict]] = {sp["name"]: [] for sp in specs}
    with ThreadPoolExecutor(max_workers=16) as ex:
        for (sp, shard), r in zip(jobs, ex.map(one, jobs)):
            ctx.add_tlc(r, f"MC_PipelineCache {sp['name']} scheme={sp['scheme']} family={sp['fam']} MaxLen={sp['maxlen']} "
                           f"MaxMut={sp['maxmut']} shard {shard}/{sp['nshards']}")
            out[sp["name"]] += [p for t, p in parse_prints(r.prints) if t == "HIST"]
    return out


# ---- seeded random histories ------------------------------------------------------------------------------------------
def k_value(name: str, which: int) -> dict:
    return pcall.kv(name) if which == 1 else {"f": f"@k2_{name}", "a": []}


def random_history(rng: random.Random, idx: int, disk_root: Path, length: int) -> dict:
    tdesc = c02.random_desc(rng, rng.randint(2, 5))
    nf = len(tdesc["funcs"])
    cached = set(rng.sample(range(nf), rng.randint(1, nf)))
    for i, f in enumerate(tdesc["funcs"]):
        f["cache"] = i in cached
    ctype = CACHE_TYPES[idx % 4]
    small = rng.choice([0, 0, 0, 1, 2, 3])
    shared = idx % 97 == 5                      # a few shared (multiprocessing.Manager) containers: the default setting
    ddir = str(disk_root / f"r{idx}") if ctype == "disk" else None
    ckw = cache_kwargs_for(ctype, small, shared, ddir)
    pc, pu = make_twins(tdesc, ctype, ckw)
    names = {f["name"]: f for f in tdesc["funcs"]}
    outs = [o for f in tdesc["funcs"] for o in f["outputs"]]
    roots = ["x", "y", "z", "w"]
    cache_flag = {f["name"]: f["cache"] for f in tdesc["funcs"]}
    script: list[dict] = []
    prev_call: dict | None = None
    last_call: dict | None = None
    after_mut = False
    nmut = 0
    # the generator consults the live uncached twin (arg_combinations, parameters, defaults, bound), it does not
    # re-derive them; the history is executed step by step so that later choices see the mutated pipeline
    trace = {"desc": copy.deepcopy(tdesc), "ev": [], "script": script, "cache_type": ctype, "cache_kwargs": ckw,
             "outcomes": []}
    for _ in range(length):
        r = rng.random()
        op: dict
        if r < 0.22:
            fname = rng.choice(sorted(names))
            fd = names[fname]
            st = pcall.func_state(pu, fname, fd["outputs"], cache_flag[fname], base=names[fname])
            kind = rng.choice(["update_defaults", "update_bound", "update_bound", "replace"])
            blank = {"f": "", "p": "", "v": {"f": "", "a": []}, "func": pcall.BLANK_FUNC}
            nmut += 1
            if kind == "update_defaults":
                cand = [p for p in roots if any(p in pu[pcall.output_name_of(g)].parameters
                                                and p not in pu[pcall.output_name_of(g)].bound for g in tdesc["funcs"])]
                if not cand:
                    continue
                p = rng.choice(cand)
                op = {"op": "mutate", "kind": kind, **blank, "p": p, "v": {"f": f"@d{nmut}_{p}", "a": []}}
            elif kind == "update_bound":
                cand = [p for p in st["params"] if p not in dict(st["defaults"])]
                if not cand:
                    continue
                p = rng.choice(cand)
                op = {"op": "mutate", "kind": kind, **blank, "f": fname, "p": p, "v": {"f": f"@b{nmut}_{p}", "a": []}}
            else:
                new = dict(st)
                how = rng.choice(["reverse", "toggle", "shuffle", "impl"])
                if how == "impl":
                    new["retnone"] = not st.get("retnone", False)      # another implementation, same signature
                elif how == "toggle" or len(st["params"]) < 2:
                    new["cache"] = not st["cache"]
                elif how == "reverse":
                    new["params"] = list(reversed(st["params"]))
                else:
                    ps = list(st["params"])
                    rng.shuffle(ps)
                    new["params"] = ps
                cache_flag[fname] = new["cache"]
                names[fname] = new
                op = {"op": "mutate", "kind": kind, **blank, "f": fname, "func": new}
            prev_call = None
            after_mut = True
        elif after_mut and last_call is not None and rng.random() < 0.6:
            op = dict(last_call)                                        # the call before the mutation, again
            after_mut = False
        elif prev_call is not None and r < 0.5:
            op = dict(prev_call)                                        # exact repeat
        else:
            o = rng.choice(outs)
            combos = sorted(pu.arg_combinations(o))
            root_only = [c for c in combos if not set(c) & set(outs)]
            c = list(rng.choice(root_only if (root_only and rng.random() < 0.45) else combos))
            q = rng.random()
            if q < 0.05 and c:
                c.pop(rng.randrange(len(c)))                            # missing argument (outside the property)
            elif q < 0.10:
                extra = [x for x in outs + roots if x not in c and x != o]
                if extra:
                    c.append(rng.choice(extra))                         # possibly surplus
            dflt = set(pu.defaults)
            c = [x for x in c if not (x in dflt and rng.random() < 0.5)]     # let a default apply
            kw = [[x, k_value(x, 1 if rng.random() < 0.7 else 2)] for x in c]
            op = {"op": "call", "out": o, "kw": kw, "mode": rng.choice(["call", "run", "func", "full"])}
            prev_call = op
            last_call = op
        part = run_history(tdesc, ctype, ckw, [op], twins=(pc, pu))
        script.append(op)
        trace["ev"] += part["ev"]
        trace["outcomes"] += part["outcomes"]
    return trace


def targeted_histories(disk_root: Path) -> list[dict]:
    """Deterministic histories around one mutation: call, mutate (replace / update_bound / update_defaults of an upstream
    function that is cached or NOT cached itself), the same call again, then the upstream output."""
    def fn(name, params, outs, cache, dflt=None):
        return {"name": name, "params": params, "outputs": outs, "defaults": dflt or [], "bound": [], "has_ms": False,
                "ms": {"ins": [], "outs": []}, "internal": [], "cache": cache, "retnone": False}
    out = []
    idx = 0
    for ca, cb, deep in ((False, True, False), (True, True, False), (True, False, False), (False, True, True), (True, True, True)):
        for kind in ("replace", "update_bound", "update_defaults", "update_defaults_up", "update_defaults_member"):
            for ctype in CACHE_TYPES:
                idx += 1
                # (a default on an UPSTREAM function's parameter would legitimately switch caching off for fb: the
                # root argument is then absent from the key material; the default therefore sits on fb itself)
                # deep: an uncached function BETWEEN the mutated one and the cached one (the mutation is two levels upstream)
                # (fa's parameter z is bound from the start: update_bound then CHANGES a bound value, the root arguments stay)
                fa = fn("fa", ["x", "z"], ["a"], ca)
                fa["bound"] = [["z", {"f": "@b0_z", "a": []}]]
                if kind == "update_defaults_member":  # a default declared ONLY by fa for a parameter that fb reads too
                    fa["params"] = fa["params"] + ["s"]
                    fa["defaults"] = [["s", {"f": "@d_s", "a": []}]]
                if kind == "update_defaults_up":     # a defaulted root argument that ONLY the upstream function reads
                    fa["params"] = fa["params"] + ["u"]
                    fa["defaults"] = [["u", {"f": "@d_u", "a": []}]]
                tdesc = {"funcs": [fa] + ([fn("fm", ["a"], ["m"], False)] if deep else []) +
                                  [fn("fb", ["m" if deep else "a", "y", "w"] + (["s"] if kind == "update_defaults_member" else []),
                                      ["b"], cb, [["w", {"f": "@d_w", "a": []}]])]}
                ddir = str(disk_root / f"t{idx}") if ctype == "disk" else None
                ckw = cache_kwargs_for(ctype, 0, False, ddir)
                pc, pu = make_twins(tdesc, ctype, ckw)
                call_b = {"op": "call", "out": "b", "kw": [["x", k_value("x", 1)], ["y", k_value("y", 1)]], "mode": "call"}
                call_a = {"op": "call", "out": "a", "kw": [["x", k_value("x", 1)]], "mode": "call"}
                blank = {"f": "", "p": "", "v": {"f": "", "a": []}, "func": pcall.BLANK_FUNC}
                if kind == "replace":
                    new = pcall.func_state(pu, "fa", ["a"], ca, base=tdesc["funcs"][0])
                    new["retnone"] = True
                    mut = {"op": "mutate", "kind": "replace", **blank, "f": "fa", "func": new}
                elif kind == "update_bound":
                    which = ("x", "@bnd_x") if idx % 2 else ("z", "@b1_z")      # bind a root argument / change a bound value
                    mut = {"op": "mutate", "kind": "update_bound", **blank, "f": "fa", "p": which[0], "v": {"f": which[1], "a": []}}
                elif kind == "update_defaults_member":   # applied on the member function fa, not through the pipeline
                    mut = {"op": "mutate", "kind": "update_defaults", **blank, "f": "fa", "p": "s", "v": {"f": "@d2_s", "a": []}}
                elif kind == "update_defaults_up":
                    mut = {"op": "mutate", "kind": "update_defaults", **blank, "p": "u", "v": {"f": "@d2_u", "a": []}}
                else:
                    mut = {"op": "mutate", "kind": "update_defaults", **blank, "p": "w", "v": {"f": "@d2_w", "a": []}}
                script = [call_b, mut, dict(call_b), call_a]
                trace = {"desc": copy.deepcopy(tdesc), "ev": [], "script": script, "cache_type": ctype, "cache_kwargs": ckw,
                         "outcomes": []}
                for op in script:
                    part = run_history(tdesc, ctype, ckw, [op], twins=(pc, pu))
                    trace["ev"] += part["ev"]
                    trace["outcomes"] += part["outcomes"]
                out.append(trace)
    return out


def same_call(a: dict | None, b: dict | None) -> bool:
    return bool(a and b and a["op"] == "call" == b["op"] and (a["out"], a["mode"]) == (b["out"], b["mode"])
                and sorted(map(json.dumps, a["kw"])) == sorted(map(json.dumps, b["kw"])))


def map_histories(ctx: Ctx, rng: random.Random) -> list[dict]:
    """The map side of C09 lives in c09_map.py (its histories are MapRun traces validated by TraceMapRun, a different
    trace specification), called at the end of run(); nothing is added to the call-side traces here."""
    return []


# ---- verdicts -----------------------------------------------------------------------------------------------------------
def explain(ctx: Ctx, traces: list[dict], rejected: dict[int, int], name: str) -> dict[int, dict]:
    """Diagnostic re-run of the rejected traces only: TracePipelineCache!TExplain prints the failed guard and cause."""
    if not rejected:
        return {}
    idxs = sorted(rejected)
    wd = ctx.workdir(f"explain_{name}")
    f = wd / "traces.ndjson"
    with f.open("w") as fh:
        for i in idxs:
            fh.write(json.dumps({"desc": traces[i]["desc"], "ev": traces[i]["ev"]}, separators=(",", ":")) + "\n")
    cfg = TRACE_CFG.format(invs="").replace("SPECIFICATION Spec", "SPECIFICATION Spec\nCONSTANTS " + SCHEME_CONST)
    r = run_tlc("TracePipelineCache", cfg, wd, workers=1, env={"TRACE_FILE": str(f)})
    out = {}
    for tag, p in parse_prints(r.prints):
        if tag == "DIAG":
            out[idxs[p["tid"] - 1]] = {"clause": p["clause"], "cause": p["cause"], "l": p["l"]}
    return out


def begin_of(evs: list[dict], reached: int) -> dict:
    for k in range(min(reached, len(evs)) - 1, -1, -1):
        if evs[k]["e"] == "begin":
            return evs[k]
    return evs[0]


def signature(tr: dict, reached: int, why: dict) -> dict:
    """The classifying signature is what TLC said: the failed guard and, for a stale value, its cause."""
    return {"check": "cache-history", "clause": why.get("clause", "unexplained"), "cause": why.get("cause", "none")}


def features(tr: dict, reached: int) -> dict:
    evs = tr["ev"]
    e = evs[min(reached, len(evs)) - 1]
    b = begin_of(evs, reached)
    outs = {o for f in tr["desc"]["funcs"] for o in f["outputs"]}
    return {"event": e["e"], "mode": b["mode"], "cache_type": tr["cache_type"],
            "supplied_intermediate": any(n in outs for n, _ in b["kw"]),
            "mutations_before": [x["mut"]["kind"] for x in evs[:reached] if x["e"] == "mutate"]}


def compact(e: dict) -> dict:
    """An event without its blank fields (for messages)."""
    blank = dict(pcall.BLANK, obs=pcall.BLANK_OBS, mut=pcall.BLANK_MUT)
    return {k: v for k, v in e.items() if k == "e" or v != blank.get(k)}


def validate(ctx: Ctx, traces: list[dict], name: str, report: bool = True) -> dict[int, dict]:
    rej = validate_traces(ctx, "TracePipelineCache", traces, name, invariants=["InvDoneOnlyNeeded", "InvMustNeeded"],
                          strip=("script", "cache_type", "cache_kwargs", "outcomes", "src"), chunk=400,
                          constants=SCHEME_CONST, count=report)
    why = explain(ctx, traces, rej, name)
    res = {}
    for i, reached in sorted(rej.items()):
        tr = traces[i]
        sig = signature(tr, reached, why.get(i, {}))
        res[i] = {"reached": reached, "sig": sig}
        if not report:
            continue
        evs = tr["ev"]
        e = evs[min(reached, len(evs)) - 1]
        k0 = max(k for k in range(reached) if evs[k]["e"] == "begin") if any(x["e"] == "begin" for x in evs[:reached]) else 0
        ctx.violation(sig, f"cached pipeline history not explained by PipelineCache.tla at event {reached} "
                           f"({sig['clause']}, cause {sig['cause']}): {json.dumps(compact(e))[:500]}",
                      {"desc": tr["desc"], "cache_type": tr["cache_type"], "cache_kwargs": tr["cache_kwargs"],
                       "script": tr["script"], "rejected_event_index": reached, "features": features(tr, reached),
                       "events": [compact(x) for x in evs[k0:reached]]})
    return res


def count_cases(ctx: Ctx, traces: list[dict]) -> None:
    for t in traces:
        muts = 0
        for op, oc in zip(t["script"], t["outcomes"]):
            if op["op"] == "mutate":
                muts += 1
                continue
            skipped = len(oc["uncached_calls"]) - len(oc["cached_calls"])
            ctx.case({"d": t["desc"], "c": t["cache_type"], "k": t["cache_kwargs"], "op": op, "m": muts},
                     nontrivial=skipped > 0 or muts > 0)


# ---- the check ---------------------------------------------------------------------------------------------------------
SELF_DESC = {"funcs": [
    {"name": "fa", "params": ["x"], "outputs": ["a"], "defaults": [], "bound": [], "has_ms": False,
     "ms": {"ins": [], "outs": []}, "internal": [], "cache": True},
    {"name": "fb", "params": ["a"], "outputs": ["b"], "defaults": [], "bound": [], "has_ms": False,
     "ms": {"ins": [], "outs": []}, "internal": [], "cache": True},
    {"name": "fc", "params": ["a", "b"], "outputs": ["c"], "defaults": [], "bound": [], "has_ms": False,
     "ms": {"ins": [], "outs": []}, "internal": [], "cache": True}]}


def selftests(ctx: Ctx) -> None:
    kw = [["x", pcall.kv("x")]]
    call = {"op": "call", "out": "c", "kw": kw, "mode": "call"}
    good = [run_history(SELF_DESC, ct, cache_kwargs_for(ct, 0, False, str(ctx.workdir("disk") / f"st{j}")),
                        [call, dict(call), {"op": "call", "out": "b", "kw": kw, "mode": "full"}])
            for j, ct in enumerate(CACHE_TYPES)]
    # 1. one returned value corrupted
    bad1 = copy.deepcopy(good[1])
    k = [i for i, e in enumerate(bad1["ev"]) if e["e"] == "return"][1]
    bad1["ev"][k]["val"]["a"][0]["f"] += "_corrupt"
    # 2. a user-function execution inserted into the exactly repeated call whose entry was observed resident
    bad2 = copy.deepcopy(good[2])
    evs = bad2["ev"]
    first_c = next(e for e in evs if e["e"] == "call" and e["f"] == "fc")
    b2 = [i for i, e in enumerate(evs) if e["e"] == "begin"][1]
    repeat_clean = evs[b2 + 1]["e"] != "call"        # on a correct tree the repeated call executes nothing
    evs.insert(b2 + 1, copy.deepcopy(first_c))
    # 3. the same corrupted trace with the residency observation erased: accepted (the rule rests on the logged field)
    bad3 = copy.deepcopy(bad2)
    bad3["ev"][b2]["obs"] = dict(pcall.BLANK_OBS)
    batch = good + [bad1, bad2, bad3]
    rej = validate(ctx, batch, "selftest", report=False)
    got = {i: (v["reached"], v["sig"]["clause"]) for i, v in rej.items()}
    if any(i < 4 for i in got) or not repeat_clean:
        # the unaltered scenario is itself rejected on this tree: that is a violation (reported through the normal
        # path), not a failure of the machinery; the corruption tests need an accepted trace to corrupt
        validate(ctx, good, "selftest_scenario")
        ctx.selftests.append({"name": "binding self-test", "ok": None,
                              "detail": f"not applicable on this tree: the unaltered scenario is rejected {got}"})
        return
    ctx.selftest("trace-corruption(one argument of one returned term altered -> exactly that event rejected as "
                 "stale-return)", got.get(4) == (k + 1, "stale-return"), f"got={got.get(4)} expected={(k + 1, 'stale-return')}")
    ctx.selftest("trace-corruption(execution of fc inserted into the exact repeat -> rejected there as re-execution "
                 "despite resident entry)", got.get(5) == (b2 + 2, "reexecuted-despite-resident-entry"),
                 f"got={got.get(5)} expected={(b2 + 2, 'reexecuted-despite-resident-entry')}")
    ctx.selftest("observation-binding(same trace with the logged resident keys erased -> accepted; the 4 unaltered "
                 "traces accepted)", set(got) == {4, 5}, f"rejected={got}")


def run(ctx: Ctx) -> None:
    quick = ctx.tier == "quick"
    rng = random.Random(ctx.seed)
    ctx.rule = ("case = one top-level call of a history on a cached pipeline (description, cached subset, cache type and "
                "capacity, preceding events, requested output, keywords, convention). Histories: (a) witness histories of "
                "the distinct states of the TLC model of the key scheme as it is (quick: 2-function family q2, <= 3 events; "
                "thorough: family f2 <= 4 events and half of the 3-function family f3 <= 3 events), a deterministic "
                "selection stratified by (model verdict, sequence of event kinds), replayed on all four cache types in "
                "rotation; (b) seeded random histories of 4..12 events on random DAGs of 2..5 functions with every "
                "calling convention, small capacities, supplied intermediates, defaults left to apply, surplus/missing "
                "keywords and interleaved update_defaults/update_bound/replace. non-trivial = the cached pipeline skipped "
                "at least one function the uncached one executed, or a mutation preceded the call")
    ctx.assumptions = ["TLC and the JSON encoding are trusted", "user functions are free term constructors",
                       "HybridCache durations are whatever the run measures (positive, otherwise arbitrary)",
                       "lazy pipelines and Pipeline.map are not driven by this check (map: extension point)",
                       "eviction is abstract in the specification: a resident entry obliges only when the observed "
                       "size and capacity exclude an eviction during the call"]
    ctx.exhaustive = False
    disk_root = ctx.workdir("disk")

    # 1. layer B: design check of the repaired scheme, exhibition of the defects of the scheme as it is
    t0 = time.time()
    rep_invs = "HCoherent HCorrect HCutsAgree"
    if quick:
        specs = [dict(name="asis", n=2, fam="q2", maxlen=3, maxmut=1, scheme="asis", export=True, nshards=8, invs=""),
                 dict(name="rep", n=2, fam="q2", maxlen=3, maxmut=1, scheme="repaired", export=False, nshards=8, invs=rep_invs)]
        budget = 500
    else:
        # the as-is runs only exhibit and export: f2 completely (every 4th history that ends well is printed), of f3
        # the half of the instances that falls into the even shards; the repaired design is checked on everything
        specs = [dict(name="asis", n=2, fam="f2", maxlen=4, maxmut=1, scheme="asis", export=True, nshards=32, exportmod=4, invs=""),
                 dict(name="rep", n=2, fam="f2", maxlen=4, maxmut=2, scheme="repaired", export=False, nshards=32, invs=rep_invs),
                 dict(name="asis3", n=3, fam="f3", maxlen=3, maxmut=1, scheme="asis", export=True, nshards=64,
                      shards=range(0, 64, 2), exportmod=4, invs=""),
                 dict(name="rep3", n=3, fam="f3", maxlen=3, maxmut=1, scheme="repaired", export=False, nshards=16, invs=rep_invs),
                 dict(name="repu2", n=2, fam="u2", maxlen=3, maxmut=1, scheme="repaired", export=False, nshards=16, invs=rep_invs)]
        budget = 8000
    exported = model_runs(ctx, specs)
    asis = [h for sp in specs if sp["export"] for h in exported[sp["name"]]]
    ctx.extra["model_scopes"] = [{k: (list(v) if isinstance(v, range) else v) for k, v in sp.items() if k != "invs"}
                                 for sp in specs]
    phase = {"model_checking": round(time.time() - t0, 1)}
    if not asis:
        raise MachineryError("no histories exported by the model")
    fams: dict[str, int] = {}
    for h in asis:
        fams[h["verdict"]] = fams.get(h["verdict"], 0) + 1
    ctx.extra["model_asis_leaf_states_by_verdict"] = fams
    ctx.extra["model_asis_incoherent_states"] = sum(1 for h in asis if not h["coherent"])
    ctx.extra["model_hits_explored"] = sum(c.get("nhit", 0) for h in asis for c in h["hist"] if c["op"] == "call")
    missing = [f for f in REQUIRED_FAMILIES if not fams.get(f)]
    if missing:
        raise MachineryError(f"the implementation-shaped model (Scheme=asis) does not exhibit {missing}: {fams}")
    if not ctx.extra["model_hits_explored"]:
        raise MachineryError("the model never took a cache hit")

    t0 = time.time()
    # 2a. replay a deterministic selection of the exported histories on real twins
    chosen = select_histories(asis, budget)
    ctx.extra["model_histories_exported"] = len(asis)
    ctx.extra["model_histories_replayed"] = len(chosen)
    traces: list[dict] = []
    agree = total = 0
    for idx, h in enumerate(chosen):
        build.LOG.clear()
        ct = CACHE_TYPES[idx % 4]
        ckw = cache_kwargs_for(ct, 0, False, str(disk_root / f"m{idx}"))
        script = script_from_model(h["hist"], idx)
        tr = run_history(h["desc"], ct, ckw, script)
        tr["src"] = {"model_verdict": h["verdict"]}
        traces.append(tr)
        for op, oc in zip(script, tr["outcomes"]):
            if op["op"] != "call":
                continue
            total += 1
            c = oc["cached"]
            got = sorted(c["pairs"], key=lambda p: p[0]) if c["e"] == "returnfull" else (
                [[op["out"], c["val"]]] if c["e"] == "return" else None)
            agree += got == op["pred"]
    # conformance of layer B itself (evidence, not a verdict): does the code return what the as-is key scheme predicts?
    ctx.extra["impl_model_agreement"] = {"scheme": "asis", "calls": total, "returned_value_as_predicted": agree}

    # 2b. seeded random histories
    nrand = 260 if quick else 5000
    for idx in range(nrand):
        build.LOG.clear()
        traces.append(random_history(rng, idx, disk_root, rng.randint(4, 12)))
    traces += targeted_histories(disk_root)
    traces += map_histories(ctx, rng)
    count_cases(ctx, traces)
    ctx.sample({"desc": traces[0]["desc"], "cache_type": traces[0]["cache_type"], "script": traces[0]["script"]})
    ctx.sample({"desc": traces[-1]["desc"], "cache_type": traces[-1]["cache_type"], "script": traces[-1]["script"][:5]})
    ctx.extra["histories"] = {"from_model": len(chosen), "random": nrand,
                              "events": sum(len(t["ev"]) for t in traces),
                              "mutations": sum(1 for t in traces for o in t["script"] if o["op"] == "mutate"),
                              "exact_repeats": sum(1 for t in traces for a, b in zip(t["script"], t["script"][1:])
                                                   if same_call(a, b)),
                              "calls_outside_property": sum(1 for t in traces for e in t["ev"] if e["e"] == "outside"),
                              "by_cache_type": {c: sum(1 for t in traces if t["cache_type"] == c) for c in CACHE_TYPES}}

    phase["driving_real_pipelines"] = round(time.time() - t0, 1)
    t0 = time.time()
    # 3. TLC decides
    validate(ctx, traces, "hist")
    selftests(ctx)
    phase["trace_validation_and_selftest"] = round(time.time() - t0, 1)
    ctx.extra["phase_wall_s"] = phase

    from . import c09_map
    c09_map.run(ctx)


def replay(rep: dict) -> int:
    """Re-drive the witness history on fresh twins and state the property-level facts."""
    w = rep["witness"]
    ckw = copy.deepcopy(w["cache_kwargs"])
    if ckw and "cache_dir" in ckw:
        ckw["cache_dir"] = tempfile.mkdtemp(prefix="pfverif_c09_replay_")
    tr = run_history(w["desc"], w["cache_type"], ckw, w["script"])
    for f in w["desc"]["funcs"]:
        print(f"  {f['name']}({', '.join(f['params'])}) -> {', '.join(f['outputs'])}  cache={f['cache']}"
              f"  defaults={[(p, v['f']) for p, v in f['defaults']]}  bound={[(p, v['f']) for p, v in f['bound']]}")
    print(f"  cache_type={w['cache_type']} cache_kwargs={ckw}")
    bad = 0
    prev = None
    for k, (op, oc) in enumerate(zip(w["script"], tr["outcomes"])):
        if op["op"] == "mutate":
            print(f"[{k}] mutate {op['kind']} f={op['f']} p={op['p']} v={op['v']['f']}")
            prev = None
            continue
        u, c = oc["uncached"], oc["cached"]
        line = f"[{k}] {op['mode']}({op['out']!r}, {[(n, v['f']) for n, v in op['kw']]})"
        if u["e"] not in ("return", "returnfull"):
            print(line, "-> fails without caching (outside the property)")
            prev = None
            continue
        same = (u["e"] == c["e"] and u["val"] == c["val"]
                and sorted(map(json.dumps, u["pairs"])) == sorted(map(json.dumps, c["pairs"])))
        print(line, "-> cached twin executed", oc["cached_calls"], "uncached twin executed", oc["uncached_calls"])
        if not same:
            bad += 1
            print("    PROPERTY VIOLATED: with caching   ", json.dumps(c["val"] if c["e"] == "return" else c["pairs"] or c["cls"])[:600])
            print("                       without caching", json.dumps(u["val"] if u["e"] == "return" else u["pairs"])[:600])
        if same_call(prev, op):
            b = [e for e in tr["ev"] if e["e"] == "begin"][sum(1 for o in w["script"][:k + 1] if o["op"] == "call") - 1]
            res = {tuple(key["o"]) for key in b["obs"]["keys"]}
            print("    exact repeat; entries observed before the call for outputs:", sorted(res))
        prev = op
    print(f"signature: {json.dumps(rep.get('sig'))}")
    print(f"what: {rep.get('what')}")
    return 1 if bad or rep.get("sig", {}).get("clause") == "reexecuted-despite-resident-entry" else 0
