"""Growth beyond the listed properties (attached to C02's check): derived views of a Pipeline stay coherent under mutation.

Spec: PipelineViews.tla (views = operators of PipelineStatic over the CURRENT description; mutations = actions on it).
A random pipeline is mutated through the public API (update_defaults, update_bound on a member function, replace, add,
drop), optionally after a pickle round trip or on a copy; after every step the views the LIVE object reports (root_args of
every output, all root args, topological generations, defaults, leaf / root functions, output names) are recorded; TLC
validates the history (TracePipelineViews): a stale cached property is a rejected `views` event.
"""
from __future__ import annotations

import contextlib
import copy
import io
import pickle
import random

from .. import build, pcall
from ..terms import to_json
from ..tracekit import validate_traces
from . import c02

BLANK = {"e": "", "kind": "", "f": "", "p": "", "v": {"f": "", "a": []},
         "func": {"name": "", "params": [], "outputs": [], "defaults": [], "bound": [], "has_ms": False,
                  "ms": {"ins": [], "outs": []}, "internal": [], "cache": False},
         "root_args": [], "all_root_args": [], "gens": [], "defaults": [], "leafs": [], "roots": [], "outputs": []}


def ev(**kw) -> dict:
    e = dict(BLANK)
    e.update(kw)
    return e


def views(pl) -> dict:
    outs = sorted(pl.all_output_names)
    gens = pl.topological_generations
    return ev(e="views",
              root_args=[[o, sorted(pl.root_args(o))] for o in outs],
              all_root_args=sorted(gens.root_args),
              gens=[sorted(f.__name__ for f in g) for g in gens.function_lists],
              defaults=sorted([k, to_json(v)] for k, v in pl.defaults.items()),
              leafs=sorted(f.__name__ for f in pl.leaf_nodes if hasattr(f, "output_name")), roots=[],
              outputs=outs)


def tla_func(fd: dict) -> dict:
    return {"name": fd["name"], "params": list(fd["params"]), "outputs": list(fd["outputs"]),
            "defaults": [list(x) for x in fd["defaults"]], "bound": [list(x) for x in fd["bound"]], "has_ms": False,
            "ms": {"ins": [], "outs": []}, "internal": [], "cache": False}


def history(rng: random.Random, k: int) -> dict:
    td = copy.deepcopy(c02.random_desc(rng, rng.randint(2, 5)))
    for f in td["funcs"]:                       # views do not depend on these; keep the records uniform
        for extra in ("retnone", "outperm", "outrenamed", "renamed", "picker"):
            f.pop(extra, None)
    funcs = {f["name"]: tla_func(f) for f in td["funcs"]}
    build.LOG.clear()
    with contextlib.redirect_stdout(io.StringIO()):
        pl = build.make_pipeline(pcall.tla_desc_to_py({"funcs": list(funcs.values())}))
    how = ["direct", "pickled", "copied"][k % 3]
    if how == "pickled":
        pl = pickle.loads(pickle.dumps(pl))     # noqa: S301
    elif how == "copied":
        pl = pl.copy()
    evs = [views(pl)]
    fresh = 0
    for _ in range(rng.randint(2, 6)):
        names = sorted(funcs)
        outs_all = [o for f in funcs.values() for o in f["outputs"]]
        kind = rng.choice(["update_defaults", "update_bound", "update_bound", "replace", "add", "drop"])
        try:
            with contextlib.redirect_stdout(io.StringIO()):
                if kind == "update_defaults":
                    roots = sorted({p for f in funcs.values() for p in f["params"]} - set(outs_all))
                    # a name may not be both a default and bound in one function: only names bound nowhere
                    roots = [p for p in roots if not any(p in [b[0] for b in f["bound"]] for f in funcs.values())]
                    if not roots:
                        continue
                    p = rng.choice(roots)
                    v = {"f": f"@nd{fresh}_{p}", "a": []}
                    fresh += 1
                    pl.update_defaults({p: build.py_value(v)})
                    for f in funcs.values():
                        if p in f["params"]:
                            f["defaults"] = [x for x in f["defaults"] if x[0] != p] + [[p, v]]
                    evs.append(ev(e="mutate", kind=kind, p=p, v=v))
                elif kind == "update_bound":
                    fn = rng.choice(names)
                    cand = [p for p in funcs[fn]["params"] if p not in [x[0] for x in funcs[fn]["defaults"]]]
                    if not cand:
                        continue
                    p = rng.choice(cand)
                    v = {"f": f"@nb{fresh}_{p}", "a": []}
                    fresh += 1
                    out = funcs[fn]["outputs"]
                    pl[out[0] if len(out) == 1 else tuple(out)].update_bound({p: build.py_value(v)})
                    funcs[fn]["bound"] = [x for x in funcs[fn]["bound"] if x[0] != p] + [[p, v]]
                    evs.append(ev(e="mutate", kind=kind, f=fn, p=p, v=v))
                elif kind == "replace":
                    fn = rng.choice(names)
                    new = dict(funcs[fn])
                    avail = sorted(({"x", "y", "z", "w"} | set(outs_all)) - set(new["outputs"]))
                    # another signature: drop one parameter or add a root parameter (never creates a cycle)
                    if new["params"] and rng.random() < 0.5:
                        dropped = rng.choice(new["params"])
                        new["params"] = [p for p in new["params"] if p != dropped]
                        new["defaults"] = [x for x in new["defaults"] if x[0] != dropped]
                        new["bound"] = [x for x in new["bound"] if x[0] != dropped]
                    else:
                        cand = [p for p in ("x", "y", "z", "w") if p not in new["params"]]
                        if not cand:
                            continue
                        new["params"] = new["params"] + [rng.choice(cand)]
                    pl.replace(build.make_pipefunc(pcall.tla_desc_to_py({"funcs": [new]})["funcs"][0]))
                    funcs[fn] = new
                    evs.append(ev(e="mutate", kind=kind, f=fn, func=copy.deepcopy(new)))
                elif kind == "add":
                    name = f"g{fresh}"
                    fresh += 1
                    params = rng.sample(sorted({"x", "y", "z", "w"} | set(outs_all)), rng.randint(0, 2))
                    new = tla_func({"name": name, "params": params, "outputs": [f"q_{name}"], "defaults": [], "bound": []})
                    pl.add(build.make_pipefunc(pcall.tla_desc_to_py({"funcs": [new]})["funcs"][0]))
                    funcs[name] = new
                    evs.append(ev(e="mutate", kind=kind, func=copy.deepcopy(new)))
                else:
                    if len(names) < 2:
                        continue
                    fn = rng.choice(names)
                    out = funcs[fn]["outputs"]
                    pl.drop(output_name=out[0] if len(out) == 1 else tuple(out))
                    del funcs[fn]
                    evs.append(ev(e="mutate", kind=kind, f=fn))
            evs.append(views(pl))
        except Exception as ex:  # noqa: BLE001
            evs.append(ev(e="error", kind=type(ex).__name__, f=str(ex)[:200]))
            break
    return {"desc": td, "ev": evs, "how": how}


def run(ctx) -> None:
    rng = random.Random(ctx.seed + 202)
    n = 150 if ctx.tier == "quick" else 2500
    traces = [history(rng, k) for k in range(n)]
    for t in traces:
        ctx.case({"views": t["desc"], "m": [(e["kind"], e["f"], e["p"]) for e in t["ev"] if e["e"] == "mutate"], "how": t["how"]},
                 nontrivial=sum(1 for e in t["ev"] if e["e"] == "mutate") >= 2)
    rej = validate_traces(ctx, "TracePipelineViews", traces, "views", invariants=[], strip=("how",), chunk=300)
    for i, reached in rej.items():
        t = traces[i]
        e = t["ev"][reached - 1]
        last = next((x for x in reversed(t["ev"][:reached]) if x["e"] == "mutate"), {"kind": "none"})
        ctx.violation({"check": "derived-views", "event": e["e"], "after": last["kind"], "how": t["how"],
                       "cls": e["kind"] if e["e"] == "error" else ""},
                      f"derived views of a mutated pipeline ({t['how']}) are not those of its current functions at event "
                      f"{reached} after {last['kind']}: {({k: e[k] for k in ('root_args', 'gens', 'defaults', 'leafs')} if e['e'] == 'views' else e)}",
                      {"desc": t["desc"], "events": t["ev"][:reached], "how": t["how"]})
    ctx.extra["views_histories"] = {"n": len(traces), "rejected": len(rej)}
