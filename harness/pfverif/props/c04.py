"""C04 - results stored in a run folder reload exactly, from any process.

Spec: MapRun.tla + the TLoad action of TraceMapRun.tla.  A map run happens in a child process (all its manager processes
die with it); the same child reloads right after the run (same process, twice); a second, fresh child reloads again
(twice): load_outputs for every output, RunInfo.load (inputs, defaults, shapes, masks, MapSpec strings, per-output
storage map).  Thorough: additionally a brand-new interpreter (subprocess).  TLC validates every history: loaded outputs
= denotation, loaded inputs/defaults = given, shapes = product rule, masks = external/internal split of the MapSpec,
storage map and MapSpec strings round-trip.
Cases: the MC_MapRun scenarios x storage assignments (uniform and per-output mixes) and a slice of the MC_MapDenote
universe.
"""
from __future__ import annotations

import contextlib
import io
import json
import os
import random
import shutil
import subprocess
import sys
import tempfile

from .. import bootstrap, build, pmap
from ..ctx import Ctx
from ..terms import Term, to_json
from ..tlc import MachineryError
from ..tracekit import validate_traces
from . import c01, c03
from .c05 import in_child

PROPERTY = "C04"
LEVEL = "model_checking"
STRIP = ("meta",)


def load_event(folder: str, proc: str, storage_in: list, mapspecs_in: list) -> dict:
    from pipefunc.map import load_outputs
    from pipefunc.map._run_info import RunInfo
    e = pmap.ev(e="load", proc=proc, storage_in=storage_in, mapspecs_in=mapspecs_in)
    try:
        with contextlib.redirect_stdout(io.StringIO()):
            info = RunInfo.load(folder)
            names = sorted(info.all_output_names)
            vals = [(n, load_outputs(n, run_folder=folder)) for n in names]
            e["loaded"] = [[n, to_json(v)] for n, v in vals]
            # what a caller does to a loaded value is the caller's business: scribble over the loaded arrays, a later
            # load (same process) must still return what the run produced
            import numpy as np
            for _, v in vals:
                if isinstance(v, np.ndarray) and v.dtype == object and v.size and v.flags.writeable:
                    np.ma.getdata(v).flat[0] = "#scribbled"
                elif isinstance(v, Term):           # a single (unmapped) output: the loaded object itself is altered
                    v.f = "#scribbled"

        e["linputs"] = [[k, to_json(v)] for k, v in info.inputs.items()]
        e["ldefaults"] = [[k, to_json(v)] for k, v in info.defaults.items()]
        shapes = []
        for key, shp in info.shapes.items():
            for n in (key if isinstance(key, tuple) else (key,)):
                shapes.append([n, [int(x) for x in shp], [bool(b) for b in info.shape_masks[key]]])
        e["shapes"] = shapes
        st = info.storage
        if isinstance(st, dict):
            e["storage_out"] = sorted([",".join(k) if isinstance(k, tuple) else k, v] for k, v in st.items())
        else:
            e["storage_out"] = [["", st]]
        e["mapspecs_out"] = list(info.mapspecs_as_strings)
    except Exception as ex:  # noqa: BLE001
        e["cls"] = type(ex).__name__
        e["msg"] = str(ex)[:300]
    return e


def storage_pairs(storage) -> list:
    if isinstance(storage, dict):
        return sorted([",".join(k) if isinstance(k, tuple) else k, v] for k, v in storage.items())
    return [["", storage]]


def storage_from_pairs(pairs: list):
    if len(pairs) == 1 and pairs[0][0] == "":
        return pairs[0][1]
    return {(tuple(k.split(",")) if "," in k else k): v for k, v in pairs}


def run_and_reload(tdesc: dict, inputs: list, kinds: dict, storage, thorough: bool, root: str, entry: str = "map",
                   resume_after: bool = False, inputs2: list | None = None) -> dict:
    """entry: "map" (sequential) | "async" (map_async through a thread pool) | "async-keep" (map_async with cleanup=False
    into a folder that does not exist yet: nothing to resume, the run is a whole run)."""
    if isinstance(storage, list):
        storage = storage_from_pairs(storage)
    pdesc = pmap.tla_desc_to_py(tdesc)
    folder = tempfile.mkdtemp(prefix="pfverif_c04_", dir=root)
    shutil.rmtree(folder)
    st_in = storage_pairs(storage)

    def job1():
        build.LOG.clear()
        with contextlib.redirect_stdout(io.StringIO()):
            pl = build.make_pipeline(pdesc)
        inp = pmap.inputs_to_py(inputs, kinds)
        if entry == "map":
            evs, res = pmap.do_map(pl, pdesc, inp, run_folder=folder, storage=storage, parallel=False, load=False)
        else:
            evs, res = do_map_async(pl, pdesc, inp, folder, storage, cleanup=(entry == "async"))
        ms_in = list(pl.mapspecs_as_strings)
        if not isinstance(res, Exception):
            evs.append(load_event(folder, "same", st_in, ms_in))
            evs.append(load_event(folder, "same", st_in, ms_in))
        if inputs2 is not None and not isinstance(res, Exception):
            # a SECOND run into the same folder (cleanup=True) with other inputs / shapes, then loads in this same process
            e2, res2 = pmap.do_map(pl, pdesc, pmap.inputs_to_py(inputs2, kinds), run_folder=folder, storage=storage,
                                   parallel=False, load=False)
            for x in e2:
                if x["e"] in ("begin", "reject"):
                    x["new_inputs"] = inputs2
            evs += e2
            if not isinstance(res2, Exception):
                evs.append(load_event(folder, "same", st_in, ms_in))
        return {"ev": evs, "ms": ms_in}

    def job3():
        build.LOG.clear()
        with contextlib.redirect_stdout(io.StringIO()):
            pl = build.make_pipeline(pdesc)
        # the identical request again on the kept folder: everything is stored, nothing may run, nothing may be refused
        evs, _ = pmap.do_map(pl, pdesc, pmap.inputs_to_py(inputs2 or inputs, kinds), run_folder=folder, storage=storage,
                             parallel=False, cleanup=False, load=False)
        return {"ev": evs}

    def job2(ms_in):
        def f():
            return {"ev": [load_event(folder, "fresh", st_in, ms_in), load_event(folder, "fresh", st_in, ms_in)]}
        return f
    try:
        code, p1 = in_child(job1)
        if p1 is None:
            raise MachineryError(f"run child exited with {code}")
        evs = p1["ev"]
        if evs[-1]["e"] == "load":
            code, p2 = in_child(job2(p1["ms"]))
            if p2 is None:
                raise MachineryError(f"reload child exited with {code}")
            evs += p2["ev"]
            if thorough:
                evs.append(load_in_new_interpreter(folder, st_in, p1["ms"]))
            if resume_after:
                code, p3 = in_child(job3)
                if p3 is None:
                    raise MachineryError(f"resume child exited with {code}")
                evs += p3["ev"]
    finally:
        shutil.rmtree(folder, ignore_errors=True)
    return {"desc": tdesc, "inputs": inputs, "ev": evs, "meta": {"storage": st_in, "kinds": kinds, "entry": entry,
                                                                  "resume_after": resume_after, "inputs2": inputs2}}


def shorter(inputs: list) -> list:
    """Other inputs for a second run: every array loses its last element (other shapes) and the atoms are renamed."""
    def ren(v):
        if v["f"] == "#arr":
            a = v["a"][:-1] if len(v["a"]) > 1 and all(x["f"] != "#arr" for x in v["a"]) else v["a"]
            return {"f": "#arr", "a": [ren(x) for x in a]}
        return {"f": v["f"] + "2", "a": []}
    return [[n, ren(v)] for n, v in inputs]


def do_map_async(pl, pdesc: dict, inp: dict, folder: str, storage, cleanup: bool) -> tuple[list[dict], object]:
    import asyncio
    from concurrent.futures import ThreadPoolExecutor
    events = [pmap.ev(e="begin", F=[fd["name"] for fd in pdesc["funcs"]], cleanup=cleanup, fixed=[], cache=pl.cache is not None)]
    start = len(build.read_log())
    ex = ThreadPoolExecutor(2)

    async def go():
        am = pl.map_async(inp, run_folder=folder, storage=storage, executor=ex, cleanup=cleanup)
        return await am.task
    try:
        with contextlib.redirect_stdout(io.StringIO()):
            res = asyncio.run(go())
    except (Exception, asyncio.CancelledError) as exn:  # noqa: BLE001
        ex.shutdown(wait=True)
        evs = pmap.log_events(start)
        return events + evs + [pmap.ev(e="error" if evs else "reject", F=events[0]["F"], cls=type(exn).__name__, msg=str(exn)[:300])], exn
    ex.shutdown(wait=True)
    return events + pmap.log_events(start) + [pmap.ev(e="return", results=pmap.results_json(res), loaded=[])], res


def resume_and_reload(scen: dict, case: dict, storage, pool: str | None, root: str) -> dict:
    """Sessions: parts with fixed_indices, then a full run with cleanup=False (c06.run_history, optionally through a real
    pool), then reloads in the same process and in a fresh child: what the LAST session left must reload exactly."""
    from . import c06
    st_in = storage_pairs(storage)

    def after(folder: str, pl) -> list[dict]:
        ms_in = list(pl.mapspecs_as_strings)
        evs = [load_event(folder, "same", st_in, ms_in)]
        code, p2 = in_child(lambda: {"ev": [load_event(folder, "fresh", st_in, ms_in)]})
        if p2 is None:
            raise MachineryError(f"reload child exited with {code}")
        return evs + p2["ev"]
    h = c06.run_history(scen, case, storage, pool=pool, after=after)
    return {"desc": h["desc"], "inputs": h["inputs"], "ev": h["ev"],
            "meta": {"storage": st_in, "kinds": {}, "entry": f"sessions-{pool or 'seq'}", "case": case}}


def load_in_new_interpreter(folder: str, st_in: list, ms_in: list) -> dict:
    code = ("import json,sys\nfrom pfverif import bootstrap\nfrom pfverif.props.c04 import load_event\n"
            f"print('@@'+json.dumps(load_event({folder!r}, 'new-interpreter', {st_in!r}, {ms_in!r})))\n")
    p = subprocess.run([sys.executable, "-c", code], env=bootstrap.child_env(), capture_output=True, text=True, timeout=300)
    line = next((ln for ln in p.stdout.splitlines() if ln.startswith("@@")), None)
    if line is None:
        e = pmap.ev(e="load", proc="new-interpreter", cls="ChildFailed", msg=(p.stderr or p.stdout)[-300:])
        return e
    return json.loads(line[2:])


def classify(t: dict, reached: int) -> dict:
    e = t["ev"][reached - 1]
    st = t["meta"]["storage"]
    kinds = sorted({v for _, v in st})
    sig = {"check": "reload", "event": e["e"], "proc": e.get("proc", ""), "cls": e.get("cls", ""), "storages": kinds,
           "mixed": len(st) > 1}
    if e["e"] == "load" and e.get("cls") in ("FileNotFoundError", "ConnectionRefusedError", "AttributeError", "EOFError") \
            and "shared_memory_dict" in kinds:
        sig["clause"] = "proxy-persisted"
        sig["storage"] = "shared_memory_dict"
    return sig


def run(ctx: Ctx) -> None:
    quick = ctx.tier == "quick"
    rng = random.Random(ctx.seed)
    ctx.rule = ("case = one map run in a child process followed by reloads in the same process (x2), in a fresh process (x2) "
                "[and a new interpreter]; pipelines = MC_MapRun scenarios + a slice of the MC_MapDenote universe; storage = "
                "file_array / dict / shared_memory_dict uniformly and per-output mixes; non-trivial = at least one mapped output")
    ctx.assumptions = ["serialisation fidelity of arbitrary user objects is cloudpickle's business; values are terms and arrays of terms",
                       "a forked child of the harness stands for 'a fresh process after all managers are gone' (the managers "
                       "belonged to the dead run child); thorough adds a brand-new interpreter"]
    root = tempfile.mkdtemp(prefix="pfverif_c04root_")
    traces = []
    try:
        scens = {}
        for sn in (["zip", "partial", "multi", "gen", "chain"] if quick else ["zip", "outer", "partial", "reduce", "gen", "twogen", "multi", "chain"]):
            scen, _ = c03.export_schedules(ctx, sn, 1)
            scens[sn] = scen
        storages = ["file_array", "dict", "shared_memory_dict"]
        for sn, scen in scens.items():
            outs = [o for f in scen["desc"]["funcs"] for o in f["outputs"]]
            combos = list(storages)
            first = scen["desc"]["funcs"][0]["outputs"]
            key = first[0] if len(first) == 1 else tuple(first)
            combos.append({key: "file_array", "": "dict"})
            combos.append({key: "shared_memory_dict", "": "file_array"})
            if not quick:
                combos.append({key: "dict", "": "shared_memory_dict"})
            for st in combos:
                names = [n for n, _ in scen["inputs"]]
                for kinds in ([{n: "list" for n in names}] if quick else [{n: "list" for n in names}, {n: "ndarray" for n in names}]):
                    traces.append(run_and_reload(scen["desc"], scen["inputs"], kinds, st, not quick, root))
        # scoped (dotted) names: all names in one scope; several root inputs share the scope prefix
        for sn in ("zip", "partial", "multi"):
            if sn in scens:
                sd, si = build.scoped(scens[sn]["desc"], scens[sn]["inputs"], "sc")
                for st in storages[:2] if quick else storages:
                    traces.append(run_and_reload(sd, si, {n: "list" for n, _ in si}, st, not quick, root))
        # inputs that are instances of a class defined in the run program's __main__
        for sn in ("zip", "partial"):
            if sn in scens:
                for st in storages[:2]:
                    traces.append(run_and_reload(scens[sn]["desc"], scens[sn]["inputs"],
                                                 {n: "userclass" for n, _ in scens[sn]["inputs"]}, st, not quick, root))
        # functions whose result is None: a stored None is a value, not a missing element
        import copy
        for sn in ("zip", "partial", "chain"):
            if sn in scens:
                nd = copy.deepcopy(scens[sn]["desc"])
                nd["funcs"][0]["retnone"] = True
                for st in storages:
                    traces.append(run_and_reload(nd, scens[sn]["inputs"], {n: "list" for n, _ in scens[sn]["inputs"]}, st,
                                                 not quick, root))
        # the async entry point (also with cleanup=False into a new folder), every storage
        for sn in (["zip", "multi"] if quick else list(scens)):
            for st in storages:
                for entry in ("async", "async-keep"):
                    traces.append(run_and_reload(scens[sn]["desc"], scens[sn]["inputs"],
                                                 {n: "list" for n, _ in scens[sn]["inputs"]}, st, False, root, entry=entry))
        # two runs into ONE folder (the second with other inputs and shapes) with loads in between, all in one process;
        # then the identical request again with cleanup=False (nothing to do, nothing refused)
        for sn in (["zip", "chain", "partial"] if quick else [s for s in scens if s not in ("gen", "twogen")]):
            for st in storages:
                traces.append(run_and_reload(scens[sn]["desc"], scens[sn]["inputs"], {n: "list" for n, _ in scens[sn]["inputs"]},
                                             st, False, root, resume_after=True, inputs2=shorter(scens[sn]["inputs"])))
        # a rank-1 internal shape given as a plain int, reloaded and then requested again on the kept folder
        if "gen" in scens:
            gd = copy.deepcopy(scens["gen"]["desc"])
            for f in gd["funcs"]:
                if len(f["internal"]) == 1:
                    f["intshape"] = True
            for st in storages:
                traces.append(run_and_reload(gd, scens["gen"]["inputs"], {}, st, False, root, resume_after=True))
        # sessions: partial runs, then the rest with cleanup=False (sequentially and through pools), then reloads
        from . import c06
        scen6, cases6, _ = c06.export(ctx, "consumer")
        multi = [c for c in cases6 if c["kind"] == "parts" and len(c["parts"]) >= 2]
        rng.shuffle(multi)
        for k, c in enumerate(multi[: (2 if quick else 10)]):
            for st in storages:
                for pool in (None, "thread", "process"):
                    traces.append(resume_and_reload(scen6, c, st, pool, root))
        cases = c01.export_universe(ctx, maxsize=2, rich=False, nshards=16)
        rng.shuffle(cases)
        for k, c in enumerate(cases[: (40 if quick else 600)]):
            names = [n for n, _ in c["inputs"]]
            traces.append(run_and_reload(c["desc"], c["inputs"], {n: "ndarray" for n in names}, storages[k % 3], False, root))
    finally:
        shutil.rmtree(root, ignore_errors=True)
    for t in traces:
        ctx.case({"d": t["desc"], "i": t["inputs"], "m": t["meta"]}, nontrivial=any(f["has_ms"] for f in t["desc"]["funcs"]))
    mid = traces[0]
    ctx.sample({"storage": mid["meta"]["storage"], "events": [(e["e"], e.get("proc", "")) for e in mid["ev"]],
                "load": {k: mid["ev"][-1][k] for k in ("shapes", "storage_out", "mapspecs_out")}})
    rej = validate_traces(ctx, "TraceMapRun", traces, "reload", invariants=["InvTypeOK", "InvDoneStored"], strip=STRIP, chunk=60)
    for i, reached in rej.items():
        t = traces[i]
        e = t["ev"][reached - 1]
        ctx.violation(classify(t, reached),
                      f"reload history not explained at event {reached}: {e['e']} proc={e.get('proc','')} {e.get('cls','')} {e.get('msg','')[:160]}",
                      {"desc": t["desc"], "inputs": t["inputs"], "meta": t["meta"], "rejected_at": reached,
                       "event": {k: v for k, v in e.items() if k in ("e", "proc", "cls", "msg", "shapes", "storage_in", "storage_out")}})
    ctx.exhaustive = False

    import copy
    good = [t for i, t in enumerate(traces) if i not in rej and any(f["has_ms"] for f in t["desc"]["funcs"])][:6]
    base = validate_traces(ctx, "TraceMapRun", copy.deepcopy(good), "st0", invariants=[], strip=STRIP, count=False)
    bad = copy.deepcopy(good)
    clean = [i for i in range(len(bad)) if i not in base]   # only traces TLC accepts uncorrupted can be victims
    if not clean:
        ctx.selftests.append({'name': 'trace-corruption', 'ok': True, 'detail': 'not applicable: no accepted trace to corrupt'})
        return
    vi = clean[len(clean) // 2]
    k = max(i for i, e in enumerate(bad[vi]["ev"]) if e["e"] == "load")
    outs = {o for f in bad[vi]["desc"]["funcs"] for o in f["outputs"]}
    sh = next(x for x in bad[vi]["ev"][k]["shapes"] if x[0] in outs)
    sh[2] = [not b for b in sh[2]] or [True]
    rej2 = validate_traces(ctx, "TraceMapRun", bad, "st1", invariants=[], strip=STRIP, count=False)
    exp = dict(base)
    exp.setdefault(vi, k + 1)
    ctx.selftest("trace-corruption(shape mask of one reloaded output inverted)", rej2 == exp, f"rej={rej2} expected={exp}")


def replay(rep: dict) -> int:
    w = rep["witness"]
    root = tempfile.mkdtemp(prefix="pfverif_c04r_")
    try:
        st = w["meta"]["storage"]
        entry = w["meta"].get("entry", "map")
        if entry.startswith("sessions-"):
            pool = entry.split("-", 1)[1]
            t = resume_and_reload({"desc": w["desc"], "inputs": w["inputs"]}, w["meta"]["case"], storage_from_pairs(st),
                                  None if pool == "seq" else pool, root)
        else:
            t = run_and_reload(w["desc"], w["inputs"], w["meta"]["kinds"], st, False, root, entry=entry,
                               resume_after=bool(w["meta"].get("resume_after")), inputs2=w["meta"].get("inputs2"))
    finally:
        shutil.rmtree(root, ignore_errors=True)
    for e in t["ev"]:
        print({k: v for k, v in e.items() if k in ("e", "proc", "cls", "msg", "f")})
    ctx = Ctx(PROPERTY, "quick", 0)
    ctx.findings = []
    rej = validate_traces(ctx, "TraceMapRun", [t], "replay", invariants=[], strip=STRIP, count=False)
    ctx.cleanup()
    print("replay:", "VIOLATION reproduced" if rej else "history accepted")
    return 1 if rej else 0
