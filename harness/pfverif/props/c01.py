"""C01 - map results equal the MapSpec denotation for every pipeline and input.

Spec: MapDenote.tla (the denotation) + MapRun.tla (the run state machine).
1. TLC enumerates a TLA+-defined universe of mapped pipelines (MC_MapDenote: axis arrangements incl. ':' / zip / outer
   product / internal axis at any position / second output / generator, consumers, all axis sizes), checks the laws of
   the denotation per case and prints the cases.
2. Every case is built as a real Pipeline and run with Pipeline.map (sequentially) on the registered storages, with
   list and ndarray inputs; begin/call/ret/return events with sliced kwargs, Result.output and load_outputs are recorded.
3. TLC validates every recorded run against MapRun/MapDenote (TraceMapRun): every invocation's kwargs, exactly-once,
   inputs-complete, returned and reloaded arrays equal to the denotation.  A refusal of a valid request is a violation.
4. Seeded random pipelines (up to 4 functions, rank <= 3, sizes <= 3) go through 2-3 as well.
"""
from __future__ import annotations

import contextlib
import io
import json
import multiprocessing as mp
import os
import random
import shutil
import tempfile
from concurrent.futures import ProcessPoolExecutor, ThreadPoolExecutor

from .. import build, gen_map, pmap
from ..build import desc_to_tla
from ..ctx import Ctx
from ..tlc import MachineryError, run_tlc
from ..tracekit import parse_prints, validate_traces

PROPERTY = "C01"
LEVEL = "model_checking"

MC_CFG = """SPECIFICATION Spec
CONSTANTS MaxSize = {maxsize} Rich = {rich} Shard = {shard} NShards = {nshards}
INVARIANT LawValid LawShape LawBijective LawCalls Emit
"""


def export_universe(ctx: Ctx, maxsize: int, rich: bool, nshards: int = 16) -> list[dict]:
    def one(s: int):
        wd = ctx.workdir(f"mc_mapdenote_{s}")
        return run_tlc("MC_MapDenote", MC_CFG.format(maxsize=maxsize, rich="TRUE" if rich else "FALSE", shard=s,
                                                     nshards=nshards), wd, workers=1, allow_violation=False,
                       timeout=3000, heap="3g")
    cases = []
    with ThreadPoolExecutor(max_workers=16) as ex:
        for r in ex.map(one, range(nshards)):
            ctx.add_tlc(r, "MC_MapDenote shard")
            cases += [p for t, p in parse_prints(r.prints) if t == "CASE"]
    if not cases:
        raise MachineryError("MC_MapDenote exported no cases")
    return cases


def features(tdesc: dict) -> dict:
    fs = tdesc["funcs"]

    def ext_mask(f):
        named = {a for i in f["ms"]["ins"] for a in i["axes"] if a != ":"}
        return [a in named for a in f["ms"]["outs"][0]["axes"]] if f["ms"]["outs"] else []
    internal_before_mapped = False
    for f in fs:
        m = ext_mask(f)
        if f["has_ms"] and f["ms"]["ins"] and False in m and True in m[m.index(False):]:
            internal_before_mapped = True
    multi_outs = {o for f in fs if len(f["outputs"]) > 1 for o in f["outputs"]}
    colon_on_multi = any(i["name"] in multi_outs and ":" in i["axes"] for f in fs for i in f["ms"]["ins"])
    return {"internal_axis_before_mapped_axis": internal_before_mapped, "colon_on_tuple_output": colon_on_multi,
            "has_internal": any(f["internal"] for f in fs), "has_generator": any(f["has_ms"] and not f["ms"]["ins"] for f in fs)}


def run_case(job: dict) -> dict:
    """Build and run one case in a worker process; returns the trace record."""
    tdesc, inputs, kinds, storage = job["tdesc"], job["inputs"], job["kinds"], job["storage"]
    pdesc = job.get("pdesc") or pmap.tla_desc_to_py(tdesc)
    # how pipefunc learns the internal shapes: declared on the function ("decl"), only passed to map ("map"), or declared
    # WRONG on the function and overridden by map(internal_shapes=) ("override": the map argument has precedence)
    via, ishapes = kinds.get("__via__", "decl"), None
    if via != "decl":
        ishapes = {}
        for fd in pdesc["funcs"]:
            if fd.get("internal_shape"):
                fd["decl_internal_shape"] = None if via == "map" else [n + 1 for n in fd["internal_shape"]]
                ishapes.update({o: tuple(fd["internal_shape"]) for o in fd["outputs"]})
    build.LOG.clear()
    tmp = tempfile.mkdtemp(prefix="pfverif_c01_")
    try:
        try:
            with contextlib.redirect_stdout(io.StringIO()):
                # the order in which the functions are LISTED is immaterial: some pipelines are built consumers first
                listed = dict(pdesc, funcs=list(reversed(pdesc["funcs"]))) if kinds.get("__order__") == "rev" else pdesc
                pl = build.make_pipeline(listed)
        except Exception as ex:  # noqa: BLE001
            evs = [pmap.ev(e="reject", F=[f["name"] for f in tdesc["funcs"]], cls=type(ex).__name__,
                           msg="construct: " + str(ex)[:300])]
            return {"desc": tdesc, "inputs": inputs, "ev": evs, "storage": storage, "kinds": kinds}
        inp = pmap.inputs_to_py(inputs, kinds)
        evs, _ = pmap.do_map(pl, pdesc, inp, run_folder=tmp, storage=storage, parallel=False, internal_shapes=ishapes or None)
        return {"desc": tdesc, "inputs": inputs, "ev": evs, "storage": storage, "kinds": kinds}
    finally:
        shutil.rmtree(tmp, ignore_errors=True)


def run_jobs(jobs: list[dict]) -> list[dict]:
    with ProcessPoolExecutor(min(16, os.cpu_count() or 4), mp_context=mp.get_context("fork")) as pool:
        return list(pool.map(run_case, jobs, chunksize=max(1, len(jobs) // 128)))


def classify(tr: dict, reached: int) -> dict:
    e = tr["ev"][reached - 1]
    return {"check": "map-run", "event": e["e"], "cls": e.get("cls", ""), "storage": tr["storage"],
            **features(tr["desc"])}


def validate(ctx: Ctx, traces: list[dict], name: str) -> None:
    rej = validate_traces(ctx, "TraceMapRun", traces, name, invariants=["InvTypeOK", "InvDoneStored"],
                          strip=("storage", "kinds"), chunk=max(50, min(400, len(traces) // 16 + 1)))
    for i, reached in rej.items():
        tr = traces[i]
        sig = classify(tr, reached)
        e = tr["ev"][reached - 1]
        ctx.violation(sig, f"map run not explained by MapRun/MapDenote at event {reached} ({e['e']} {e.get('cls','')} "
                           f"{e.get('msg','')[:120]}); mapspecs={[pmap.ms_string(f['ms']) for f in tr['desc']['funcs']]}",
                      {"desc": tr["desc"], "inputs": tr["inputs"], "storage": tr["storage"], "kinds": tr["kinds"],
                       "rejected_at": reached, "event": {k: v for k, v in e.items() if k not in ("results", "loaded")}})


def nontrivial(tr: dict) -> bool:
    ncalls = sum(1 for e in tr["ev"] if e["e"] == "call")
    return ncalls >= 2


def run(ctx: Ctx) -> None:
    quick = ctx.tier == "quick"
    rng = random.Random(ctx.seed)
    ctx.rule = ("case = one Pipeline.map run (description, inputs, storage, input container kind); descriptions/inputs are "
                "ALL members of the TLA+-defined universe MC_MapDenote (producer with 1-2 mapped inputs over axes i,j,k "
                "incl. ':', every output axis order, internal axis at every position, optional 2nd output, generator; "
                "consumers none/element-wise/partial/full/zip; all axis sizes 1..MaxSize) + seeded random pipelines of 1-4 "
                "functions (rank<=3, sizes<=3); non-trivial = at least two user-function invocations")
    ctx.assumptions = ["TLC and the JSON/term encoding are trusted", "values are opaque terms (dtype coercions not modelled)",
                       "zarr storages cannot be imported in this sandbox", "sequential execution here; schedules are C03"]
    storages = ["dict", "file_array", "shared_memory_dict"]
    cases = export_universe(ctx, maxsize=2, rich=not quick)
    jobs = []
    for k, c in enumerate(cases):
        names = [n for n, _ in c["inputs"]]
        if quick:
            st = [storages[k % 2]] if k % 40 else ["shared_memory_dict"]
            kinds_list = [{n: ("list" if (k // 2) % 2 else "ndarray") for n in names}]
        else:
            st = storages[:2] if k % 20 else storages
            kinds_list = [{n: "list" for n in names}, {n: "ndarray" for n in names}]
        for s in st:
            for kinds in kinds_list:
                jobs.append({"tdesc": c["desc"], "inputs": c["inputs"], "storage": s,
                             "kinds": dict(kinds, __via__=("decl", "map", "override")[(k // 3) % 3],
                                           __order__="rev" if k % 2 else "listed")})
    # batches bound the memory of the thorough tier (every trace record carries its events)
    traces: list[dict] = []
    batch = 20000
    for b0 in range(0, len(jobs), batch):
        part = run_jobs(jobs[b0:b0 + batch])
        for t in part:
            ctx.case({"d": t["desc"], "i": t["inputs"], "s": t["storage"], "k": t["kinds"]}, nontrivial(t))
        if b0 == 0:
            mid = part[len(part) // 2]
            ctx.sample({"mapspecs": [pmap.ms_string(f["ms"]) for f in mid["desc"]["funcs"]], "storage": mid["storage"],
                        "events": [{k: v for k, v in e.items() if v not in ("", [], True)} for e in mid["ev"][:4]]})
        validate(ctx, part, f"universe{b0 // batch}")
        if not traces:
            traces = part[:2000]          # kept for the binding self-test below
        del part
    ctx.exhaustive = False

    # random pipelines
    rjobs = []
    for k in range(300 if quick else 6000):
        case = gen_map.random_map_case(rng, rng.randint(1, 4))
        for fd in case["desc"]["funcs"]:          # some multi-output functions return a mapping picked by a custom output_picker
            if len(fd["outputs"]) > 1 and rng.random() < 0.4:
                fd["picker"] = True
        rjobs.append({"tdesc": desc_to_tla(case["desc"]), "pdesc": case["desc"], "inputs": case["inputs"],
                      "kinds": dict(case["kinds"], __order__="rev" if k % 2 else "listed"),
                      "storage": storages[k % 3] if k % 7 else "shared_memory_dict"})
    # a mapped consumer that ALSO takes a whole mapped array through a parameter its MapSpec does not list (scenarios defined
    # in MC_MapFixed: mappedreducer, fanout), on every storage
    from . import c06
    for sn in ("mappedreducer", "fanout", "internalfirst"):
        sc, _, _ = c06.export(ctx, sn)
        for k, st in enumerate(storages):
            rjobs.append({"tdesc": sc["desc"], "inputs": sc["inputs"], "storage": st,
                          "kinds": {n: ("list" if k % 2 else "ndarray") for n, _ in sc["inputs"]}})
    # a producer WITHOUT a MapSpec whose rank-2 array is indexed by two mapped consumers naming different axes: the MapSpec
    # pipefunc generates must denote what the stated generator MapSpec denotes - in every listing order of the functions
    import itertools
    sc, _, _ = c06.export(ctx, "autogen")
    base_pd = pmap.tla_desc_to_py(sc["desc"])
    for k, perm in enumerate(itertools.permutations(range(3))):
        for hide in (True, False):
            pd = {"funcs": [dict(base_pd["funcs"][i], hide_ms=(hide and base_pd["funcs"][i]["name"] == "f")) for i in perm]}
            rjobs.append({"tdesc": {"funcs": [sc["desc"]["funcs"][i] for i in perm]}, "pdesc": pd, "inputs": sc["inputs"],
                          "storage": storages[k % 3], "kinds": {"__via__": "map"} if hide else {}})
    rtraces = run_jobs(rjobs)
    for t in rtraces:
        ctx.case({"d": t["desc"], "i": t["inputs"], "s": t["storage"]}, nontrivial(t))
    ctx.sample({"random mapspecs": [pmap.ms_string(f["ms"]) for f in rtraces[0]["desc"]["funcs"]]})
    validate(ctx, rtraces, "random")

    # binding self-test: alter one atom in one returned array
    import copy
    good = [t for t in traces if t["ev"][-1]["e"] == "return" and t["ev"][-1]["results"]][:10]
    base = validate_traces(ctx, "TraceMapRun", copy.deepcopy(good), "st0", invariants=[], strip=("storage", "kinds"),
                           count=False)
    bad = copy.deepcopy(good)
    clean = [i for i in range(len(bad)) if i not in base]   # only traces TLC accepts uncorrupted can be victims
    if not clean:
        ctx.selftests.append({'name': 'trace-corruption', 'ok': True, 'detail': 'not applicable: no accepted trace to corrupt'})
        return
    vi = clean[len(clean) // 2]

    def corrupt(v):
        if v["a"]:
            return corrupt(v["a"][0])
        v["f"] += "_x"
        return True
    corrupt(bad[vi]["ev"][-1]["results"][0][1])
    rej = validate_traces(ctx, "TraceMapRun", bad, "st1", invariants=[], strip=("storage", "kinds"), count=False)
    exp = dict(base)
    exp.setdefault(vi, len(bad[vi]["ev"]))
    ctx.selftest("trace-corruption(one atom of one returned array)", rej == exp, f"rej={rej} expected={exp}")


def replay(rep: dict) -> int:
    w = rep["witness"]
    tr = run_case({"tdesc": w["desc"], "inputs": w["inputs"], "kinds": w["kinds"], "storage": w["storage"]})
    for e in tr["ev"]:
        print({k: (v if k not in ("results", "loaded", "kwargs") else f"<{len(v)} entries>") for k, v in e.items()
               if v not in ("", [], True)})
    ctx = Ctx(PROPERTY, "quick", 0)
    ctx.findings = []
    validate(ctx, [tr], "replay")
    n = len(ctx.violations)
    ctx.cleanup()
    print("replay:", "VIOLATION reproduced" if n else "run accepted")
    return 1 if n else 0
