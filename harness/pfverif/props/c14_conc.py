"""C14, shared=True used concurrently: CacheConc.tla + lock-scheduled replay.

TLC explores every interleaving of two processes at lock granularity for the code as written (Fixed=FALSE: exhibits the
check-then-act race of get) and as repaired (Fixed=TRUE: NoKeyError holds), and prints every complete behaviour of the
AS-WRITTEN model as a lock hand-over script.  Each script is realised on a real shared=True LRUCache / HybridCache whose
instance lock is replaced by the scheduler-controlled lock; the operations, linearised in the order in which they took
effect, with their results and the observations after each one, are validated by TLC against the sequential model
(TraceCache.tla): a KeyError, a wrong victim or a stale value is a rejected history.
"""
from __future__ import annotations

import json
import threading

from ..tlc import MachineryError, run_tlc
from ..tracekit import parse_prints, validate_traces
from .. import lockctl

CFG = """SPECIFICATION Spec
CONSTANTS Kind = "{kind}" Max = {max} Keys = {{"a", "b", "c"}} Fixed = {fixed} Export = {export} ProgSet = {ps}
INVARIANT InvWellFormed InvLenBounded {inv} Emit
"""


def export_scripts(ctx, kind: str, mx: int, ps: int) -> tuple[list, list]:
    # repaired model: the race is gone
    r = run_tlc("CacheConc", CFG.format(kind=kind, max=mx, fixed="TRUE", export="FALSE", ps=ps, inv="NoKeyError"),
                ctx.workdir(f"conc_fixed_{kind}_{mx}_{ps}"), workers=2, allow_violation=False)
    ctx.add_tlc(r, f"CacheConc repaired {kind} max={mx} progs={ps}: NoKeyError")
    # as written: behaviours incl. the racy ones -> scripts
    r = run_tlc("CacheConc", CFG.format(kind=kind, max=mx, fixed="FALSE", export="TRUE", ps=ps, inv=""),
                ctx.workdir(f"conc_asis_{kind}_{mx}_{ps}"), workers=2, allow_violation=False)
    ctx.add_tlc(r, f"CacheConc as written {kind} max={mx} progs={ps}: all behaviours exported")
    scripts = [p for t, p in parse_prints(r.prints) if t == "SCRIPT"]
    if not scripts:
        raise MachineryError("CacheConc exported no scripts")
    uniq = {json.dumps(s["steps"]): s for s in scripts}
    return list(uniq.values()), scripts


def realise(script: dict, cfgd: dict) -> dict:
    from . import c14
    cache = c14.make_cache(dict(cfgd, shared=True), None)
    ctl = lockctl.Controller(script["steps"])
    cache._cache_lock = lockctl.CtlLock(ctl)  # noqa: SLF001  (instance attribute, public classes untouched)
    keys = cfgd["keys"]

    def observe() -> dict:
        # observing must not consume steps of the schedule (the `cache` property of a shared cache takes the lock)
        ctl.local.observing = True
        try:
            return c14.observe(cache, cfgd)
        finally:
            ctl.local.observing = False

    def proc(p: int, ops: list[dict]) -> None:
        for n, o in enumerate(ops, start=1):
            ctl.op_start(p, n)
            e = {"op": o["op"] if o["op"] != "idiom" else "get", "k": o.get("k", ""), "v": o.get("v", 0), "d": o.get("d", 0),
                 "max": 0, "lsize": 0, "exc": "", "p": p}
            try:
                if o["op"] == "put":
                    r = cache.put(o["k"], o["v"], float(o["d"])) if cfgd["kind"] == "hybrid" else cache.put(o["k"], o["v"])
                elif o["op"] == "get":
                    r = cache.get(o["k"])
                elif o["op"] == "clear":
                    r = cache.clear()
                elif o["op"] == "idiom":
                    present = o["k"] in cache
                    pre = dict(e, op="in", res=1 if present else 0)
                    pre.update(observe())
                    ctl.events.append(pre)
                    if not present:
                        ctl.op_end(None)
                        ctl.events.pop()
                        continue
                    ctl.point()
                    r = cache.get(o["k"])
                e["res"] = 0 if r is None else r
                e.update(observe())
            except Exception as ex:  # noqa: BLE001
                e["res"] = -1
                e["exc"] = type(ex).__name__
                e.update({"present": [], "len": -1, "vals": [], "cnts": [], "durs": []})
            ctl.op_end(e)
    ths = [threading.Thread(target=proc, args=(p, script["progs"][p - 1]), daemon=True) for p in (1, 2)]
    for t in ths:
        t.start()
    for t in ths:
        t.join(timeout=300)
    evs = [{k: v for k, v in e.items() if k != "p"} for e in ctl.events if e is not None]
    return {"kind": cfgd["kind"], "max": cfgd["max"], "lsize": 0, "aw": 1, "dw": 1, "keys": keys, "shared": True,
            "ev": evs, "ops": script["steps"], "stuck": ctl.stuck or "", "progs": script["progs"]}


def run(ctx) -> None:
    quick = ctx.tier == "quick"
    traces = []
    plan = [("lru", 2, 1), ("lru", 2, 3), ("hybrid", 2, 1), ("lru", 1, 4)] if quick else \
           [("lru", 2, 1), ("lru", 2, 2), ("lru", 2, 3), ("lru", 1, 4), ("lru", 2, 4), ("hybrid", 2, 1), ("hybrid", 2, 3), ("hybrid", 1, 4)]
    for kind, mx, ps in plan:
        scripts, _ = export_scripts(ctx, kind, mx, ps)
        cfgd = {"kind": kind, "max": mx, "lsize": 0, "aw": 1, "dw": 1, "keys": ["a", "b", "c"]}
        for s in scripts[: (40 if quick else 400)]:
            traces.append(realise(s, cfgd))
    for t in traces:
        if t["stuck"]:
            raise MachineryError(f"lock schedule could not be realised: {t['stuck']}")
        ctx.case({"conc": t["ops"], "kind": t["kind"], "max": t["max"]},
                 nontrivial=any(a["p"] != b["p"] for a, b in zip(t["ops"], t["ops"][1:])))
    ctx.sample({"concurrent": {"steps": [(s["p"], s["s"]) for s in traces[0]["ops"]], "progs": traces[0]["progs"]}})
    rej = validate_traces(ctx, "TraceCache", traces, "conc", invariants=["InvWellFormed", "InvLenBounded"],
                          strip=("ops", "shared", "stuck", "progs"))
    for i, reached in rej.items():
        t = traces[i]
        e = t["ev"][reached - 1]
        racy = any(s["s"] == "test" for s in t["ops"])
        ctx.violation({"check": "interleaving", "cls": {"lru": "LRUCache", "hybrid": "HybridCache"}[t["kind"]], "op": e["op"],
                       "exc": e.get("exc") or "mismatch", "between_test_and_lock": racy},
                      f"shared {t['kind']} cache: interleaved history not linearisable in lock order at operation {reached}: {e}",
                      {"cfg": {k: t[k] for k in ("kind", "max", "keys")}, "progs": t["progs"], "steps": t["ops"],
                       "rejected_at": reached})
