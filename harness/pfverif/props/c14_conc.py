"""C14, shared=True from several processes: CacheConc.tla + lock-scheduled replay (built later)."""
def run(ctx):
    return
