"""C19 - xarray datasets label results with the right dimensions and coordinates.

Spec: XarrayLabels.tla (on top of MapDenote.tla); model: MC_XarrayLabels.tla.   Mechanism A (universe export):
1. TLC enumerates the C01 universe of mapped pipelines restricted to 1-D/2-D mapped inputs (values pairwise distinct),
   checks the laws of XarrayLabels per case (dims = MapSpec axes, coordinates fit the variables they label, the
   accepted coordinate sets, load_intermediate switch, selection-by-value law) and prints, for every selection of
   outputs the loaders offer (all / one output) and load_intermediate on/off: data variables name -> dims, candidate
   coordinates name -> (axes, levels), the acceptable coordinate sets per axes tuple, and one selection by value per
   coordinate with what every variable must then hold.  Values are the MapDenote denotation.
2. Every exported case is built as a real Pipeline and run with Pipeline.map (parallel=False; storage dict and
   file_array; 1-D inputs as list or ndarray).  xarray_dataset_from_results and load_xarray_dataset (all outputs, each
   single output) are built for load_intermediate on/off, projected to
       data_vars: name -> (dims, values as canonical term JSON), coords: name -> (dims, levels (MultiIndex -> one
       array per level))
   and compared with the export and with each other (`identical`).  ds.sel(coord=value) (1-D plain coordinates) /
   selection by value (2-D and tuple-valued coordinates) is compared with the exported selection.
3. Seeded random pipelines (gen_map, mapped root inputs of rank <= 2) go through the same TLC model (Mode = "file") and
   the same comparison; cases outside the stated scope of the specification (Supported) are skipped and counted.
4. Two-run histories: a seeded sample of universe cases is mapped TWICE by the same Pipeline object into the SAME run
   folder in one process - map(inputs A) -> datasets -> map(inputs B, cleanup=True) -> datasets - where B is A with every
   atom renamed (same shapes).  The expectation for B is exported by TLC like any other case (Mode = "file"); both datasets
   of the second run are judged against it (a loader that remembers the first run returns A's coordinates with B's data).
5. Multi-source axes (Mode = "sources"): the TLA+-defined family of pipelines whose last function zips, along one axis,
   2-3 sources - root inputs, mapped arrays one and two steps from their roots, a rank-2 mapped array whole or reduced -
   listed in the MapSpec in EVERY order (root before / after / between mapped arrays, two mapped arrays zipped, a nested
   root-first zip).  TLC checks XarrayLabels!LawSources and LawSourceOrder (every reordering of a MapSpec's inputs has the
   same analysis and denotation) on each member and exports each like any other case; the real code is run on every order.
6. Scoped names (Mode = "scoped"): names are opaque (XarrayLabels section 6).  TLC applies the renamings that scopes produce
   to members of the universe - every name / the root inputs / the outputs moved into one scope (several root inputs, mapped
   arrays of equal length among them, then share the prefix "sc."), the root inputs moved into different scopes with one
   common last component (p.v, q.v, ...), one input of a zipped pair alone - checks LawNaming (analysis, denotation and
   coordinates of the renamed case are those of its base case, renamed) and exports each renamed case like any other; the
   real pipeline is built with the dotted names, mapped into a run folder and both datasets (from the results / read back
   from the folder) are judged against the export.  A sample of them also takes part in the two-run histories of 4.
Python only drives the real code, projects datasets and compares with what TLC printed.
"""
from __future__ import annotations

import contextlib
import copy
import io
import json
import multiprocessing as mp
import os
import random
import shutil
import tempfile
import traceback
import warnings
from concurrent.futures import ProcessPoolExecutor, ThreadPoolExecutor
from typing import Any

from .. import build, gen_map, pmap
from ..build import desc_to_tla
from ..ctx import Ctx
from ..terms import Term, from_json, to_json
from ..tlc import MachineryError, run_tlc
from ..tracekit import parse_prints

PROPERTY = "C19"
LEVEL = "model_checking"

LAWS_ALWAYS = "LawOrder LawUnion LawDimsOK LawCoordsFit LawAccepted LawSwitch LawSingleInAll LawSel"
LAWS_UNIVERSE = "LawSupported LawOrderFree LawSelExact LawOneIndex LawDistinct"
LAWS_SCOPED = "LawSupported LawNaming LawSelExact LawOneIndex LawDistinct"      # Mode = "scoped": the renamed universe cases
MC_CFG = """SPECIFICATION XSpec
CONSTANTS MaxSize = {maxsize} MinSize = {minsize} Rich = {rich} Shard = {shard} NShards = {nshards} Mode = "{mode}" Thin = {thin} Phase = {phase}
INVARIANT {invs}
"""
PROCS = min(8, os.cpu_count() or 4)
SECOND = "second-run-same-folder"      # history class: a second map of the same pipeline into the same run folder


# ---- TLC side -----------------------------------------------------------------------------------------
def export_universe(ctx: Ctx, *, minsize: int, maxsize: int, rich: bool, nshards: int, par: int, only: int | None = None) -> list[dict]:
    def one(s: int):
        wd = ctx.workdir(f"mc_xarray_{minsize}{maxsize}{int(rich)}_{s}")
        cfg = MC_CFG.format(maxsize=maxsize, minsize=minsize, rich="TRUE" if rich else "FALSE", shard=s, nshards=nshards,
                            mode="universe", thin=1, phase=0, invs=f"{LAWS_UNIVERSE} {LAWS_ALWAYS} EmitLabels")
        return run_tlc("MC_XarrayLabels", cfg, wd, workers=1, allow_violation=False, timeout=3000, heap="3g")
    cases = []
    with ThreadPoolExecutor(max_workers=par) as ex:
        for r in ex.map(one, range(nshards) if only is None else [only]):
            ctx.add_tlc(r, f"MC_XarrayLabels universe sizes {minsize}..{maxsize} rich={rich}")
            cases += [p for t, p in parse_prints(r.prints) if t == "CASE"]
    if not cases:
        raise MachineryError("MC_XarrayLabels exported no cases")
    seen, uniq = set(), []
    for c in cases:                      # the generator cases are members of every shard
        key = json.dumps([c["desc"], c["inputs"]], sort_keys=True)
        if key not in seen:
            seen.add(key)
            uniq.append(c)
    return uniq


def export_sources(ctx: Ctx, *, minsize: int, maxsize: int, rich: bool, nshards: int = 1, par: int = 1) -> list[dict]:
    """The multi-source family of MC_XarrayLabels (Mode = "sources"): every order of 2-3 sources of one axis."""
    def one(sh: int):
        wd = ctx.workdir(f"mc_xarray_sources_{minsize}{maxsize}{int(rich)}_{sh}")
        cfg = MC_CFG.format(maxsize=maxsize, minsize=minsize, rich="TRUE" if rich else "FALSE", shard=sh, nshards=nshards,
                            mode="sources", thin=1, phase=0, invs=f"{LAWS_UNIVERSE} {LAWS_ALWAYS} EmitLabels")
        return run_tlc("MC_XarrayLabels", cfg, wd, workers=1, allow_violation=False, timeout=3000, heap="3g")
    cases = []
    with ThreadPoolExecutor(max_workers=par) as ex:
        for r in ex.map(one, range(nshards)):
            ctx.add_tlc(r, f"MC_XarrayLabels multi-source family sizes {minsize}..{maxsize} rich={rich}")
            cases += [p for t, p in parse_prints(r.prints) if t == "CASE"]
    if not cases:
        raise MachineryError("MC_XarrayLabels (sources mode) exported no cases")
    return cases


def export_scoped(ctx: Ctx, *, minsize: int, maxsize: int, nshards: int, shards: list[int], thin: int, phase: int, par: int = 1) -> list[dict]:
    """The scoped-names family of MC_XarrayLabels (Mode = "scoped"): universe cases under the renamings that scopes produce."""
    def one(sh: int):
        wd = ctx.workdir(f"mc_xarray_scoped_{minsize}{maxsize}_{sh}")
        cfg = MC_CFG.format(maxsize=maxsize, minsize=minsize, rich="FALSE", shard=sh, nshards=nshards, mode="scoped", thin=thin,
                            phase=phase, invs=f"{LAWS_SCOPED} {LAWS_ALWAYS} EmitLabels")
        return run_tlc("MC_XarrayLabels", cfg, wd, workers=1, allow_violation=False, timeout=3000, heap="3g")
    cases = []
    with ThreadPoolExecutor(max_workers=par) as ex:
        for r in ex.map(one, shards):
            ctx.add_tlc(r, f"MC_XarrayLabels scoped-names family sizes {minsize}..{maxsize} (every {thin}th pair from {phase})")
            cases += [p for t, p in parse_prints(r.prints) if t == "CASE"]
    if not cases:
        raise MachineryError("MC_XarrayLabels (scoped mode) exported no cases")
    return cases


def export_file_cases(ctx: Ctx, items: list[dict], name: str, *, chunk: int = 250, par: int = 4, count: bool = True) -> dict[int, dict]:
    """items: [{id, desc (TLA form), inputs, order}] -> {id: exported case} (Mode = "file")."""
    chunks = [items[i:i + chunk] for i in range(0, len(items), chunk)]

    def one(ci: int):
        wd = ctx.workdir(f"mc_xarray_file_{name}_{ci}")
        f = wd / "cases.ndjson"
        with f.open("w") as fh:
            for it in chunks[ci]:
                fh.write(json.dumps(it, separators=(",", ":")) + "\n")
        cfg = MC_CFG.format(maxsize=1, minsize=1, rich="FALSE", shard=0, nshards=1, mode="file", thin=1, phase=0,
                            invs=f"{LAWS_ALWAYS} EmitLabels")
        return run_tlc("MC_XarrayLabels", cfg, wd, workers=1, env={"CASE_FILE": str(f)}, allow_violation=False,
                       timeout=3000, heap="3g")
    out: dict[int, dict] = {}
    with ThreadPoolExecutor(max_workers=par) as ex:
        for r in ex.map(one, range(len(chunks))):
            if count:
                ctx.add_tlc(r, f"MC_XarrayLabels file cases ({name})")
            for t, p in parse_prints(r.prints):
                if t == "CASE":
                    out[p["id"]] = p
    if len(out) != len(items):
        raise MachineryError(f"MC_XarrayLabels (file mode) printed {len(out)} of {len(items)} cases")
    return out


def check_same_universe(ctx: Ctx) -> None:
    """The universe enumerated by MC_XarrayLabels IS the C01 universe (MC_MapDenote) restricted to rank <= 2."""
    wd = ctx.workdir("mc_xarray_same")
    cfg = MC_CFG.format(maxsize=2, minsize=1, rich="FALSE", shard=0, nshards=1, mode="same", thin=1, phase=0, invs="EmitSame")
    r = run_tlc("MC_XarrayLabels", cfg, wd, workers=1, allow_violation=False, timeout=3000, heap="3g")
    ctx.add_tlc(r, "MC_XarrayLabels SameUniverse")
    if not any("SAME" in ln and "TRUE" in ln for ln in r.prints):
        raise MachineryError(f"MC_XarrayLabels universe differs from MC_MapDenote's: {r.prints[:3]}")
    ctx.extra["same_universe_as_C01_rank_le_2"] = True


# ---- real code: observe ----------------------------------------------------------------------------------
def _level_arrays(ds, name: str):
    """Coordinate -> list of per-level numpy arrays (a MultiIndex / tuple-valued coordinate has one per level)."""
    import numpy as np
    import pandas as pd
    idx = ds.indexes.get(name) if hasattr(ds, "indexes") else None
    if isinstance(idx, pd.MultiIndex):
        return [np.asarray(idx.get_level_values(k), dtype=object) for k in range(idx.nlevels)]
    vals = ds.coords[name].values
    flat = list(vals.flat) if vals.ndim else [vals.item()]
    if flat and all(isinstance(v, tuple) for v in flat):
        n = len(flat[0])
        out = []
        for k in range(n):
            a = np.empty(vals.shape, dtype=object)
            for pos, v in zip(np.ndindex(*vals.shape), flat):
                a[pos] = v[k] if len(v) == n else Term("#ragged")
            out.append(a)
        return out
    return [vals]


def project(ds) -> dict:
    return {"data_vars": {str(n): {"dims": [str(x) for x in v.dims], "values": to_json(v.values)} for n, v in ds.data_vars.items()},
            "coords": {str(n): {"dims": [str(x) for x in ds.coords[n].dims], "levels": [to_json(a) for a in _level_arrays(ds, n)]}
                       for n in ds.coords}}


def _exc(ex: BaseException) -> dict:
    """Exception class + the innermost pipefunc frame (function name) it came through."""
    func = ""
    for fr in traceback.extract_tb(ex.__traceback__):
        if "/pipefunc/" in fr.filename.replace("\\", "/") and not fr.name.startswith("<"):
            func = fr.name
    return {"cls": type(ex).__name__, "func": func, "msg": str(ex)[:240]}


def _select(ds, pick: dict):
    """Selection by coordinate value: .sel on a 1-D plain coordinate, positional selection by matching value otherwise."""
    import numpy as np
    name = pick["coord"]
    vals = [from_json(v) for v in pick["vals"]]
    c = ds.coords[name]
    levels = _level_arrays(ds, name)
    if len(levels) == 1 and c.ndim == 1:
        return ds.set_xindex(name).sel({name: vals[0]}), "sel"
    if len(levels) != len(vals):
        raise ValueError(f"coordinate {name} has {len(levels)} levels, expected {len(vals)}")
    mask = np.ones(c.shape, dtype=bool)
    for a, v in zip(levels, vals):
        mask &= np.frompyfunc(lambda e, v=v: e == v, 1, 1)(a).astype(bool)
    pos = np.argwhere(mask)
    if len(pos) != 1:
        raise ValueError(f"value {vals} occurs {len(pos)} times in coordinate {name}")
    return ds.isel({str(d): int(p) for d, p in zip(c.dims, pos[0])}), "by-value"


def _observe_run(pl, case: dict, kinds: dict, storage: str, tmp: str, want) -> dict:
    """One map run of `case` into run folder `tmp` (cleanup=True) + every dataset the wanted views ask for."""
    from pipefunc.map import load_xarray_dataset
    from pipefunc.map.xarray import xarray_dataset_from_results
    obs: dict[str, Any] = {"map": None, "views": []}
    try:
        inp = pmap.inputs_to_py(case["inputs"], kinds)
        res = pl.map(inp, run_folder=tmp, storage=storage, parallel=False, cleanup=True)
    except Exception as ex:  # noqa: BLE001
        obs["map"] = _exc(ex)
        return obs
    obs["outputs"] = sorted(str(k) for k in res)
    for v in case["views"]:
        if want is not None and [sorted(v["sel"]), v["li"]] not in want:
            continue
        o: dict[str, Any] = {"sel": sorted(v["sel"]), "li": v["li"], "all": v["all"], "ds": {}, "exc": {}, "picks": []}
        built = {}
        apis = ["from_results", "load"] if v["all"] else ["load_one"]
        for api in apis:
            try:
                if api == "from_results":
                    ds = xarray_dataset_from_results(inp, res, pl, load_intermediate=v["li"])
                elif api == "load":
                    ds = load_xarray_dataset(run_folder=tmp, load_intermediate=v["li"])
                else:
                    ds = load_xarray_dataset(*v["sel"], run_folder=tmp, load_intermediate=v["li"])
                built[api] = ds
            except Exception as ex:  # noqa: BLE001
                o["exc"][api] = _exc(ex)
        for api, ds in built.items():
            o["ds"][api] = project(ds)         # a failure here is a harness failure, not a verdict
        if len(built) == 2:
            try:
                o["identical"] = bool(built["from_results"].identical(built["load"]))
            except Exception as ex:  # noqa: BLE001
                o["identical"] = False
                o["exc"]["identical"] = _exc(ex)
        if v["all"] and "from_results" in built:
            ds = built["from_results"]
            for p in v["picks"]:
                if p["coord"] not in ds.coords:
                    continue
                try:
                    sub, how = _select(ds, p)
                except Exception as ex:  # noqa: BLE001
                    o["picks"].append({"coord": p["coord"], "exc": _exc(ex)})
                    continue
                o["picks"].append({"coord": p["coord"], "how": how, "ds": project(sub)})
        obs["views"].append(o)
    return obs


def observe(job: dict) -> dict:
    """Run the real map of one case and build / project every dataset the exported views ask for.  With job["case_b"]
    (the same description with other input values of the same shapes) the history is
        map(inputs A) -> datasets -> map(inputs B, SAME pipeline object, SAME run folder, cleanup=True) -> datasets
    in one process; obs["second"] holds the observation of the second run (to be judged against the export for B)."""
    case, kinds, storage = job["case"], job["kinds"], job["storage"]
    pdesc = job.get("pdesc") or pmap.tla_desc_to_py(case["desc"])
    build.LOG.clear()
    tmp = tempfile.mkdtemp(prefix="pfverif_c19_")
    try:
        with contextlib.redirect_stdout(io.StringIO()), warnings.catch_warnings():
            warnings.simplefilter("ignore")
            try:
                pl = build.make_pipeline(pdesc)
            except Exception as ex:  # noqa: BLE001
                return {"map": _exc(ex), "views": []}
            obs = _observe_run(pl, case, kinds, storage, tmp, job.get("want"))
            if job.get("case_b") is not None and obs["map"] is None:
                obs["second"] = _observe_run(pl, job["case_b"], kinds, storage, tmp, job.get("want"))
        return obs
    finally:
        shutil.rmtree(tmp, ignore_errors=True)


# ---- compare observation with the export ----------------------------------------------------------------
def compare(case: dict, obs: dict) -> list[dict]:
    """-> mismatches [{clause, api, li, sel, detail, ...}]; only equality / membership against exported values."""
    out: list[dict] = []
    if obs["map"] is not None:
        return [{"clause": "map-failed", "api": "map", "li": "", "sel": "all", **obs["map"], "detail": obs["map"]["msg"]}]
    den = case["den"]
    if obs["outputs"] != sorted(n for f in case["desc"]["funcs"] for n in f["outputs"]):
        out.append({"clause": "result-names", "api": "map", "li": "", "sel": "all", "detail": str(obs["outputs"])})
    views = {(tuple(sorted(v["sel"])), v["li"]): v for v in case["views"]}
    for o in obs["views"]:
        v = views[(tuple(o["sel"]), o["li"])]
        tag = {"li": o["li"], "sel": "all" if o["all"] else "one"}
        for api, e in o["exc"].items():
            out.append({"clause": "raises", "api": api, **tag, **e, "detail": e["msg"]})
        cands = {c["name"]: c for c in v["cands"]}
        for api, p in o["ds"].items():
            t = {"api": api, **tag}
            # coordinates: each observed one is a candidate with these axes and level values
            for name, c in p["coords"].items():
                if name not in cands:
                    out.append({"clause": "unexpected-coordinate", **t, "coord": name, "detail": f"{name} on {c['dims']}; candidates {sorted(cands)}"})
                    continue
                exp = cands[name]
                if c["dims"] != exp["axes"]:
                    out.append({"clause": "coordinate-axes", **t, "coord": name, "detail": f"{name}: dims {c['dims']} expected {exp['axes']}"})
                elif c["levels"] != [den[x] for x in exp["levels"]]:
                    out.append({"clause": "coordinate-values", **t, "coord": name, "detail": f"{name}: levels differ from the inputs {exp['levels']}"})
            # per axes tuple: the set of coordinates is one of the acceptable ones
            for alt in v["alts"]:
                got = sorted(n for n, c in p["coords"].items() if c["dims"] == alt["axes"] and n in cands)
                if got not in [sorted(x) for x in alt["ok"]]:
                    out.append({"clause": "coordinate-set", **t, "axes": alt["axes"],
                                "detail": f"coordinates on {alt['axes']}: {got}; acceptable: {[sorted(x) for x in alt['ok']]}"})
            # data variables: the selected outputs that are not coordinates; dims and values
            expvars = {x["name"]: x for x in v["vars"] if x["name"] not in p["coords"]}
            if sorted(p["data_vars"]) != sorted(expvars):
                out.append({"clause": "variables", **t, "detail": f"data variables {sorted(p['data_vars'])} expected {sorted(expvars)}"})
            for name, dv in p["data_vars"].items():
                if name not in expvars:
                    continue
                if dv["dims"] != expvars[name]["dims"]:
                    out.append({"clause": "variable-dims", **t, "var": name, "detail": f"{name}: dims {dv['dims']} expected {expvars[name]['dims']}"})
                elif dv["values"] != den[name]:
                    out.append({"clause": "variable-values", **t, "var": name, "detail": f"{name}: values differ from the denotation"})
        if "identical" in o and not o["identical"]:
            out.append({"clause": "not-identical", "api": "both", **tag, "detail": "from_results and load differ"})
        if len(o["ds"]) == 2 and o["ds"]["from_results"] != o["ds"]["load"]:
            out.append({"clause": "projections-differ", "api": "both", **tag, "detail": "from_results and load project differently"})
        picks = {p["coord"]: p for p in v["picks"]}
        for po in o["picks"]:
            t = {"api": "sel", **tag, "coord": po["coord"]}
            if "exc" in po:
                out.append({"clause": "sel-raises", **t, **po["exc"], "detail": po["exc"]["msg"]})
                continue
            exp = {x["name"]: x for x in picks[po["coord"]]["vars"]}
            for name, dv in po["ds"]["data_vars"].items():
                if dv["dims"] != exp[name]["dims"] or dv["values"] != exp[name]["values"]:
                    out.append({"clause": "selection", **t, "var": name, "how": po["how"],
                                "detail": f"selecting {po['coord']} = entry {picks[po['coord']]['at']}: {name} {dv['dims']} differs from the exported selection {exp[name]['dims']}"})
    return out


def work(job: dict) -> dict:
    obs = observe(job)
    mism = compare(job["case"], obs)
    allobs = [obs]
    if "second" in obs:
        allobs.append(obs["second"])
        mism += [{**m, "history": SECOND} for m in compare(job["case_b"], obs["second"])]
    r = {"k": job["k"], "mismatches": mism,
         "ncoords": max((len(p["coords"]) for ob in allobs for o in ob["views"] for p in o["ds"].values()), default=0),
         "npicks": sum(1 for ob in allobs for o in ob["views"] for p in o["picks"] if "exc" not in p),
         "ndatasets": sum(len(o["ds"]) for ob in allobs for o in ob["views"]), "second": "second" in obs}
    if job.get("keep_obs") or mism:
        r["obs"] = obs
    return r


def run_jobs(jobs: list[dict]) -> list[dict]:
    if not jobs:
        return []
    with ProcessPoolExecutor(PROCS, mp_context=mp.get_context("fork")) as pool:
        return list(pool.map(work, jobs, chunksize=max(1, min(16, len(jobs) // (4 * PROCS) or 1))))


# ---- classification ---------------------------------------------------------------------------------------
def features(tdesc: dict) -> dict:
    """Syntactic features of a description that tell the known defect classes apart."""
    outs = {o for f in tdesc["funcs"] for o in f["outputs"]}
    specs: dict[str, list[list[str]]] = {}
    for f in tdesc["funcs"]:
        if f["has_ms"]:
            for sp in f["ms"]["ins"] + f["ms"]["outs"]:
                specs.setdefault(sp["name"], []).append(sp["axes"])
    only_colon = any(n not in outs and any(all(ax[k] == ":" for ax in axs) for k in range(len(axs[0]))) for n, axs in specs.items())
    mapped_out = {o for f in tdesc["funcs"] if f["has_ms"] and f["ms"]["ins"] for o in f["outputs"]}
    zipped2 = False
    for f in tdesc["funcs"]:
        if f["has_ms"]:
            full = [tuple(sp["axes"]) for sp in f["ms"]["ins"] if sp["name"] not in mapped_out and ":" not in sp["axes"] and len(sp["axes"]) >= 2]
            zipped2 |= len(full) != len(set(full))
    names = {n for f in tdesc["funcs"] for n in f["params"] + f["outputs"]}
    return {"root_axis_only_colon": only_colon, "zipped_rank2_inputs": zipped2, "scoped_names": any("." in n for n in names),
            "has_generator": any(f["has_ms"] and not f["ms"]["ins"] for f in tdesc["funcs"])}


def signature(m: dict, tdesc: dict) -> dict:
    f = features(tdesc)
    sig = {"check": "labels", "clause": m["clause"], "root_axis_only_colon": f["root_axis_only_colon"],
           "zipped_rank2_inputs": f["zipped_rank2_inputs"], "history": m.get("history", "single-run")}
    if f["scoped_names"]:            # dotted (scoped) parameter / output names
        sig["scoped_names"] = True
    if "cls" in m:
        sig["cls"] = m["cls"]
        sig["func"] = m["func"]
    return sig


def report(ctx: Ctx, job: dict, res: dict) -> None:
    case = job["case"]
    seen = set()
    for m in res["mismatches"]:
        sig = signature(m, case["desc"])
        key = json.dumps(sig, sort_keys=True)
        if key in seen:
            continue
        seen.add(key)
        ms = [pmap.ms_string(f["ms"]) if f["has_ms"] else None for f in case["desc"]["funcs"]]
        hist = " after a SECOND map into the same run folder (judged against that run's inputs)" if m.get("history") == SECOND else ""
        wit = {"desc": case["desc"], "pdesc": job.get("pdesc"), "inputs": case["inputs"], "order": case["order"],
               "kinds": job["kinds"], "storage": job["storage"], "mismatch": m}
        if job.get("case_b") is not None:
            wit["inputs_b"] = job["case_b"]["inputs"]
        ctx.violation(sig, f"{m['clause']} [{m['api']}, load_intermediate={m['li']}, outputs={m['sel']}]{hist}: {m['detail'][:300]}; mapspecs={ms}",
                      wit)


def nontrivial(res: dict) -> bool:
    return res["ncoords"] >= 1 and res["ndatasets"] >= 2


# ---- the check ----------------------------------------------------------------------------------------------
def wanted_views(case: dict, k: int, every_single: bool) -> list | None:
    """Which exported views a job builds: always the full dataset with load_intermediate on and off; every one-output
    selection (thorough) or one of them, rotating over outputs and the switch (quick: each load re-reads the run folder)."""
    if every_single:
        return None
    full = [[sorted(v["sel"]), v["li"]] for v in case["views"] if v["all"]]
    singles = sorted([sorted(v["sel"]), v["li"]] for v in case["views"] if not v["all"])
    return full + ([singles[k % len(singles)]] if singles else [])


def jobs_for(cases: list[dict], storages_of, kinds_of, keep: int = 0, every_single: bool = True) -> list[dict]:
    jobs = []
    for k, c in enumerate(cases):
        names = [n for n, _ in c["inputs"]]
        for st in storages_of(k):
            for kind in kinds_of(k):
                jobs.append({"k": len(jobs), "case": c, "storage": st, "kinds": {n: kind for n in names},
                             "keep_obs": len(jobs) < keep, "want": wanted_views(c, k, every_single)})
    return jobs


def selftest(ctx: Ctx, jobs: list[dict], results: list[dict]) -> None:
    """Corrupt one expected value of one exported case at a time; exactly that case must be rejected, with that clause."""
    good = [(j, r) for j, r in zip(jobs, results) if "obs" in r and not r["mismatches"]
            and any(v["all"] and v["cands"] and v["picks"] for v in j["case"]["views"])][:6]
    if len(good) < 3:
        raise MachineryError("self-test: fewer than 3 accepted cases with coordinates available")
    vi = len(good) // 2

    def rejected(mut) -> tuple[list[int], set[str]]:
        rej, clauses = [], set()
        for n, (j, r) in enumerate(good):
            c = copy.deepcopy(j["case"])
            if n == vi:
                mut(c)
            mm = compare(c, r["obs"])
            if mm:
                rej.append(n)
                clauses |= {m["clause"] for m in mm}
        return rej, clauses

    def view(c):
        return next(v for v in c["views"] if v["all"] and v["cands"] and v["picks"])

    def m_dims(c):
        x = next((x for x in view(c)["vars"] if len(x["dims"]) >= 1), None)
        x["dims"] = list(reversed(x["dims"])) if len(x["dims"]) > 1 else ["zz"]

    def m_value(c):
        lv = view(c)["cands"][0]["levels"][0]
        t = c["den"][lv]
        while t["a"]:
            t = t["a"][-1]
        t["f"] += "_x"

    def m_axes(c):
        view(c)["cands"][0]["axes"] = ["zz"]

    def m_alt(c):
        for a in view(c)["alts"]:
            a["ok"] = [["nope"]]

    def m_pick(c):
        p = view(c)["picks"][0]
        x = next(x for x in p["vars"] if x["name"] in {v["name"] for v in view(c)["vars"]})
        t = x["values"]
        while t["a"]:
            t = t["a"][0]
        t["f"] += "_x"
    for name, mut, clause in [("variable dims", m_dims, "variable-dims"), ("one atom of a coordinate level", m_value, None),
                              ("coordinate axes", m_axes, "coordinate-axes"), ("acceptable coordinate sets", m_alt, "coordinate-set"),
                              ("one atom of an exported selection", m_pick, "selection")]:
        rej, clauses = rejected(mut)
        ok = rej == [vi] and (clause is None or clause in clauses)
        ctx.selftest(f"expected-value corruption ({name})", ok, f"rejected={rej} expected=[{vi}] clauses={sorted(clauses)}")
    base, _ = rejected(lambda c: None)
    ctx.selftest("uncorrupted cases accepted", base == [], f"rejected={base}")


def selftest_scoped(ctx: Ctx, sjobs: list[dict], sresults: list[dict]) -> None:
    """Scoped names are really told apart: in accepted scoped cases, replace the exported value of one coordinate level by
    the value of ANOTHER root input of the case (what reading one file for two dotted names returns); exactly that case
    must be rejected, on coordinate values / selections only."""
    def other_input(c):
        v = next(v for v in c["views"] if v["all"] and v["cands"])
        lv = v["cands"][0]["levels"][0]
        return lv, next((n for n, _ in c["inputs"] if n != lv and "." in n + lv), None)
    good = [(j, r) for j, r in zip(sjobs, sresults) if "obs" in r and not r["mismatches"]
            and any(v["all"] and v["cands"] for v in j["case"]["views"]) and other_input(j["case"])[1] is not None][:6]
    if len(good) < 3:
        if any(r["mismatches"] for r in sresults):
            return                      # the run is red anyway; the violations are reported
        raise MachineryError("self-test (scoped names): fewer than 3 accepted scoped cases with a coordinate and two inputs")
    vi = len(good) // 2
    rej, clauses = [], set()
    for n, (j, r) in enumerate(good):
        c = copy.deepcopy(j["case"])
        if n == vi:
            lv, other = other_input(c)
            c["den"][lv] = dict(c["inputs"])[other] if other not in c["den"] else c["den"][other]
        mm = compare(c, r["obs"])
        if mm:
            rej.append(n)
            clauses |= {m["clause"] for m in mm}
    ok = rej == [vi] and "coordinate-values" in clauses
    ctx.selftest("expected-value corruption (a scoped coordinate level given another input's value)", ok,
                 f"rejected={rej} expected=[{vi}] clauses={sorted(clauses)}")


def selftest_second(ctx: Ctx, bjobs: list[dict], bresults: list[dict]) -> None:
    """The second run is really judged against ITS inputs: accepted second-run observations must be rejected when judged
    against the first run's export (what a stale, memoised loader would return), on values only, and vice versa."""
    good = [(j, r) for j, r in zip(bjobs, bresults) if "obs" in r and not r["mismatches"] and "second" in r["obs"]
            and any(v["all"] and v["cands"] for v in j["case"]["views"])][:6]
    if len(good) < 3:
        if any(r["mismatches"] for r in bresults):
            return                      # the run is red anyway; the violations are reported
        raise MachineryError("self-test (second run): fewer than 3 accepted two-run histories with coordinates")
    swapped = [sorted({m["clause"] for m in compare(j["case"], r["obs"]["second"])}) for j, r in good]
    ok = all(cl and set(cl) <= {"coordinate-values", "variable-values", "selection", "sel-raises"} for cl in swapped)
    ctx.selftest("second-run observation judged against the FIRST run's export is rejected (values only)", ok, f"clauses={swapped}")
    straight = [compare(j["case_b"], r["obs"]["second"]) for j, r in good]
    ctx.selftest("second-run observation judged against its own export is accepted", all(not m for m in straight), "")


def renamed(v: dict) -> dict:
    """The same value with every atom renamed ("@a_0" -> "@B.a_0"): other input values of the same shapes."""
    if v["f"].startswith("@"):
        return {"f": "@B." + v["f"][1:], "a": []}
    return {"f": v["f"], "a": [renamed(x) for x in v["a"]]}


def rerun_items(rng: random.Random, cases: list[dict], n: int, base: int) -> list[dict]:
    """A seeded sample of universe cases to be run twice into the same folder; the second run's inputs B are the first
    run's with every atom renamed.  The expectation for B is exported by TLC (Mode = "file") like any other case."""
    with_coords = [k for k, c in enumerate(cases) if any(v["all"] and v["cands"] for v in c["views"])]
    rest = [k for k in range(len(cases)) if k not in set(with_coords)]
    pick = rng.sample(with_coords, min(len(with_coords), n - n // 8)) + rng.sample(rest, min(len(rest), n // 8))
    return [{"id": base + m, "desc": cases[k]["desc"], "inputs": [[nm, renamed(v)] for nm, v in cases[k]["inputs"]],
             "order": cases[k]["order"], "_k": k} for m, k in enumerate(sorted(pick))]


def random_items(rng: random.Random, n: int) -> list[dict]:
    items = []
    tries = 0
    while len(items) < n and tries < 20 * n:
        tries += 1
        case = gen_map.random_map_case(rng, rng.randint(1, 4))
        td = desc_to_tla(case["desc"])
        outs = {o for f in td["funcs"] for o in f["outputs"]}
        rank_ok = all(len(sp["axes"]) <= 2 for f in td["funcs"] if f["has_ms"] for sp in f["ms"]["ins"] if sp["name"] not in outs)
        if not rank_ok or not any(f["has_ms"] for f in td["funcs"]):
            continue     # mapped root inputs of rank <= 2 only (the property's quantifier); at least one MapSpec
        names = sorted({p for f in td["funcs"] for p in f["params"]} | outs)
        items.append({"id": len(items), "desc": td, "inputs": case["inputs"], "order": names, "_pdesc": case["desc"], "_kinds": case["kinds"]})
    return items


def run(ctx: Ctx) -> None:
    quick = ctx.tier == "quick"
    rng = random.Random(ctx.seed)
    ctx.rule = ("case = one Pipeline.map run (description, inputs, storage, container kind of 1-D inputs) with every xarray "
                "dataset the loaders offer (from results / loaded: all outputs; loaded: each single output) for "
                "load_intermediate on and off, plus one selection by value per coordinate; descriptions/inputs are ALL members of "
                "the TLA+-defined universe MC_XarrayLabels (= the C01 universe MC_MapDenote restricted to mapped inputs of rank "
                "<= 2: producer with 1-2 mapped inputs over axes i,j,k incl. ':', zip / outer product, every output axis order, "
                "internal axis at every position, optional 2nd output, generator; consumers none/element-wise/partial/full/zip "
                "with a fresh input) + ALL members of the multi-source family (MC_XarrayLabels Mode=sources: the last function "
                "zips 2-3 sources of one axis - root inputs, mapped arrays 1 and 2 steps from their roots, a rank-2 mapped array "
                "whole or reduced - in every order of the MapSpec) + members of the scoped-names family (MC_XarrayLabels Mode=scoped: "
                "universe cases with dotted names - all names / the root inputs / the outputs in one scope, root inputs in different "
                "scopes with a common last component, one input alone; XarrayLabels!LawRenamedAnalysis/LawRenamedCoords checked on "
                "each) + seeded random pipelines of 1-4 functions with mapped root inputs of rank <= 2 + a seeded "
                "sample of universe cases mapped twice into the same run folder with renamed input values (second run judged "
                "against its own inputs); "
                "non-trivial = the dataset has at least one coordinate and two datasets were compared")
    ctx.assumptions = ["TLC and the JSON/term encoding are trusted", "xarray's own semantics (merge(compat='override'), sel, "
                       "set_xindex, identical) are trusted", "values are opaque terms (object arrays); dtype coercions not modelled",
                       "in this xarray version a pd.MultiIndex given as (dims, index) becomes an object coordinate of tuples: the "
                       "projection reads one array per level either way", "sequential execution (parallel=False); zarr storages "
                       "cannot be imported in this sandbox", "every array that is mapped over is a root input or the output of a "
                       "function with a MapSpec (XarrayLabels!Supported)"]
    if quick:
        # quick: the half of the size-2 universe selected by the seed (MC_MapDenote's Shard/NShards), one storage per case
        # + the whole multi-source family (pairs from all 7 sources, triples from 5), whatever the seed
        # + every 31st <<universe case of that half, kind of renaming>> pair of the scoped-names family (all five kinds)
        with ThreadPoolExecutor(max_workers=4) as ex:
            fut = ex.submit(export_sources, ctx, minsize=2, maxsize=2, rich=False, nshards=2, par=2)
            fut2 = ex.submit(export_scoped, ctx, minsize=2, maxsize=2, nshards=2, shards=[ctx.seed % 2], thin=31,
                             phase=(ctx.seed // 2) % 31)
            cases = export_universe(ctx, minsize=2, maxsize=2, rich=False, nshards=2, par=1, only=ctx.seed % 2)
            sources = fut.result()
            scoped = fut2.result()
        jobs = jobs_for(cases, lambda k: [("dict", "file_array")[k % 2]], lambda k: [("ndarray", "list")[(k // 2) % 2]], keep=40,
                        every_single=False)
        ctx.extra["universe"] = (f"MC_XarrayLabels: Rich=FALSE sizes 2..2, shard {ctx.seed % 2} of 2 + multi-source family "
                                 "(Rich=FALSE, sizes 2..2, every order) + scoped-names family (every 31st pair of that shard)")
    else:
        # thorough: A. the rich universe, every axis of size 2; B. one eighth (selected by the seed) of the basic universe
        # with all mixes of sizes 1..2 and C. the basic universe with size 3; views as in quick (full dataset on/off + one
        # rotating one-output selection), one storage / container kind per case, alternating.  Random cases: every view.
        check_same_universe(ctx)
        cases = export_universe(ctx, minsize=2, maxsize=2, rich=True, nshards=8, par=4)
        jobs = jobs_for(cases, lambda k: [("dict", "file_array")[k % 2]], lambda k: [("ndarray", "list")[(k // 2) % 2]], keep=40,
                        every_single=False)
        more = export_universe(ctx, minsize=1, maxsize=2, rich=False, nshards=8, par=1, only=ctx.seed % 8)
        more += export_universe(ctx, minsize=3, maxsize=3, rich=False, nshards=2, par=2)
        jobs += jobs_for(more, lambda k: [("file_array", "dict")[k % 2]], lambda k: [("list", "ndarray")[(k // 2) % 2]],
                         every_single=False)
        cases += more
        sources = export_sources(ctx, minsize=1, maxsize=2, rich=True, nshards=6, par=6)
        scoped = export_scoped(ctx, minsize=2, maxsize=2, nshards=4, shards=[0, 1, 2, 3], thin=7, phase=ctx.seed % 7, par=4)
        ctx.extra["universe"] = (f"MC_XarrayLabels: Rich=TRUE sizes 2..2 (all shards) + Rich=FALSE sizes 1..2 shard {ctx.seed % 8} of 8 "
                                 "+ Rich=FALSE sizes 3..3 (all shards) + multi-source family (Rich=TRUE, sizes 1..2, every order) "
                                 "+ scoped-names family (Rich=FALSE sizes 2..2, every 7th <<case, renaming>> pair); "
                                 "SameUniverse checked for Rich=FALSE sizes 1..2")
    # the multi-source family: storage / container kind alternate with the position of the case, so that the orders of one
    # choice of sources (neighbours in no particular order) are spread over both
    jobs += jobs_for(sources, lambda k: [("dict", "file_array")[k % 2]], lambda k: [("list", "ndarray")[(k // 2) % 2]],
                     every_single=False)
    # the scoped-names family: the run folder is always read back (load_xarray_dataset); storage / container kind alternate
    sjobs = jobs_for(scoped, lambda k: [("file_array", "dict")[k % 2]], lambda k: [("list", "ndarray")[(k // 2) % 2]],
                     keep=len(scoped), every_single=False)
    first_scoped = len(jobs)
    jobs += sjobs
    for n, j in enumerate(jobs):
        j["k"] = n
    cases += sources
    cases += scoped
    ctx.extra["multi_source_cases"] = len(sources)
    ctx.extra["scoped_name_cases"] = {k: sum(1 for c in scoped if c["renaming"] == k) for k in sorted({c["renaming"] for c in scoped})}
    for c in cases:
        if c["order"] != sorted(c["order"]):
            raise MachineryError("universe name order is not alphabetical")
    results = run_jobs(jobs)
    for j, r in zip(jobs, results):
        ctx.case({"d": j["case"]["desc"], "i": j["case"]["inputs"], "s": j["storage"], "k": j["kinds"]}, nontrivial(r))
        ctx.traces_validated += 0 if r["mismatches"] else 1
        report(ctx, j, r)
    ctx.exhaustive = True
    ctx.extra["universe_cases"] = len(cases)
    ctx.extra["datasets_compared"] = sum(r["ndatasets"] for r in results)
    ctx.extra["selections_compared"] = sum(r["npicks"] for r in results)
    mid = jobs[len(jobs) // 2]
    v = next(v for v in mid["case"]["views"] if v["all"] and v["li"])
    ctx.sample({"mapspecs": [pmap.ms_string(f["ms"]) if f["has_ms"] else None for f in mid["case"]["desc"]["funcs"]],
                "storage": mid["storage"], "vars": {x["name"]: x["dims"] for x in v["vars"]},
                "coords": {c["name"]: c["axes"] for c in v["cands"]}, "acceptable": v["alts"]})
    selftest(ctx, jobs, results)
    selftest_scoped(ctx, jobs[first_scoped:], results[first_scoped:])

    # seeded random pipelines through the same model (Mode = "file"); in the same TLC runs: the expectations for the
    # second run (inputs B) of a seeded sample of universe cases that are mapped twice into the same run folder
    items = random_items(rng, 60 if quick else 800)
    RERUN = 1_000_000
    again = rerun_items(rng, cases, 40 if quick else 300, RERUN)
    exported = export_file_cases(ctx, [{k: v for k, v in it.items() if not k.startswith("_")} for it in items + again], "random",
                                 chunk=60 if quick else 250, par=2 if quick else 4)
    bjobs = []
    for it in again:
        a, b = cases[it["_k"]], exported[it["id"]]
        if not b["supported"]:
            raise MachineryError("a universe case with renamed input values is not supported")
        n = len(bjobs)
        bjobs.append({"k": n, "case": a, "case_b": b, "storage": ("dict", "file_array")[n % 2],
                      "kinds": {nm: ("ndarray", "list")[(n // 2) % 2] for nm, _ in a["inputs"]}, "keep_obs": n < 12,
                      "want": [[sorted(v["sel"]), v["li"]] for v in a["views"] if v["all"]]})
    bresults = run_jobs(bjobs)
    for j, r in zip(bjobs, bresults):
        if not r["second"] and not r["mismatches"]:
            raise MachineryError("two-run history: the second run was not observed")
        ctx.case({"d": j["case"]["desc"], "i": j["case"]["inputs"], "b": j["case_b"]["inputs"], "s": j["storage"], "k": j["kinds"]},
                 nontrivial(r))
        ctx.traces_validated += 0 if r["mismatches"] else 1
        report(ctx, j, r)
    ctx.extra["two_run_same_folder_histories"] = len(bjobs)
    ctx.extra["datasets_compared"] += sum(r["ndatasets"] for r in bresults)
    ctx.extra["selections_compared"] += sum(r["npicks"] for r in bresults)
    selftest_second(ctx, bjobs, bresults)
    rjobs = []
    skipped = 0
    for it in items:
        e = exported[it["id"]]
        if not e["supported"]:
            skipped += 1
            continue
        rjobs.append({"k": len(rjobs), "case": e, "pdesc": it["_pdesc"], "kinds": it["_kinds"],
                      "storage": ("dict", "file_array")[it["id"] % 2], "want": wanted_views(e, it["id"], not quick)})
    rresults = run_jobs(rjobs)
    for j, r in zip(rjobs, rresults):
        ctx.case({"d": j["case"]["desc"], "i": j["case"]["inputs"], "s": j["storage"], "k": j["kinds"]}, nontrivial(r))
        ctx.traces_validated += 0 if r["mismatches"] else 1
        report(ctx, j, r)
    ctx.extra["random_cases"] = len(rjobs)
    ctx.extra["random_outside_scope_skipped"] = skipped
    ctx.extra["datasets_compared"] += sum(r["ndatasets"] for r in rresults)
    ctx.extra["selections_compared"] += sum(r["npicks"] for r in rresults)
    if rjobs:
        ctx.sample({"random mapspecs": [pmap.ms_string(f["ms"]) if f["has_ms"] else None for f in rjobs[0]["case"]["desc"]["funcs"]]})


def replay(rep: dict) -> int:
    w = rep["witness"]
    ctx = Ctx(PROPERTY, "quick", 0)
    ctx.findings = []
    try:
        item = {"id": 0, "desc": w["desc"], "inputs": w["inputs"], "order": w["order"]}
        case = export_file_cases(ctx, [item], "replay", count=False)[0]
        if not case["supported"]:
            print("replay: case is outside the scope of XarrayLabels (Supported is false)")
            return 2
        job = {"k": 0, "case": case, "pdesc": w.get("pdesc"), "kinds": w["kinds"], "storage": w["storage"], "keep_obs": True,
               "want": None}
        if w.get("inputs_b") is not None:           # two-run history: second map into the same folder with inputs B
            job["case_b"] = export_file_cases(ctx, [dict(item, inputs=w["inputs_b"])], "replay_b", count=False)[0]
            job["want"] = [[sorted(v["sel"]), v["li"]] for v in case["views"] if v["all"]]
        res = work(job)
        for m in res["mismatches"]:
            print({k: v for k, v in m.items() if k != "msg"})
        want = signature(w["mismatch"], w["desc"])
        hit = any(signature(m, w["desc"]) == want for m in res["mismatches"])
        print("replay:", "VIOLATION reproduced" if hit else ("other mismatches" if res["mismatches"] else "datasets accepted"))
        return 1 if res["mismatches"] else 0
    finally:
        ctx.cleanup()
