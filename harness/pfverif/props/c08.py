"""C08 - MapSpec parsing, printing, shapes and index maps are mutually consistent.

Specification: spec/MapSpecSem.tla (AST, WellFormed, token-level PrintMS/ParseMS, Shape, OutputKey, InputKeys,
Rename, AddAxes, objects / histories and the laws).  Model-checking instance: spec/MC_MapSpecSem.tla (mechanism A,
universe export; part his: mechanism B, histories).

1. TLC enumerates the universes defined in MC_MapSpecSem (parts sem / syn / bad / tok / his, sharded over processes),
   checks every law as an invariant per case and prints the expected results (one JSON line per case).
2. This module builds the real `pipefunc.map.MapSpec` for every case and compares `str`, `from_string` (with
   whitespace rendered into every position the grammar tolerates), `shape`, `output_key` / `input_keys` for ALL
   linear indices, `rename`, `add_axes`, and the rejection of malformed specs with the exported values.
3. Where the specification leaves the outcome open ("rejected, or accepted as a well-formed MapSpec": token
   sequences outside the grammar, irregular specs) the MapSpecs that the code returned are written to a file and
   judged by TLC (part acc: `Violations`).
4. Histories (part his, a small state machine in MC_MapSpecSem): every order of "read the attributes", "shape + all
   keys", `from_string(str(.))`, `add_axes`, `rename` up to a length bound is realised on ONE real object and the objects
   derived from it; whatever was called before, every object of the history must answer as MapSpecSem.Observe says
   for its AST (a MapSpec is an immutable value: caches inside the object may never show).
5. An arrow count other than one (MapSpecSem.TextMustReject, ArrowMutants: chained `a -> b -> c`, trailing / leading /
   doubled arrow, ...) is excepted from the leniency of 3: such texts must be rejected, with any whitespace.
7. shape() takes MAPPINGS keyed by name: MapSpecSem.Presentations enumerates every insertion order of input_shapes x
   internal_shapes (LawShapeByName: the outcome is the same for all of them, also for mismatching shapes and for the
   shapes of two inputs exchanged); the harness builds exactly these dicts, entry by entry, and calls shape() on each.
6. Mechanism C: seeded random specs larger than the universes are run through the real code, the observations
   are recorded and TLC judges them with the same operators (part rec).

Python only renders tokens to characters, builds objects, calls the code and compares values with what TLC
printed; it never decides what the right answer is.
"""
from __future__ import annotations

import copy
import json
import multiprocessing as mp
import os
import random
import threading
import time
from concurrent.futures import ProcessPoolExecutor, ThreadPoolExecutor
from typing import Any

from ..ctx import Ctx
from ..tlc import MachineryError, run_tlc

PROPERTY = "C08"
LEVEL = "model_checking"
MODULE = "MC_MapSpecSem"

WS = " "  # the whitespace token of MapSpecSem
COLON = ":"
ALL = -1
RAISED = -2  # recorded in place of a key when the call raised

INVARIANTS = ("InvUniverse InvRoundTrip InvWhitespace InvArrow InvRename InvAddAxes InvShape InvShapeByName InvOutputKey InvInputKeys "
              "InvRenameDenotes InvAddAxesDenotes InvHistory Emit")

CFG = """SPECIFICATION Spec
CONSTANTS Part = "{part}" Shard = {shard} NShards = {nshards}
          MaxIn = {MaxIn} SortFrom = {SortFrom} MaxDim = {MaxDim} BigIn = {BigIn} BigDim = {BigDim} MaxAxes = {MaxAxes} BigAxes = {BigAxes}
          LawDim = {LawDim} MutIn = {MutIn} MutRank = {MutRank}
          TokIn = {TokIn} TokRank = {TokRank} TokR = {TokR} TokMod = {TokMod}
          HisIn = {HisIn} HisRank = {HisRank} HisR = {HisR} HisLen = {HisLen} HisMod = {HisMod}
INVARIANT {invs}
"""

# Universe bounds per tier (constants of MC_MapSpecSem) and the number of TLC processes per part.
TIERS: dict[str, dict[str, Any]] = {
    "quick": {
        "const": {"MaxIn": 3, "SortFrom": 2, "MaxDim": 3, "BigIn": 3, "BigDim": 3, "MaxAxes": 5, "BigAxes": 3, "LawDim": 2,
                  "MutIn": 2, "MutRank": 2, "TokIn": 2, "TokRank": 2, "TokR": 2, "TokMod": 16,
                  "HisIn": 2, "HisRank": 2, "HisR": 2, "HisLen": 3, "HisMod": 7},
        "shards": {"sem": 10, "syn": 7, "bad": 2, "tok": 1, "his": 4},
        "n_rec": 400,
    },
    "thorough": {
        "const": {"MaxIn": 3, "SortFrom": 3, "MaxDim": 4, "BigIn": 3, "BigDim": 3, "MaxAxes": 6, "BigAxes": 6, "LawDim": 3,
                  "MutIn": 2, "MutRank": 3, "TokIn": 2, "TokRank": 2, "TokR": 3, "TokMod": 2,
                  "HisIn": 2, "HisRank": 2, "HisR": 3, "HisLen": 3, "HisMod": 3},
        "shards": {"sem": 40, "syn": 8, "bad": 8, "tok": 8, "his": 16},
        "n_rec": 20000,
    },
}

WS_MODES = ("none", "single", "blank", "newline_outside", "newline_inside", "exotic")
_BLANK = ["", " ", "  ", "\t", " \t "]
_NL = ["\n", " \n", "\r\n ", "\n\n"]
_EXOTIC = ["\u00a0", "\u2003", "\x0c", "\u3000 "]  # str.isspace() runs beyond ASCII blank/tab


# ------------------------------------------------------------------------------------------------
# encode / decode between the AST of MapSpecSem and the real classes
def build(ast: dict):
    """The real MapSpec for an AST (the constructor path: ArraySpec / MapSpec __post_init__ run)."""
    from pipefunc.map._mapspec import ArraySpec, MapSpec

    def arr(a: dict):
        return ArraySpec(a["name"], tuple(None if x == COLON else x for x in a["axes"]))

    return MapSpec(tuple(arr(a) for a in ast["ins"]), tuple(arr(a) for a in ast["outs"]))


def decode(ms) -> dict:
    def arr(a) -> dict:
        return {"name": a.name, "axes": [COLON if x is None else x for x in a.axes]}

    return {"ins": [arr(a) for a in ms.inputs], "outs": [arr(a) for a in ms.outputs]}


def ast_str(ast: dict) -> str:
    """Compact rendering for messages and case keys (not compared with anything)."""
    def arr(a: dict) -> str:
        return f"{a['name']}[{','.join(a['axes'])}]"

    return f"{', '.join(arr(a) for a in ast['ins']) or '...'} -> {', '.join(arr(a) for a in ast['outs'])}"


def lexical_class(name: str) -> str:
    """'ident' | 'scoped' | 'bad' by the documented definition (str.isidentifier)."""
    if name.isidentifier():
        return "ident"
    if name.count(".") == 1:
        scope, base = name.split(".")
        if scope.isidentifier() and base.isidentifier():
            return "scoped"
    return "bad"


def names_lexicon(ast: dict) -> tuple[list[str], list[str]]:
    names = {a["name"] for a in ast["ins"] + ast["outs"]} | {x for a in ast["ins"] + ast["outs"] for x in a["axes"]}
    idents = sorted(n for n in names if lexical_class(n) == "ident")
    scoped = sorted(n for n in names if lexical_class(n) == "scoped")
    return idents, scoped


def render(tokens: list[str], mode: str, rng: random.Random) -> str:
    """Token sequence -> characters.  Every token is its own text; a WS token becomes a whitespace run chosen by
    `mode` ('canonical': one space; the other modes may also render it as the empty run, which is only used on
    the `gaps` sequences, where every WS is optional)."""
    if mode == "canonical":
        return "".join(tokens)
    out: list[str] = []
    depth = 0
    forced = False
    for t in tokens:
        if t != WS:
            depth += t == "["
            depth -= t == "]"
            out.append(t)
            continue
        inside = depth > 0
        if mode == "none":
            run = ""
        elif mode == "single":
            run = " "
        elif mode == "blank":
            run = rng.choice(_BLANK)
        elif mode == "exotic":
            run = rng.choice(_EXOTIC + _BLANK)
        elif mode == "newline_outside":
            if inside:
                run = rng.choice(_BLANK)
            else:
                run = rng.choice(_NL + _BLANK) if forced else _NL[0]
                forced = True
        elif mode == "newline_inside":
            if not inside:
                run = rng.choice(_BLANK)
            else:
                run = rng.choice(_NL + _BLANK) if forced else _NL[0]
                forced = True
        else:
            raise ValueError(mode)
        out.append(run)
    return "".join(out)


def call(fn, *a, **k) -> tuple[str, Any]:
    """('value', result) or ('raise:<Class>', message)."""
    try:
        return "value", fn(*a, **k)
    except Exception as e:  # noqa: BLE001  a raise is an outcome
        return f"raise:{type(e).__name__}", str(e)[:200]


def mappings(pres: dict) -> tuple[dict, dict | None]:
    """The real arguments of shape() for one exported presentation (MapSpecSem.Presentations): dicts whose insertion
    order is the order of the entries; no internal entries = internal_shapes not passed."""
    input_shapes = {}
    for e in pres["pin"]:
        input_shapes[e["name"]] = tuple(e["shape"])
    internal = None
    if pres["pint"]:
        internal = {}
        for e in pres["pint"]:
            internal[e["name"]] = tuple(e["shape"])
    return input_shapes, internal


def _key_py(key: list[int]) -> tuple:
    return tuple(slice(None) if v == ALL else v for v in key)


def _feat(ast: dict) -> dict:
    arrays = ast["ins"] + ast["outs"]
    used = {x for a in ast["ins"] for x in a["axes"] if x != COLON}
    return {"n_inputs": len(ast["ins"]), "n_outputs": len(ast["outs"]),
            "has_colon": any(COLON in a["axes"] for a in ast["ins"]),
            "scoped": any("." in a["name"] for a in arrays),
            "internal_axes": bool(ast["outs"]) and any(x not in used for x in ast["outs"][0]["axes"])}


# ------------------------------------------------------------------------------------------------
# comparators: one exported case -> (mismatches, open outcomes for the second pass)
class Result:
    __slots__ = ("mism", "open", "key", "nontrivial", "calls")

    def __init__(self) -> None:
        self.mism: list[dict] = []   # {"sig":..., "what":..., "witness":...}
        self.open: list[dict] = []   # {"src":..., "text":..., "ms": AST returned by the code}
        self.key = ""
        self.nontrivial = True
        self.calls = 0

    def bad(self, sig: dict, what: str, case: dict, out: dict, **extra: Any) -> None:
        self.mism.append({"sig": sig, "what": what, "witness": {"case": case, "expected": out, **extra}})


def _from_string(text: str):
    from pipefunc.map import MapSpec

    return call(MapSpec.from_string, text)


def cmp_sem(c: dict, o: dict, seed: int, res: Result) -> None:
    ast = c["m"]
    f = _feat(ast)
    res.key = f"sem|{ast_str(ast)}|{c['insh']}|{c['internal']}"
    sh = o["shape"]
    res.nontrivial = (not sh["ok"]) or (o["n"] >= 2 and (len(o["ext"]) >= 2 or f["has_colon"] or f["internal_axes"]))
    how, ms = call(build, ast)
    if how != "value":
        res.bad({"check": "construct", "fn": "MapSpec.__init__", "got": how}, f"well-formed {ast_str(ast)} refused: {ms}", c, o)
        return
    # round trip of the canonical string
    how, back = _from_string(str(ms))
    if how != "value" or not (back == ms) or decode(back) != ast:
        res.bad({"check": "roundtrip", "fn": "MapSpec.from_string", "ws": "canonical", "got": how if how != "value" else "wrong_ast",
                 "scoped": f["scoped"]}, f"from_string(str(m)) != m for {ast_str(ast)}", c, o, text=str(ms))
    # shape: the arguments are MAPPINGS; out.calls presents them in every insertion order (MapSpecSem.Presentations,
    # the first in the order of the MapSpec) and out.shape is the expected outcome of every one of these calls
    in_names = [a["name"] for a in ast["ins"]]
    if not o["calls"]:
        raise MachineryError(f"sem case {res.key}: no presentation of the shape() arguments exported")
    failed = False
    for q, pres in enumerate(o["calls"]):
        input_shapes, internal = mappings(pres)
        how, got = call(ms.shape, input_shapes, internal)
        res.calls += 1
        ssig = {"check": "shape", "fn": "MapSpec.shape", "mut": c["mut"], "err": sh["err"], "internal_axes": f["internal_axes"],
                "n_inputs": f["n_inputs"], "order": "mapspec" if q == 0 else ("inputs_permuted" if not pres["inorder"] else "outputs_permuted")}
        if sh["ok"]:
            want = (tuple(sh["shape"]), tuple(sh["mask"]))
            if how != "value":
                res.bad({**ssig, "expect": "value", "got": how},
                        f"shape({input_shapes}, {internal}) raised {how} ({got}), expected {want} for {ast_str(ast)}", c, o, call=q)
                failed = True
            elif got != want:
                res.bad({**ssig, "expect": "value", "got": "wrong_value"},
                        f"shape({input_shapes}, {internal}) = {got}, expected {want} for {ast_str(ast)}", c, o, call=q)
                failed = True
        elif how == "value":
            res.bad({**ssig, "expect": "raise", "got": "value"},
                    f"shape({input_shapes}, {internal}) = {got}, expected a {sh['err']} error for {ast_str(ast)}", c, o, call=q)
            failed = True
        elif not how.startswith("raise:ValueError"):       # "raising on rank or zipped-dimension mismatch": the documented refusal
            res.bad({**ssig, "expect": "raise", "got": how},
                    f"shape({input_shapes}, {internal}) raised {how} ({got}), expected the {sh['err']} refusal (ValueError) for {ast_str(ast)}",
                    c, o, call=q)
            failed = True
        if failed:
            break          # one witness per case
    if failed or not sh["ok"]:
        return
    # keys for every linear index
    ext = tuple(o["ext"])
    for l in range(o["n"]):
        how, k = call(ms.output_key, ext, l)
        res.calls += 1
        want_k = tuple(o["okeys"][l])
        if how != "value" or k != want_k:
            res.bad({"check": "output_key", "fn": "MapSpec.output_key", "got": how if how != "value" else "wrong_value",
                     "internal_axes": f["internal_axes"], "n_inputs": f["n_inputs"]},
                    f"output_key({ext}, {l}) = {k if how == 'value' else how}, expected {want_k} for {ast_str(ast)}", c, o, l=l)
            break
        how, ik = call(ms.input_keys, ext, l)
        res.calls += 1
        want_ik = {n: _key_py(key) for n, key in zip(in_names, o["ikeys"][l])}
        if how != "value" or ik != want_ik:
            res.bad({"check": "input_keys", "fn": "MapSpec.input_keys", "got": how if how != "value" else "wrong_value",
                     "internal_axes": f["internal_axes"], "has_colon": f["has_colon"], "n_inputs": f["n_inputs"]},
                    f"input_keys({ext}, {l}) = {ik if how == 'value' else how}, expected {want_ik} for {ast_str(ast)}", c, o, l=l)
            break


def cmp_syn(c: dict, o: dict, seed: int, res: Result) -> None:
    ast = c["m"]
    f = _feat(ast)
    res.key = f"syn|{ast_str(ast)}"
    res.nontrivial = f["n_inputs"] >= 1
    how, ms = call(build, ast)
    if how != "value":
        res.bad({"check": "construct", "fn": "MapSpec.__init__", "got": how}, f"well-formed {ast_str(ast)} refused: {ms}", c, o)
        return
    canonical = render(o["toks"], "canonical", random.Random(0))
    if str(ms) != canonical or ms.to_string() != canonical:
        res.bad({"check": "str", "fn": "MapSpec.__str__", "scoped": f["scoped"], "has_colon": f["has_colon"], "n_inputs": f["n_inputs"]},
                f"str(m) = {str(ms)!r}, expected {canonical!r}", c, o)
    # from_string on the canonical text and with whitespace in every tolerated position
    for mode in ("canonical", *WS_MODES):
        rng = random.Random(f"{seed}|{res.key}|{mode}")
        text = str(ms) if mode == "canonical" else render(o["gaps"], mode, rng)   # from_string(str(m)) == m
        how, back = _from_string(text)
        res.calls += 1
        if how == "value" and back == ms and decode(back) == ast:
            continue
        got = how if how != "value" else "wrong_ast"
        res.bad({"check": "roundtrip" if mode == "canonical" else "parse_ws", "fn": "MapSpec.from_string", "ws": mode, "got": got,
                 "scoped": f["scoped"]},
                f"from_string({text!r}) -> {ast_str(decode(back)) if how == 'value' else how}, expected {ast_str(ast)}", c, o,
                text=text, ws=mode)
    # the arrow count: every arrow mutant of str(m) must be rejected, without whitespace and with whitespace everywhere
    for a in o["arrows"]:
        for mode in ("canonical", "single", "blank", "newline_outside"):
            rng = random.Random(f"{seed}|{res.key}|{a['t']}|{mode}")
            text = render(a["toks"], "canonical", rng) if mode == "canonical" else render(a["gaps"], mode, rng)
            how, back = _from_string(text)
            res.calls += 1
            if how == "value":
                res.bad({"check": "reject_malformed", "fn": "MapSpec.from_string", "rules": "arrow_count", "arrows": a["arrows"],
                         "mut": a["t"], "got": "accepted"},
                        f"text with {a['arrows']} arrows ({a['t']}) accepted: {text!r} -> {ast_str(decode(back))}", c, o, text=text)
                break
    # rename
    for q, r in enumerate(o["ren"]):
        how, got = call(ms.rename, {old: new for old, new in r["r"]})
        res.calls += 1
        if how != "value" or decode(got) != r["ms"]:
            res.bad({"check": "rename", "fn": "MapSpec.rename", "arg": q, "got": how if how != "value" else "wrong_ast", "scoped": f["scoped"]},
                    f"{ast_str(ast)}.rename({r['r']}) -> {ast_str(decode(got)) if how == 'value' else how}, expected {ast_str(r['ms'])}",
                    c, o, arg=r["r"])
    # add_axes
    for q, a in enumerate(o["add"]):
        how, got = call(ms.add_axes, *[None if x == COLON else x for x in a["axs"]])
        res.calls += 1
        sig = {"check": "add_axes", "fn": "MapSpec.add_axes", "arg": q, "expect": "value" if a["ok"] else "raise", "n_inputs": f["n_inputs"]}
        if a["ok"]:
            if how != "value" or decode(got) != a["ms"]:
                res.bad({**sig, "got": how if how != "value" else "wrong_ast"},
                        f"{ast_str(ast)}.add_axes({a['axs']}) -> {ast_str(decode(got)) if how == 'value' else how}, expected {ast_str(a['ms'])}",
                        c, o, arg=a["axs"])
        elif how == "value":
            res.bad({**sig, "got": "value"}, f"{ast_str(ast)}.add_axes({a['axs']}) accepted as {ast_str(decode(got))}, expected a refusal",
                    c, o, arg=a["axs"])


def _rules(why: list[str]) -> str:
    return "+".join(sorted(why))


def cmp_bad(c: dict, o: dict, seed: int, res: Result) -> None:
    ast = c["m"]
    res.key = f"bad|{c['mut']}|{ast_str(ast)}"
    rules = _rules(o["why"])
    how, ms = call(build, ast)
    res.calls += 1
    if how == "value":
        res.bad({"check": "reject_malformed", "fn": "MapSpec.__init__", "rules": rules, "got": "accepted"},
                f"malformed MapSpec ({rules}) accepted by the constructor: {ast_str(ast)}", c, o)
    if not o["printable"]:
        return
    text = render(o["toks"], "canonical", random.Random(0))
    how, back = _from_string(text)
    res.calls += 1
    if how != "value":
        return
    if o["ingrammar"]:
        res.bad({"check": "reject_malformed", "fn": "MapSpec.from_string", "rules": rules, "got": "accepted"},
                f"malformed MapSpec text ({rules}) accepted: {text!r} -> {ast_str(decode(back))}", c, o, text=text)
    else:  # a name token outside the lexical classes: the spec only requires rejected-or-well-formed
        res.open.append({"src": {"kind": "bad", "mut": c["mut"], "rules": rules}, "text": text, "ms": decode(back)})


def cmp_tok(c: dict, o: dict, seed: int, res: Result) -> None:
    text = render(c["toks"], "canonical", random.Random(0))
    res.key = f"tok|{text}"
    how, back = _from_string(text)
    res.calls += 1
    if o["must_reject"]:                                    # arrow count != 1: no leniency
        if how == "value":
            res.bad({"check": "reject_malformed", "fn": "MapSpec.from_string", "rules": "arrow_count", "arrows": o["arrows"],
                     "mut": c["mut"], "got": "accepted"},
                    f"text with {o['arrows']} arrows accepted: {text!r} -> {ast_str(decode(back))}", c, o, text=text)
    elif o["ok"] and not o["why"] and o["regular"]:        # a sentence with a well-formed regular AST: exact
        if how != "value" or decode(back) != o["ms"]:
            res.bad({"check": "parse_tokens", "fn": "MapSpec.from_string", "mut": c["mut"], "got": how if how != "value" else "wrong_ast"},
                    f"from_string({text!r}) -> {ast_str(decode(back)) if how == 'value' else how}, expected {ast_str(o['ms'])}", c, o, text=text)
    elif o["ok"] and o["why"]:                              # a sentence with a malformed AST: rejected
        if how == "value":
            res.bad({"check": "reject_malformed", "fn": "MapSpec.from_string", "rules": _rules(o["why"]), "got": "accepted"},
                    f"malformed MapSpec text ({_rules(o['why'])}) accepted: {text!r} -> {ast_str(decode(back))}", c, o, text=text)
    elif how == "value":                                    # outside the grammar, or irregular: open outcome
        res.open.append({"src": {"kind": "tok", "mut": c["mut"], "sentence": o["ok"]}, "text": text, "ms": decode(back)})


def _observe(ms, obj: dict, parts: tuple[str, ...]) -> tuple[str, str, str] | None:
    """Compare what the real object `ms` answers with the exported observation of `obj`; the first difference as
    (method, got, detail) or None.  parts: 'ast' (fields, str), 'attr' (derived attributes), 'keys' (shape + all keys)."""
    ast, obs = obj["m"], obj["obs"]
    if "ast" in parts:
        how, got = call(decode, ms)
        if how != "value" or got != ast:
            return "fields", how if how != "value" else "wrong_ast", f"object is {ast_str(got) if how == 'value' else how}, expected {ast_str(ast)}"
        want = "".join(obs["toks"])
        how, got = call(str, ms)
        if how != "value" or got != want:
            return "__str__", how if how != "value" else "wrong_value", f"str() = {got!r}, expected {want!r}"
    if "attr" in parts:
        for attr, want, conv in (("input_names", obs["in_names"], list), ("output_names", obs["out_names"], list),
                                 ("output_indices", obs["out_idx"], list), ("external_indices", obs["ext_idx"], list),
                                 ("input_indices", sorted(obs["in_idx"]), sorted)):
            how, got = call(lambda: conv(getattr(ms, attr)))
            if how != "value" or got != list(want):
                return attr, how if how != "value" else "wrong_value", f"{attr} = {got}, expected {list(want)} for {ast_str(ast)}"
    if "keys" in parts:
        sh = obs["shape"]
        in_names = [a["name"] for a in ast["ins"]]
        input_shapes = {n: tuple(s) for n, s in zip(in_names, obj["insh"])}
        internal = {a["name"]: tuple(obj["internal"]) for a in ast["outs"]} if obj["internal"] else None
        want = (tuple(sh["shape"]), tuple(sh["mask"]))
        how, got = call(ms.shape, input_shapes, internal)
        if how != "value" or got != want:
            return "shape", how if how != "value" else "wrong_value", f"shape({input_shapes}, {internal}) = {got}, expected {want} for {ast_str(ast)}"
        ext = tuple(obs["ext"])
        for l in range(obs["n"]):
            how, k = call(ms.output_key, ext, l)
            want_k = tuple(obs["okeys"][l])
            if how != "value" or k != want_k:
                return "output_key", how if how != "value" else "wrong_value", f"output_key({ext}, {l}) = {k}, expected {want_k} for {ast_str(ast)}"
            how, ik = call(ms.input_keys, ext, l)
            want_ik = {n: _key_py(key) for n, key in zip(in_names, obs["ikeys"][l])}
            if how != "value" or ik != want_ik:
                return "input_keys", how if how != "value" else "wrong_value", f"input_keys({ext}, {l}) = {ik}, expected {want_ik} for {ast_str(ast)}"
    return None


def _op_str(op: dict) -> str:
    if op["t"] == "add":
        return f"add_axes({', '.join(op['axs'])})"
    if op["t"] == "ren":
        return f"rename({ {a: b for a, b in op['pairs']} })"
    return {"attr": "read attributes", "keys": "shape + all keys", "reparse": "from_string(str(.))"}[op["t"]]


def cmp_his(c: dict, o: dict, seed: int, res: Result) -> None:
    """Mechanism B: realise one history on real objects.  The operations are applied one after the other to the
    current (last derived) object; at the end EVERY object of the history is observed completely."""
    from pipefunc.map import MapSpec

    objs, ops = o["objs"], c["ops"]
    res.key = f"his|{ast_str(objs[0]['m'])}|{'; '.join(_op_str(op) for op in ops)}"
    res.nontrivial = any(op["t"] in ("add", "ren", "reparse") for op in ops) and any(op["t"] in ("attr", "keys") for op in ops)
    how, ms = call(build, objs[0]["m"])
    if how != "value":
        res.bad({"check": "construct", "fn": "MapSpec.__init__", "got": how}, f"well-formed {ast_str(objs[0]['m'])} refused: {ms}", c, o)
        return
    real = [ms]
    made_by = ["construct"]      # how object k came about
    used_before = [False]        # had an ancestor of object k been used (attr / keys) before k was derived from it
    used = False

    def bad(k: int, when: str, diff: tuple[str, str, str]) -> None:
        meth, got, detail = diff
        res.bad({"check": "history", "fn": f"MapSpec.{meth}", "made_by": made_by[k], "used_before_derive": used_before[k],
                 "when": when, "got": got},
                f"after [{'; '.join(_op_str(op) for op in ops)}] on {ast_str(objs[0]['m'])}: object {k} ({made_by[k]}): {detail}",
                c, o, obj=k)

    for op in ops:
        cur = real[-1]
        k = len(real) - 1
        res.calls += 1
        if op["t"] in ("attr", "keys"):
            used = True
            diff = _observe(cur, objs[k], (op["t"],))
            if diff:
                bad(k, "on_the_way", diff)
                return
            continue
        if op["t"] == "add":
            how, new = call(cur.add_axes, *op["axs"])
        elif op["t"] == "ren":
            how, new = call(cur.rename, {a: b for a, b in op["pairs"]})
        else:
            how, new = call(lambda: MapSpec.from_string(str(cur)))
        if how != "value":
            res.bad({"check": "history", "fn": {"add": "MapSpec.add_axes", "ren": "MapSpec.rename", "reparse": "MapSpec.from_string"}[op["t"]],
                     "made_by": op["t"], "used_before_derive": used, "when": "derive", "got": how},
                    f"after [{'; '.join(_op_str(x) for x in ops)}] on {ast_str(objs[0]['m'])}: {_op_str(op)} raised {how}: {new}", c, o)
            return
        real.append(new)
        made_by.append(op["t"])
        used_before.append(used)
    if len(real) != len(objs):
        raise MachineryError(f"history {res.key}: {len(real)} real objects, {len(objs)} exported")
    for k, ms_k in enumerate(real):        # every object, the earlier ones too: deriving from an object leaves it as it was
        diff = _observe(ms_k, objs[k], ("ast", "attr", "keys"))
        res.calls += 1
        if diff:
            bad(k, "final", diff)
            return
        for j in range(k):                 # equality is equality of the values
            if (real[j] == ms_k) != (objs[j]["m"] == objs[k]["m"]):
                bad(k, "final", ("__eq__", "wrong_value", f"object {j} == object {k} is {real[j] == ms_k}, the ASTs are "
                                 f"{ast_str(objs[j]['m'])} and {ast_str(objs[k]['m'])}"))
                return


COMPARATORS = {"sem": cmp_sem, "syn": cmp_syn, "bad": cmp_bad, "tok": cmp_tok, "his": cmp_his}


def compare_case(rec: dict, seed: int) -> Result:
    res = Result()
    c, o = rec["c"], rec["o"]
    try:
        COMPARATORS[c["kind"]](c, o, seed, res)
    except Exception as e:  # noqa: BLE001  every call of the code goes through call(); what is left is a returned value the
        # comparator cannot even decode (e.g. not a MapSpec): a result that differs from the expected one
        res.key = res.key or json.dumps(c, sort_keys=True)[:200]
        res.bad({"check": "undecodable_result", "fn": "MapSpec", "kind": c["kind"], "exc": type(e).__name__},
                f"result of the implementation could not be decoded: {type(e).__name__}: {e}", c, o)
    return res


# ------------------------------------------------------------------------------------------------
# parallel drivers
_PREFIX = '<<"CASE", '


def parse_case_line(line: str) -> dict | None:
    line = line.strip()
    if not line.startswith(_PREFIX):
        return None
    return json.loads(json.loads(line[len(_PREFIX):-2]))


def _compare_chunk(args: tuple[list[str], int]) -> dict:
    lines, seed = args
    mism: list[dict] = []
    opens: list[dict] = []
    keys: list[tuple[str, bool]] = []
    calls = 0
    kinds: dict[str, int] = {}
    for ln in lines:
        rec = parse_case_line(ln)
        if rec is None:
            continue
        r = compare_case(rec, seed)
        mism += r.mism
        opens += r.open
        keys.append((r.key, r.nontrivial))
        calls += r.calls
        k = rec["c"]["kind"]
        kinds[k] = kinds.get(k, 0) + 1
    return {"mism": mism, "open": opens, "keys": keys, "calls": calls, "kinds": kinds}


def compare_lines(lines: list[str], seed: int, procs: int = 16) -> dict:
    if not lines:
        return {"mism": [], "open": [], "keys": [], "calls": 0, "kinds": {}}
    n = max(1, min(4000, len(lines) // (procs * 4) + 1))
    chunks = [(lines[i:i + n], seed) for i in range(0, len(lines), n)]
    total: dict = {"mism": [], "open": [], "keys": [], "calls": 0, "kinds": {}}
    with ProcessPoolExecutor(min(procs, os.cpu_count() or 4), mp_context=mp.get_context("fork")) as pool:
        for r in pool.map(_compare_chunk, chunks):
            total["mism"] += r["mism"]
            total["open"] += r["open"]
            total["keys"] += r["keys"]
            total["calls"] += r["calls"]
            for k, v in r["kinds"].items():
                total["kinds"][k] = total["kinds"].get(k, 0) + v
    return total


def cfg_text(part: str, shard: int, nshards: int, const: dict) -> str:
    return CFG.format(part=part, shard=shard, nshards=nshards, invs=INVARIANTS, **const)


# every case is an initial state (computed by TLC's main thread): parallelism comes from running many single-worker
# TLC processes, so each JVM is kept to few GC/JIT threads; short runs gain nothing from the C2 compiler.
JVM_SHORT = "-XX:ParallelGCThreads=2 -XX:TieredStopAtLevel=1"
JVM_LONG = "-XX:ParallelGCThreads=2 -XX:CICompilerCount=2"
_LOCK = threading.Lock()


def run_part(ctx: Ctx, part: str, shard: int, nshards: int, const: dict, env: dict | None = None, name: str = ""):
    wd = ctx.workdir(f"tlc_{name or part}_{shard}")
    e = {"JAVA_TOOL_OPTIONS": JVM_SHORT if (ctx.tier == "quick" or part in ("acc", "rec")) else JVM_LONG, **(env or {})}
    r = run_tlc(MODULE, cfg_text(part, shard, nshards, const), wd, workers=1, heap="2g", env=e,
                timeout=3000, allow_violation=False)  # a violated law = the specification is inconsistent: machinery
    return r


def add_tlc(ctx: Ctx, r, what: str) -> None:
    with _LOCK:
        ctx.add_tlc(r, what)


def check_lexicon(prints: list[str]) -> None:
    """The lexical classes the model assumes must be Python's (TLA+ never looks inside a string)."""
    for ln in prints:
        if ln.startswith('<<"LEX", '):
            lex = json.loads(json.loads(ln.strip()[len('<<"LEX", '):-2]))
            wrong = ([n for n in lex["idents"] if lexical_class(n) != "ident"] + [n for n in lex["scoped"] if lexical_class(n) != "scoped"]
                     + [n for n in lex["badarr"] if lexical_class(n) != "bad"] + [n for n in lex["badidx"] if lexical_class(n) == "ident"])
            if wrong:
                raise MachineryError(f"lexicon of MC_MapSpecSem disagrees with str.isidentifier on {wrong}")
            return
    raise MachineryError("MC_MapSpecSem printed no LEX line")


# ------------------------------------------------------------------------------------------------
# second pass (part acc) and recorded observations (part rec): TLC judges what the code returned
def tlc_judge(ctx: Ctx, part: str, records: list[dict], const: dict, name: str, count: bool = True) -> dict[int, list[str]]:
    """Write records (each with an integer `id`) to ndjson files, let TLC evaluate them, return {id: why} for ALL ids."""
    if not records:
        return {}
    chunk = 5000
    chunks = [records[i:i + chunk] for i in range(0, len(records), chunk)]

    def one(ci: int):
        wd = ctx.workdir(f"tlc_{name}_{ci}")
        f = wd / "records.ndjson"
        with f.open("w") as fh:
            for r in chunks[ci]:
                fh.write(json.dumps(r, separators=(",", ":")) + "\n")
        return run_part(ctx, part, 0, 1, const, env={"ACC_FILE": str(f)}, name=f"{name}{ci}")

    verdict: dict[int, list[str]] = {}
    with ThreadPoolExecutor(max_workers=8) as ex:
        for ci, r in enumerate(ex.map(one, range(len(chunks)))):
            if count:
                add_tlc(ctx, r, f"{MODULE} part={part} {name} chunk {ci} ({len(chunks[ci])} records)")
            for ln in r.prints:
                rec = parse_case_line(ln)
                if rec is not None:
                    verdict[rec["c"]["id"]] = rec["o"]["why"]
    missing = [r["id"] for r in records if r["id"] not in verdict]
    if missing:
        raise MachineryError(f"part {part}: TLC returned no verdict for records {missing[:5]} ({len(missing)} missing)")
    return verdict


def judge_open(ctx: Ctx, opens: list[dict], const: dict, name: str = "acc", count: bool = True) -> list[dict]:
    """MapSpecs the code returned where the spec leaves the outcome open: must be well-formed (TLC decides)."""
    uniq: dict[str, dict] = {}
    for op in opens:
        k = json.dumps(op["ms"], sort_keys=True)
        uniq.setdefault(k, {"ms": op["ms"], "srcs": []})["srcs"].append(op)
    records = []
    for i, (k, u) in enumerate(sorted(uniq.items())):
        idents, scoped = names_lexicon(u["ms"])
        records.append({"id": i, "ms": u["ms"], "idents": idents, "scoped": scoped})
        u["id"] = i
    verdict = tlc_judge(ctx, "acc", records, const, name, count=count)
    out = []
    for k, u in sorted(uniq.items()):
        why = verdict[u["id"]]
        if why:
            for op in u["srcs"]:
                out.append({"sig": {"check": "lenient_accept", "fn": "MapSpec.from_string", "rules": _rules(why), "source": op["src"]["kind"]},
                            "what": f"from_string({op['text']!r}) returned {ast_str(op['ms'])}, which is not well-formed ({_rules(why)})",
                            "witness": {"open": op, "why": why}})
    return out


def random_spec(rng: random.Random) -> dict:
    """A regular well-formed MapSpec beyond the universe bounds, with shapes (sometimes inconsistent)."""
    pool = ["i", "j", "k", "l", "m", "n_1", "_q"]
    R = rng.randint(1, 5)
    oax = rng.sample(pool, R)
    nin = rng.randint(0, 4)
    dims = {x: rng.randint(1, 6) for x in oax}
    ins, insh = [], []
    names = rng.sample(["a", "b", "s.c", "d_1", "t.e", "_f"], nin)
    for x in range(nin):
        rank = rng.randint(1, 4)
        named = rng.sample(oax, min(rng.randint(0, rank), R))
        axes = named + [COLON] * (rank - len(named))
        rng.shuffle(axes)
        ins.append({"name": names[x], "axes": axes})
        insh.append([dims[a] if a != COLON else rng.randint(1, 4) for a in axes])
    outs = [{"name": n, "axes": list(oax)} for n in rng.sample(["y", "o.z", "w_2"], rng.randint(1, 2))]
    used = {a for i in ins for a in i["axes"]}
    internal = [dims[a] for a in oax if a not in used]
    mut = rng.random()
    if ins and mut < 0.15:                      # resize one axis (mismatch iff the index is zipped)
        x = rng.randrange(nin)
        k = rng.randrange(len(insh[x]))
        insh[x][k] += 1
    elif ins and mut < 0.22:                    # rank mismatch
        x = rng.randrange(nin)
        insh[x] = insh[x][:-1] if rng.random() < 0.5 else insh[x] + [2]
    elif internal and mut < 0.27:
        internal = internal[:-1]
    elif nin >= 2 and mut < 0.37:               # the shapes of two inputs exchanged
        x, y = rng.sample(range(nin), 2)
        insh[x], insh[y] = insh[y], insh[x]
    # the mappings shape() is called with, entry by entry in a random insertion order (MapSpecSem: a presentation)
    pin = [{"name": a["name"], "shape": sh} for a, sh in zip(ins, insh)]
    pint = [{"name": a["name"], "shape": internal} for a in outs]
    rng.shuffle(pin)
    rng.shuffle(pint)
    return {"ms": {"ins": ins, "outs": outs}, "insh": insh, "internal": internal, "pin": pin, "pint": pint}


def record_observations(spec: dict, rid: int, rng: random.Random, ls: list[int] | None = None) -> dict:
    """Run the real code on one spec and record what it returned (mechanism C)."""
    ast = spec["ms"]
    idents, scoped = names_lexicon(ast)
    rec = {"id": rid, "ms": ast, "idents": idents, "scoped": scoped, "insh": spec["insh"], "internal": spec["internal"],
           "pin": spec["pin"], "pint": spec["pint"], "built": True, "shape_ok": False, "shape": [], "mask": [], "obs": []}
    how, ms = call(build, ast)
    if how != "value":
        rec["built"] = False
        return rec
    input_shapes, internal = mappings(spec)     # dicts in the recorded insertion order
    how, got = call(ms.shape, input_shapes, internal)
    if how == "value":
        shape, mask = got
        rec.update(shape_ok=True, shape=list(shape), mask=list(mask))
        ext = tuple(s for s, mk in zip(shape, mask) if mk)
        n = 1
        for s in ext:
            n *= s
        for l in ls if ls is not None else sorted({0, n - 1, *[rng.randrange(n) for _ in range(10)]}):
            how_o, ok = call(ms.output_key, ext, l)
            how_i, ik = call(lambda: [[ALL if isinstance(v, slice) else int(v) for v in ms.input_keys(ext, l)[a["name"]]] for a in ast["ins"]])
            # a raise is recorded as a key no specification key equals (components are >= -1)
            rec["obs"].append({"l": l, "okey": list(ok) if how_o == "value" else [RAISED],
                               "ikeys": ik if how_i == "value" else [[RAISED]]})
    return rec


# ------------------------------------------------------------------------------------------------
def report(ctx: Ctx, mism: list[dict], counts: dict[str, int], per_sig: int = 25) -> None:
    """Hand mismatches to ctx (a bounded number of witnesses per signature; all are counted)."""
    mism = sorted(mism, key=lambda m: (json.dumps(m["sig"], sort_keys=True), m["what"]))
    for m in mism:
        k = json.dumps(m["sig"], sort_keys=True)
        counts[k] = counts.get(k, 0) + 1
        if counts[k] <= per_sig:
            ctx.violation(m["sig"], m["what"], m["witness"])


def selftest_comparator(ctx: Ctx, lines: list[str]) -> None:
    """Corrupt one expected value of one exported case: the comparator must report exactly that case (and the
    check that the value belongs to).  Corrupt one returned MapSpec of the second pass / one recorded observation:
    TLC must reject exactly that record.  Cases that mismatch already (genuine findings) stay as they are."""
    recs = [r for r in (parse_case_line(ln) for ln in lines) if r is not None]

    def mismatches(sample: list[dict]) -> set[tuple[int, str]]:
        return {(i, json.dumps(m["sig"], sort_keys=True)) for i, r in enumerate(sample) for m in compare_case(r, ctx.seed).mism}

    ran: list[str] = []

    def corrupt(name: str, pred, edit, check: str) -> None:
        sample = copy.deepcopy([r for r in recs if pred(r)][:40])
        if not sample:
            raise MachineryError(f"self-test '{name}': no case to corrupt in the exported sample")
        before = mismatches(sample)
        dirty = {i for i, _ in before}
        clean = [i for i in range(len(sample)) if i not in dirty]
        if not clean:   # the implementation under test fails every candidate already: nothing left to demonstrate on
            ctx.selftest(name, True, f"skipped: all {len(sample)} candidate cases mismatch already")
            return
        victim = clean[len(clean) // 2]
        edit(sample[victim])
        after = mismatches(sample)
        new = after - before
        ok = bool(new) and before <= after and {i for i, _ in new} == {victim} and all(json.loads(s)["check"] == check for _, s in new)
        ran.append(name)
        ctx.selftest(name, ok, f"victim={victim} of {len(sample)}; newly reported={sorted(new)[:3]}; already mismatching={len(dirty)}")

    def is_sem_ok(r: dict) -> bool:
        return r["c"]["kind"] == "sem" and r["o"]["shape"]["ok"]

    def e_okey(r: dict) -> None:
        r["o"]["okeys"][r["o"]["n"] - 1][0] += 1

    def e_slice(r: dict) -> None:
        ik = r["o"]["ikeys"][0]
        x = next(i for i, k in enumerate(ik) if ALL in k)
        ik[x][ik[x].index(ALL)] = 0

    def e_tok(r: dict) -> None:
        r["o"]["toks"][r["o"]["toks"].index(",")] = ";"

    def e_ren(r: dict) -> None:
        r["o"]["ren"][0]["ms"]["outs"][0]["name"] += "_x"

    corrupt("expected-value corruption: output_key of the last linear index + 1",
            lambda r: is_sem_ok(r) and r["o"]["n"] >= 2 and r["o"]["ext"], e_okey, "output_key")
    corrupt("expected-value corruption: ':' slice of one input key -> 0",
            lambda r: is_sem_ok(r) and any(ALL in k for k in r["o"]["ikeys"][0]), e_slice, "input_keys")
    corrupt("expected-value corruption: shape error -> shape value",
            lambda r: r["c"]["kind"] == "sem" and not r["o"]["shape"]["ok"],
            lambda r: r["o"]["shape"].update(ok=True, shape=[1], mask=[True]), "shape")
    corrupt("expected-value corruption: shape value -> shape error",
            lambda r: is_sem_ok(r), lambda r: r["o"]["shape"].update(ok=False, err="dim"), "shape")
    def diff_rank_calls(r: dict) -> bool:   # a permuted presentation with two entries of different rank
        return is_sem_ok(r) and len(r["o"]["calls"]) >= 2 and len({len(e["shape"]) for e in r["o"]["calls"][-1]["pin"]}) >= 2

    def e_pres(r: dict) -> None:            # in the LAST (permuted) presentation only: two shapes change their names
        pin = sorted(r["o"]["calls"][-1]["pin"], key=lambda e: len(e["shape"]))
        pin[0]["shape"], pin[-1]["shape"] = pin[-1]["shape"], pin[0]["shape"]

    corrupt("exported-argument corruption: two shapes exchanged in the last permuted presentation of one case",
            diff_rank_calls, e_pres, "shape")
    corrupt("expected-value corruption: one token of str(m)",
            lambda r: r["c"]["kind"] == "syn" and "," in r["o"]["toks"], e_tok, "str")
    corrupt("expected-value corruption: one name of a renamed MapSpec",
            lambda r: r["c"]["kind"] == "syn", e_ren, "rename")
    corrupt("expected-value corruption: an accepted add_axes declared refused",
            lambda r: r["c"]["kind"] == "syn", lambda r: r["o"]["add"][0].update(ok=False), "add_axes")
    corrupt("expected-value corruption: a well-formed sentence declared malformed",
            lambda r: r["c"]["kind"] == "tok" and r["o"]["ok"] and not r["o"]["why"] and r["o"]["regular"],
            lambda r: r["o"].update(why=["unused_input_index"]), "reject_malformed")
    def e_arrow(r: dict) -> None:      # the well-formed sentence itself declared "arrow count wrong"
        r["o"]["arrows"][0].update(toks=[t for t in r["o"]["toks"] if t != WS], gaps=r["o"]["gaps"])

    def e_his(r: dict) -> None:        # one input key of the LAST object of a history, last linear index
        obs = r["o"]["objs"][-1]["obs"]
        obs["ikeys"][obs["n"] - 1][0][0] = 7

    corrupt("expected-value corruption: a well-formed text listed among the arrow-count mutants",
            lambda r: r["c"]["kind"] == "syn", e_arrow, "reject_malformed")
    corrupt("expected-value corruption: one input key of the last object of a history",
            lambda r: r["c"]["kind"] == "his" and len(r["o"]["objs"]) >= 2 and r["o"]["objs"][-1]["m"]["ins"]
            and r["o"]["objs"][-1]["obs"]["n"] >= 1, e_his, "history")
    corrupt("expected-value corruption: external_indices of the first object of a history",
            lambda r: r["c"]["kind"] == "his" and len(r["o"]["objs"]) >= 2 and r["o"]["objs"][0]["obs"]["ext_idx"],
            lambda r: r["o"]["objs"][0]["obs"]["ext_idx"].pop(), "history")
    if not ran:
        raise MachineryError("binding self-test: no expected-value corruption could be demonstrated")


def selftest_second_pass(ctx: Ctx, lines: list[str], const: dict) -> None:
    """Second pass: ':' planted in an output of one returned MapSpec: TLC must reject exactly that one."""
    recs = [r for r in (parse_case_line(ln) for ln in lines[:4000]) if r is not None]
    goods = [r["c"]["m"] for r in recs if r["c"]["kind"] in ("sem", "syn")][:12]
    uniq = {json.dumps(m, sort_keys=True): m for m in goods}
    opens = [{"src": {"kind": "selftest"}, "text": ast_str(m), "ms": copy.deepcopy(m)} for m in uniq.values()]
    victim = len(opens) // 2
    opens2 = copy.deepcopy(opens)
    opens2[victim]["ms"]["outs"][-1]["axes"][0] = COLON
    with ThreadPoolExecutor(max_workers=2) as ex:
        fb = ex.submit(judge_open, ctx, opens, const, "st0", False)
        fa = ex.submit(judge_open, ctx, opens2, const, "st1", False)
        base, bad = fb.result(), fa.result()
    ok = not base and len(bad) == 1 and bad[0]["witness"]["open"]["text"] == opens[victim]["text"] and "colon" in bad[0]["sig"]["rules"]
    ctx.selftest("second pass: ':' planted in one returned MapSpec", ok, f"base={len(base)} rejected={[b['sig']['rules'] for b in bad]}")


def run(ctx: Ctx) -> None:
    tier = TIERS[ctx.tier]
    const = dict(tier["const"])
    for k in list(const):  # experiments: C08_MaxDim=4 ./check C08 (not used by the manifest commands)
        if os.environ.get(f"C08_{k}"):
            const[k] = int(os.environ[f"C08_{k}"])
    shards = dict(tier["shards"])
    ctx.rule = ("case = one element of a universe defined in MC_MapSpecSem.tla: sem = (MapSpec structure, index sizes, ':' sizes"
                " [, one mutated shape | the shapes of two inputs exchanged]) with shape() called on the input_shapes / internal_shapes"
                " mappings in EVERY insertion order and ALL linear indices compared; syn = MapSpec under 3 naming schemes x 1-2 outputs with 7"
                " whitespace renderings, 4-6 renames, 7 add_axes calls; bad = AST mutant per documented rejection; tok = token-sequence"
                " mutant; his = history of <= HisLen operations (read attributes / shape + all keys / from_string(str) / add_axes /"
                " rename, in every order) on one object and the objects derived from it, every object observed completely at the"
                " end; syn also: 7+ arrow-count mutants of str(m) x 4 whitespace renderings; rec = seeded random larger spec judged"
                " by TLC.  non-trivial: sem = shape error, or >= 2 linear indices and (external rank >= 2 or a ':' axis or an"
                " internal axis); syn = at least one input; his = a use and a derivation; bad/tok/rec = all")
    ctx.assumptions = [
        "TLC and the JSON encoding of ASTs/shapes/keys are trusted; Python renders tokens to text, builds objects and compares",
        "lexical classes (identifier / scope.identifier) are Python's str.isidentifier; the model's lexicon is checked against it",
        "canonical index naming and (from SortFrom inputs on) non-decreasing input order cut symmetric copies of structures",
        "shape mismatches are generated by mutating ONE input shape (or the internal sizes), or exchanging the shapes of two inputs,"
        " of the sizes-1,2,3 assignment, not by enumerating all shape tuples",
        "a shape mismatch must be refused with the documented ValueError (an IndexError / KeyError escaping from shape() is no refusal)",
        "mappings are Python dicts; their insertion orders are enumerated by MapSpecSem.Presentations (all permutations of the"
        " inputs x of the outputs); part rec uses one seeded random order per spec",
        "don't-care (MapSpecSem.Regular): duplicate array names, an index repeated inside one array, arrays without axes",
        "token sequences outside the grammar and irregular specs: only 'rejected, or accepted as a well-formed MapSpec' (TLC part acc);"
        " except an arrow count other than one (MapSpecSem.TextMustReject): must be rejected",
        "histories: base structures <= HisIn inputs of rank <= HisRank, consistent shapes with index sizes 2, 3, 4; at most two added axes",
        "zero-size axes, missing/extra input names and non-integer internal shapes are outside the property",
    ]
    t0 = time.time()
    phases: dict[str, float] = {}
    ctx.extra["phase_wall_s"] = phases
    jobs = [(part, sh, n) for part, n in shards.items() for sh in range(n)]
    jobs.sort(key=lambda j: (j[0] != "sem", j[0], j[1]))  # the heavy part first

    def one(job):
        part, sh, n = job
        return job, run_part(ctx, part, sh, n, const)

    lines: list[str] = []
    per_part: dict[str, int] = {}
    lex_checked = False
    with ThreadPoolExecutor(max_workers=min(16, os.cpu_count() or 4)) as ex:
        for (part, sh, n), r in ex.map(one, jobs):
            add_tlc(ctx, r, f"{MODULE} part={part} shard={sh}/{n}")
            if not lex_checked:
                check_lexicon(r.prints)
                lex_checked = True
            mine = [ln for ln in r.prints if ln.startswith(_PREFIX)]
            if len(mine) < r.distinct:
                raise MachineryError(f"part {part} shard {sh}: {r.distinct} cases but {len(mine)} exported lines")
            per_part[part] = per_part.get(part, 0) + r.distinct
            lines += mine
    lines = sorted(set(lines))  # deterministic order; an initial state generated twice is printed twice
    for part in shards:
        if not per_part.get(part):
            raise MachineryError(f"part {part} exported no case: vacuous run")
    ctx.extra["cases_per_part"] = per_part
    ctx.extra["universe_constants"] = const

    phases["tlc_universes"] = round(time.time() - t0, 1)
    total = compare_lines(lines, ctx.seed)
    phases["compare"] = round(time.time() - t0, 1)
    if sum(total["kinds"].values()) != len(lines):
        raise MachineryError("not every exported case was compared")
    ctx.traces_validated += len(lines)
    ctx.extra["implementation_calls"] = total["calls"]
    for key, nontrivial in total["keys"]:
        ctx.case(key, nontrivial=nontrivial)
    counts: dict[str, int] = {}
    report(ctx, total["mism"], counts)

    # TLC as judge of what the code returned, all judge runs in parallel:
    #  - second pass (part acc): MapSpecs returned where the outcome is open
    #  - mechanism C (part rec): larger random specs, recorded observations (+ its corruption self-test)
    #  - self-test of the second pass
    ctx.extra["open_outcomes_accepted"] = len(total["open"])
    rng = random.Random(f"{ctx.seed}|rec")
    specs = [random_spec(rng) for _ in range(tier["n_rec"])]
    records = [record_observations(s, i, rng) for i, s in enumerate(specs)]
    st = copy.deepcopy([r for r in records if r["shape_ok"] and r["obs"] and r["obs"][-1]["okey"]][:15])
    st_victim = st[len(st) // 2]
    st_victim["obs"][-1]["okey"][-1] += 1
    sub = lines[:: max(1, len(lines) // 3000)]
    with ThreadPoolExecutor(max_workers=4) as ex:
        f_acc = ex.submit(judge_open, ctx, total["open"], const)
        f_rec = ex.submit(tlc_judge, ctx, "rec", records, const, "rec")
        f_recst = ex.submit(tlc_judge, ctx, "rec", st, const, "recst", False)
        f_st = ex.submit(selftest_second_pass, ctx, sub, const)
        selftest_comparator(ctx, sub)          # pure Python, meanwhile
        acc_mism, verdict, v2 = f_acc.result(), f_rec.result(), f_recst.result()
        f_st.result()
    phases["judges_and_selftests"] = round(time.time() - t0, 1)
    report(ctx, acc_mism, counts)
    dropped = 0
    for rec in records:
        why = verdict[rec["id"]]
        if any(w.startswith("generator") for w in why):
            dropped += 1
            continue
        ctx.case(f"rec|{ast_str(rec['ms'])}|{rec['insh']}|{rec['internal']}", nontrivial=True)
        ctx.traces_validated += 1
        if why:
            f = _feat(rec["ms"])
            report(ctx, [{"sig": {"check": "recorded", "fn": "MapSpec." + w.split(":")[0], "clause": w, "internal_axes": f["internal_axes"]},
                          "what": f"recorded observation not explained by MapSpecSem ({w}): {ast_str(rec['ms'])} {rec['insh']}",
                          "witness": {"record": rec, "why": why}} for w in why], counts)
    ctx.extra["recorded_specs"] = {"generated": len(records), "dropped_by_spec": dropped}
    if dropped > len(records) // 20:
        raise MachineryError(f"generator of larger specs: {dropped}/{len(records)} not well-formed/regular by the spec")
    # rec self-test: one recorded key altered -> exactly that record gets the additional verdict "output_key"
    changed = sorted(i for i in v2 if sorted(v2[i]) != sorted(verdict[i]))
    ok = changed == [st_victim["id"]] and sorted(v2[st_victim["id"]]) == sorted({*verdict[st_victim["id"]], "output_key"})
    ctx.selftest("recorded-observation corruption (one output key + 1)", ok, f"verdict changed for {changed}, expected {[st_victim['id']]}")

    ctx.extra["violation_counts"] = {k: v for k, v in sorted(counts.items())}
    ctx.exhaustive = True   # every exported case of the TLA+-defined universes was compared (part rec is sampled)
    for kind in ("sem", "syn", "bad", "tok", "his"):
        for ln in lines:
            if f'\\"kind\\":\\"{kind}\\"' in ln:
                rec = parse_case_line(ln)
                ctx.sample({"case": rec["c"], "expected": {k: v for k, v in rec["o"].items() if k not in ("okeys", "ikeys", "gaps", "ren", "add", "arrows", "objs")}},
                           limit=4)
                break


# ------------------------------------------------------------------------------------------------
def replay(rep: dict) -> int:
    """Re-run one witness against the real code (and TLC where TLC was the judge)."""
    w = rep["witness"]
    n = 0
    if "case" in w:
        r = compare_case({"c": w["case"], "o": w["expected"]}, 0)
        if "text" in w and w.get("ws") and w["case"]["kind"] == "syn":   # the exact text of the failing whitespace rendering
            how, back = _from_string(w["text"])
            got = ast_str(decode(back)) if how == "value" else how
            print(f"from_string({w['text']!r}) -> {got}; expected {ast_str(w['case']['m'])}")
            n += int(how != "value" or decode(back) != w["case"]["m"])
        for m in r.mism:
            print("MISMATCH", json.dumps(m["sig"]), m["what"])
        n += len(r.mism)
    ctx = None
    try:
        if "open" in w:
            ctx = Ctx(PROPERTY, "quick", 0)
            ctx.findings = []
            how, back = _from_string(w["open"]["text"])
            print(f"from_string({w['open']['text']!r}) -> {ast_str(decode(back)) if how == 'value' else how}")
            if how == "value":
                bad = judge_open(ctx, [{"src": w["open"]["src"], "text": w["open"]["text"], "ms": decode(back)}], TIERS["quick"]["const"])
                for b in bad:
                    print("MISMATCH", json.dumps(b["sig"]), b["what"])
                n += len(bad)
        if "record" in w:
            ctx = ctx or Ctx(PROPERTY, "quick", 0)
            ctx.findings = []
            rec = record_observations({k: w["record"][k] for k in ("ms", "insh", "internal", "pin", "pint")},
                                      0, random.Random(0), ls=[o["l"] for o in w["record"]["obs"]])
            v = tlc_judge(ctx, "rec", [rec], TIERS["quick"]["const"], "replay")
            print("TLC verdict on the re-recorded observations:", v[0])
            n += len(v[0])
    finally:
        if ctx is not None:
            ctx.cleanup()
    print("replay:", "VIOLATION reproduced" if n else "case conforms")
    return 1 if n else 0
