"""C09, map side: the pipeline cache inside Pipeline.map (_get_or_set_cache).

Spec: MapRun.tla (Hits / Memo / Avail): with a cache an invocation may be answered from the cache iff an invocation of the
same function with equal keyword arguments has completed before (in this run or in an earlier run with the same cache
object); results are the denotation either way.  Histories: pipelines with a cache (simple / lru / hybrid / disk) mapped
over inputs with REPEATED values, sequentially and through a thread pool (shared lru), run twice on the same pipeline
object (second run: everything may come from the cache).  TLC validates the recorded histories (TraceMapRun).
"""
from __future__ import annotations

import contextlib
import io
import json
import shutil
import tempfile
from concurrent.futures import ThreadPoolExecutor

from .. import build, pmap
from ..tracekit import validate_traces

STRIP = ("meta",)


def arr(vals: list[str]) -> dict:
    return {"f": "#arr", "a": [{"f": v, "a": []} for v in vals]}


def scenarios() -> list[dict]:
    def fn(name, params, outs, ms):
        return {"name": name, "params": params, "outputs": outs, "defaults": [], "bound": [], "has_ms": ms is not None,
                "ms": ms or {"ins": [], "outs": []}, "internal": [], "cache": True}
    zipms = {"ins": [{"name": "a", "axes": ["i"]}, {"name": "b", "axes": ["i"]}], "outs": [{"name": "y", "axes": ["i"]}]}
    gms = {"ins": [{"name": "y", "axes": ["i"]}], "outs": [{"name": "w", "axes": ["i"]}]}
    outer = {"ins": [{"name": "a", "axes": ["i"]}, {"name": "b", "axes": ["j"]}], "outs": [{"name": "y", "axes": ["i", "j"]}]}
    red = {"ins": [{"name": "y", "axes": ["i", ":"]}], "outs": [{"name": "w", "axes": ["i"]}]}
    return [
        {"name": "zip-repeat", "desc": {"funcs": [fn("f", ["a", "b"], ["y"], zipms), fn("g", ["y"], ["w"], gms)]},
         "inputs": [["a", arr(["@p", "@p", "@q", "@p"])], ["b", arr(["@r", "@r", "@r", "@s"])]]},
        {"name": "zip-repeat-none", "desc": {"funcs": [dict(fn("f", ["a", "b"], ["y"], zipms), retnone=True), fn("g", ["y"], ["w"], gms)]},
         "inputs": [["a", arr(["@p", "@p", "@q", "@p"])], ["b", arr(["@r", "@r", "@r", "@s"])]]},
        {"name": "outer-repeat", "desc": {"funcs": [fn("f", ["a", "b"], ["y"], outer), fn("g", ["y"], ["w"], red)]},
         "inputs": [["a", arr(["@p", "@p", "@q"])], ["b", arr(["@r", "@r"])]]},
        {"name": "chain", "desc": {"funcs": [fn("f", ["s"], ["y"], None), fn("g", ["y", "s"], ["w"], None)]},
         "inputs": [["s", {"f": "@s", "a": []}]]},
        # a mapped consumer that takes a WHOLE mapped array through a parameter its MapSpec does not list
        {"name": "mapped-reducer", "desc": {"funcs": [fn("f", ["a"], ["y"], {"ins": [{"name": "a", "axes": ["i"]}],
                                                                             "outs": [{"name": "y", "axes": ["i"]}]}),
                                                      fn("g", ["y", "b"], ["w"], {"ins": [{"name": "b", "axes": ["j"]}],
                                                                                  "outs": [{"name": "w", "axes": ["j"]}]})]},
         "inputs": [["a", arr(["@p", "@q"])], ["b", arr(["@r", "@r", "@s"])]]},
        # two functions with the SAME Python __name__ (factory-made closures) and equal keyword arguments
        {"name": "same-pyname", "desc": {"funcs": [dict(fn("f", ["a"], ["y"], {"ins": [{"name": "a", "axes": ["i"]}],
                                                                                "outs": [{"name": "y", "axes": ["i"]}]}), pyname="step"),
                                                   dict(fn("g", ["a"], ["w"], {"ins": [{"name": "a", "axes": ["i"]}],
                                                                                "outs": [{"name": "w", "axes": ["i"]}]}), pyname="step")]},
         "inputs": [["a", arr(["@p", "@q", "@p"])]]},
    ]


def resources_history(cache_type: str) -> dict:
    """A mapped function whose result depends on callable, map-scoped resources (cpus = length of the whole input): two runs
    with DIFFERENT inputs that share element values on the same pipeline (and cache).  The evaluated resources belong to
    the cache key; answering the second run's elements from the first run's entries would be stale."""
    ms = {"ins": [{"name": "a", "axes": ["i"]}], "outs": [{"name": "y", "axes": ["i"]}]}
    fn = {"name": "f", "params": ["a"], "outputs": ["y"], "defaults": [], "bound": [], "has_ms": True, "ms": ms,
          "internal": [], "cache": True, "rescpus": "a"}
    desc = {"funcs": [fn]}
    in1 = [["a", arr(["@p", "@q", "@r"])]]
    in2 = [["a", arr(["@p", "@q"])]]
    pdesc = pmap.tla_desc_to_py(desc)
    pdesc["cache_type"] = cache_type
    tmp = tempfile.mkdtemp(prefix="pfverif_c09r_")
    if cache_type == "disk":
        pdesc["cache_kwargs"] = {"cache_dir": tmp + "/cache"}
    elif cache_type in ("lru", "hybrid"):
        pdesc["cache_kwargs"] = {"shared": False}
    build.reset_log()
    evs: list[dict] = []
    try:
        with contextlib.redirect_stdout(io.StringIO()):
            pl = build.make_pipeline(pdesc)
        for run, inputs in enumerate((in1, in2, in1)):
            inp = pmap.inputs_to_py(inputs, {"a": "list"})
            e, res = pmap.do_map(pl, pdesc, inp, run_folder=tmp + f"/run{run}", storage="dict", parallel=False, cleanup=True,
                                 load=False)
            if run:
                for x in e:
                    if x["e"] in ("begin", "reject"):
                        x["new_inputs"] = inputs
            evs += e
            if isinstance(res, Exception):
                break
    finally:
        shutil.rmtree(tmp, ignore_errors=True)
    return {"desc": build.desc_to_tla(pdesc) | {}, "inputs": in1, "ev": evs,
            "meta": {"scenario": "resources", "cache_type": cache_type, "parallel": False}}


def replace_history(cache_type: str, flags: tuple[bool, bool], which: str) -> dict:
    """map -> Pipeline.replace(function `which` by another implementation with the SAME signature) -> map with the same
    inputs, on one pipeline with a cache.  `flags` = cache=True of (f, g): Pipeline.map memoises every function in the
    pipeline's cache whatever its flag, so nothing the replaced function (or anything downstream) produced before may be
    served afterwards."""
    import copy
    zipms = {"ins": [{"name": "a", "axes": ["i"]}], "outs": [{"name": "y", "axes": ["i"]}]}
    gms = {"ins": [{"name": "y", "axes": ["i"]}], "outs": [{"name": "w", "axes": ["i"]}]}

    def fn(name, params, outs, ms, cache):
        return {"name": name, "params": params, "outputs": outs, "defaults": [], "bound": [], "has_ms": True, "ms": ms,
                "internal": [], "cache": cache, "retnone": False, "rescpus": "", "impl": "v1"}
    desc = {"funcs": [fn("f", ["a"], ["y"], zipms, flags[0]), fn("g", ["y"], ["w"], gms, flags[1])]}
    inputs = [["a", arr(["@p", "@q", "@p"])]]
    pdesc = pmap.tla_desc_to_py(desc)
    pdesc["cache_type"] = cache_type
    tmp = tempfile.mkdtemp(prefix="pfverif_c09x_")
    if cache_type == "disk":
        pdesc["cache_kwargs"] = {"cache_dir": tmp + "/cache"}
    elif cache_type in ("lru", "hybrid"):
        pdesc["cache_kwargs"] = {"shared": False}
    build.reset_log()
    evs: list[dict] = []
    try:
        with contextlib.redirect_stdout(io.StringIO()):
            pl = build.make_pipeline(pdesc)
        inp = pmap.inputs_to_py(inputs, {"a": "list"})
        for run in range(3):
            if run == 1:
                k = 0 if which == "f" else 1
                newt = copy.deepcopy(desc["funcs"][k])
                newt["impl"] = "v2"
                newpy = pmap.tla_desc_to_py({"funcs": [newt]})["funcs"][0]
                with contextlib.redirect_stdout(io.StringIO()):
                    pl.replace(build.make_pipefunc(newpy))
                pdesc["funcs"][k] = newpy
                evs.append(pmap.ev(e="replace", f=which, func=newt))
            e, res = pmap.do_map(pl, pdesc, inp, run_folder=tmp + f"/run{run}", storage="dict", parallel=False, cleanup=True,
                                 load=False)
            evs += e
            if isinstance(res, Exception):
                break
    finally:
        shutil.rmtree(tmp, ignore_errors=True)
    return {"desc": desc, "inputs": inputs, "ev": evs,
            "meta": {"scenario": f"replace-{which}-flags{int(flags[0])}{int(flags[1])}", "cache_type": cache_type, "parallel": False}}


def history(scen: dict, cache_type: str, parallel) -> dict:
    """parallel: False (sequential) | True / "thread" (thread pool, shared cache) | "process" (process pool: the workers reach
    the cache through its Manager proxies; calls are ordered by the append-only cross-process log file)."""
    from concurrent.futures import ProcessPoolExecutor
    import os
    pdesc = pmap.tla_desc_to_py(scen["desc"])
    pdesc["cache_type"] = cache_type
    tmp = tempfile.mkdtemp(prefix="pfverif_c09m_")
    if cache_type == "disk":
        pdesc["cache_kwargs"] = {"cache_dir": tmp + "/cache"}
    elif cache_type in ("lru", "hybrid"):
        pdesc["cache_kwargs"] = {"shared": bool(parallel)}
    logf = tmp + "_calls.ndjson"
    build.reset_log(logf if parallel == "process" else None)
    evs: list[dict] = []
    ex = None
    if parallel:
        ex = ProcessPoolExecutor(3) if parallel == "process" else ThreadPoolExecutor(3)
    try:
        with contextlib.redirect_stdout(io.StringIO()):
            pl = build.make_pipeline(pdesc)
        inp = pmap.inputs_to_py(scen["inputs"], {n: "list" for n, _ in scen["inputs"]})
        for run in range(2):
            e, res = pmap.do_map(pl, pdesc, inp, run_folder=tmp + f"/run{run}", storage="dict", parallel=bool(parallel),
                                 executor=ex, cleanup=True, load=False)
            evs += e
            if isinstance(res, Exception):
                break
    finally:
        if ex:
            ex.shutdown(wait=True)
        build.reset_log()
        shutil.rmtree(tmp, ignore_errors=True)
        with contextlib.suppress(FileNotFoundError):
            os.unlink(logf)
    return {"desc": scen["desc"], "inputs": scen["inputs"], "ev": evs,
            "strict": cache_type == "simple" and not parallel,      # never evicts + sequential: resident entries MUST be used
            "meta": {"scenario": scen["name"], "cache_type": cache_type, "parallel": parallel}}


def run(ctx) -> None:
    quick = ctx.tier == "quick"
    traces = []
    for scen in scenarios():
        for ct in (["simple", "lru", "disk"] if quick else ["simple", "lru", "hybrid", "disk"]):
            traces.append(history(scen, ct, False))
        for ct in (["lru"] if quick else ["lru", "hybrid", "simple"]):
            for _ in range(1 if quick else 5):
                traces.append(history(scen, ct, True))
        for ct in (["lru"] if quick else ["lru", "hybrid", "disk"]):       # worker PROCESSES sharing the cache
            traces.append(history(scen, ct, "process"))
    for ct in (["simple", "lru"] if quick else ["simple", "lru", "hybrid", "disk"]):
        traces.append(resources_history(ct))
    for ct in (["simple", "lru"] if quick else ["simple", "lru", "hybrid", "disk"]):
        for flags in ((False, False), (True, False), (False, True), (True, True)):
            for which in ("f", "g"):
                traces.append(replace_history(ct, flags, which))
    for t in traces:
        ncall = sum(1 for e in t["ev"] if e["e"] == "call")
        ctx.case({"map-cache": t["meta"], "calls": ncall}, nontrivial=True)
    ctx.sample({"map_cache": traces[0]["meta"], "events": [(e["e"], e["f"]) for e in traces[0]["ev"]]})
    rej = validate_traces(ctx, "TraceMapRun", traces, "mapcache", invariants=["InvTypeOK", "InvDoneStored"], strip=STRIP)
    for i, reached in rej.items():
        t = traces[i]
        e = t["ev"][reached - 1]
        nb = sum(1 for x in t["ev"][:reached] if x["e"] == "begin")
        ctx.violation({"check": "map-cache", "event": e["e"], "cls": e.get("cls", ""), "cache_type": t["meta"]["cache_type"],
                       "parallel": t["meta"]["parallel"], "run": nb},
                      f"cached map history not explained by MapRun at event {reached}: {e['e']} {e.get('f','')} {e.get('cls','')} "
                      f"{e.get('msg','')[:120]} ({t['meta']})",
                      {"desc": t["desc"], "inputs": t["inputs"], "meta": t["meta"], "rejected_at": reached,
                       "events": [(x["e"], x["f"], x.get("cls", "")) for x in t["ev"]]})
    # binding self-test: a returned element that came from the cache is altered
    import copy
    good = [t for i, t in enumerate(traces) if i not in rej and t["ev"][-1]["e"] == "return"][:5]
    if good:
        base = validate_traces(ctx, "TraceMapRun", copy.deepcopy(good), "mc0", invariants=[], strip=STRIP, count=False)
        clean = [i for i in range(len(good)) if i not in base]
        if clean:
            bad = copy.deepcopy(good)
            vi = clean[len(clean) // 2]

            def corrupt(v):
                if v["a"]:
                    return corrupt(v["a"][0])
                v["f"] += "_x"
            corrupt(bad[vi]["ev"][-1]["results"][0][1])
            rej2 = validate_traces(ctx, "TraceMapRun", bad, "mc1", invariants=[], strip=STRIP, count=False)
            exp = dict(base)
            exp[vi] = len(bad[vi]["ev"])
            ctx.selftest("trace-corruption(map-cache: one returned atom altered)", rej2 == exp, f"rej={rej2} expected={exp}")
