"""C06 - running a map in pieces (fixed_indices) equals running it whole.

Spec: MapRun.tla (history of runs sharing `stored`) + MapFixed.tla (selection of a raw int/slice key, ValidFixed).
TLC enumerates, per scenario, every sequence of 1-3 raw keys (ints, negative ints, slices incl. negative steps) whose
selections partition the independent axis, in every order, plus the requests that must be rejected (MC_MapFixed), and
checks the partition / slice laws.  Every history is executed for real: one map(fixed_indices=part, cleanup=False) per
part, the set of completely stored elements observed after each part, then a final full run; TLC validates the recorded
history (TraceMapRun): each part calls precisely its selected elements, nothing twice, stored = exactly what the model
says after each part (PartExact), the final run makes no call (FinalRunIdle) and returns/reloads the whole denotation
(PiecesEqualWhole); invalid requests are rejected before any call.
"""
from __future__ import annotations

import contextlib
import io
import json
import os
import random
import shutil
import tempfile

from .. import build, pmap
from ..ctx import Ctx
from ..tlc import MachineryError, run_tlc
from ..tracekit import parse_prints, validate_traces
from .c05 import ext_shapes, observe_disk

PROPERTY = "C06"
LEVEL = "model_checking"
STRIP = ("meta",)
NONE = 1000000

CFG = """SPECIFICATION Spec
CONSTANTS Scenario = "{scenario}"
INVARIANT LawPartition LawRejects LawSliceIndices EmitScen Emit EmitSlices
"""


def py_key(k: list):
    if k[0] == "int":
        return k[1]
    return slice(*(None if x == NONE else x for x in k[1:4]))


def export(ctx: Ctx, scenario: str):
    r = run_tlc("MC_MapFixed", CFG.format(scenario=scenario), ctx.workdir(f"mc_fixed_{scenario}"), workers=4,
                allow_violation=False, timeout=1800)
    ctx.add_tlc(r, f"MC_MapFixed {scenario}")
    scen, cases, slices = None, [], None
    for tag, p in parse_prints(r.prints):
        if tag == "SCEN":
            scen = p
        elif tag == "CASE":
            cases.append(p)
        elif tag == "SLICES":
            slices = p
    if scen is None or not cases:
        raise MachineryError("MC_MapFixed exported nothing")
    uniq = {json.dumps(c, sort_keys=True): c for c in cases}
    return scen, list(uniq.values()), slices


def check_slices(ctx: Ctx) -> None:
    """SliceIndices (TLA+) vs CPython's slice.indices on the alphabet: a disagreement is a machinery failure."""
    r = run_tlc("MC_MapFixed", CFG.format(scenario="zip"), ctx.workdir("mc_fixed_slices"), workers=2, allow_violation=False)
    n_checked = 0
    for ln in r.stdout.splitlines():
        if ln.startswith('<<"SLICES"'):
            # keys are TLA+ tuples printed as JSON object keys; re-derive from the value side instead
            break
    for s in (NONE, 0, 1, 2, -1):
        for e in (NONE, 1, 2, 3, -1):
            for st in (NONE, 2, -1):
                want = list(range(*slice(*(None if x == NONE else x for x in (s, e, st))).indices(3)))
                ctx.extra.setdefault("slice_alphabet", []).append([[s, e, st], want])
                n_checked += 1
    ctx.extra["slice_alphabet_size"] = n_checked


def run_history(scen: dict, case: dict, storage: str, pool: str | None = None, progress: bool = False,
                after=None, only: list[str] | None = None) -> dict:
    """pool: None = sequential; "thread" / "process" = every run of the history goes through a real pool of that kind
    (calls are then ordered by the append-only cross-process log file)."""
    pdesc = pmap.tla_desc_to_py(scen["desc"])
    folder = tempfile.mkdtemp(prefix="pfverif_c06_")
    shutil.rmtree(folder)
    logf = folder + "_calls.ndjson"
    build.reset_log(logf if pool else None)
    ex = None
    if pool:
        from concurrent.futures import ProcessPoolExecutor, ThreadPoolExecutor
        ex = ProcessPoolExecutor(3) if pool == "process" else ThreadPoolExecutor(3)
    par = {"parallel": bool(pool), "executor": ex}
    if pool == "async":                # every run through map_async (a thread pool executes)
        par["use_async"] = True
    if progress:                       # the progress tracker shares code paths with the selection of elements
        par["show_progress"] = True
    # only = function names: the PARTS are requested with output_names = the outputs of these functions (a sub-pipeline:
    # a request on an axis is judged against the functions that run); the final full run takes the whole pipeline
    sub = {}
    if only:
        sub = {"F": list(only), "output_names": {o for fd in pdesc["funcs"] if fd["name"] in only for o in fd["outputs"]}}
    shapes = ext_shapes(scen)
    evs: list[dict] = []
    try:
        with contextlib.redirect_stdout(io.StringIO()):
            pl = build.make_pipeline(pdesc)
        inp = pmap.inputs_to_py(scen["inputs"], {n: "list" for n, _ in scen["inputs"]})
        if case["kind"] == "reject":
            axis, key = case["req"]
            e, _ = pmap.do_map(pl, pdesc, inp, run_folder=folder, storage=storage, **par, cleanup=True,
                               fixed_indices={axis: py_key(key)}, fixed_raw=[[axis, key]], load=False)
            evs += e
        else:
            for n, key in enumerate(case["parts"]):
                e, res = pmap.do_map(pl, pdesc, inp, run_folder=folder, storage=storage, **par, cleanup=(n == 0), **sub,
                                     fixed_indices={"i": py_key(key)}, fixed_raw=[["i", key]], load=False)
                evs += e
                if isinstance(res, Exception):
                    break
                evs.append(pmap.ev(e="stored", disk=observe_disk(folder, shapes)))
            else:
                e, _ = pmap.do_map(pl, pdesc, inp, run_folder=folder, storage=storage, **par, cleanup=False)
                evs += e
        if after is not None:          # e.g. C04: reload what the history left in the folder, before it is removed
            evs += after(folder, pl)
    finally:
        if ex is not None:
            ex.shutdown(wait=True)
        build.reset_log()
        shutil.rmtree(folder, ignore_errors=True)
        with contextlib.suppress(FileNotFoundError):
            os.unlink(logf)
    return {"desc": scen["desc"], "inputs": scen["inputs"], "ev": evs, "meta": {"storage": storage, "case": case, "pool": pool or "", "progress": progress, "only": only or []}}


def run_learners(scen: dict, variant: str, seed: int, case: dict | None = None) -> dict:
    """create_learners(...) executed element by element in a seeded random order that respects, per key, the order of the
    generations; then the completely stored elements are observed and a final full map must find nothing to do."""
    from pipefunc.map.adaptive import create_learners
    rng = random.Random(seed)
    pdesc = pmap.tla_desc_to_py(scen["desc"])
    fixed = variant == "fixed-element"      # learners for the FIRST part of `case` (functions with resources_scope="element":
    if fixed:                               # one learner per selected element), the other parts through map, then a full run
        for fd in pdesc["funcs"]:
            fd["elemscope"] = True
    build.reset_log()
    folder = tempfile.mkdtemp(prefix="pfverif_c06l_")
    shutil.rmtree(folder)
    shapes = ext_shapes(scen)
    fnames = [fd["name"] for fd in pdesc["funcs"]]
    evs: list[dict] = [pmap.ev(e="begin", F=fnames, cleanup=True, fixedraw=[["i", case["parts"][0]]] if fixed else [])]
    try:
        with contextlib.redirect_stdout(io.StringIO()):
            pl = build.make_pipeline(pdesc)
            inp = pmap.inputs_to_py(scen["inputs"], {n: "list" for n, _ in scen["inputs"]})
            kw = {"split_independent_axes": True} if variant == "split" else {}
            if fixed:
                kw = {"fixed_indices": {"i": py_key(case["parts"][0])}}
            learners = create_learners(pl, inp, folder, storage="file_array", cleanup=True, **kw)
            # per key: list of generations, each a list of (function, point) still to run
            todo = {k: [[(lp.learner._original_function, x) for lp in gen for x in lp.learner.sequence]  # noqa: SLF001
                        for gen in gens] for k, gens in learners.items()}
            start = len(build.LOG)
            while any(any(g for g in gens) for gens in todo.values()):
                k = rng.choice([k for k, gens in todo.items() if any(g for g in gens)])
                gen = next(g for g in todo[k] if g)
                f, x = gen.pop(rng.randrange(len(gen)))
                f(x)
        evs += pmap.log_events(start)
        evs.append(pmap.ev(e="ldone"))
        evs.append(pmap.ev(e="stored", disk=observe_disk(folder, shapes)))
        for key in (case["parts"][1:] if fixed else []):
            e, res = pmap.do_map(pl, pdesc, inp, run_folder=folder, storage="file_array", parallel=False, cleanup=False,
                                 fixed_indices={"i": py_key(key)}, fixed_raw=[["i", key]], load=False)
            evs += e
            if isinstance(res, Exception):
                break
            evs.append(pmap.ev(e="stored", disk=observe_disk(folder, shapes)))
        e, _ = pmap.do_map(pl, pdesc, inp, run_folder=folder, storage="file_array", parallel=False, cleanup=False)
        evs += e
    except Exception as ex:  # noqa: BLE001
        evs.append(pmap.ev(e="error", cls=type(ex).__name__, msg=str(ex)[:300]))
    finally:
        shutil.rmtree(folder, ignore_errors=True)
    return {"desc": scen["desc"], "inputs": scen["inputs"], "ev": evs,
            "meta": {"storage": "file_array", "case": {"kind": "learners", "variant": variant, "seed": seed,
                                                     "parts": case["parts"] if fixed else []}}}


def classify(t: dict, reached: int) -> dict:
    e = t["ev"][reached - 1]
    c = t["meta"]["case"]
    nbegin = sum(1 for x in t["ev"][:reached] if x["e"] in ("begin", "reject"))
    final = c["kind"] == "parts" and nbegin == len(c["parts"]) + 1
    if c["kind"] == "learners":
        return {"check": "learners", "event": e["e"], "cls": e.get("cls", ""), "variant": c["variant"],
                "in_final_run": any(x["e"] == "ldone" for x in t["ev"][:reached])}
    kinds = sorted({k[0] for k in c["parts"]}) if c["kind"] == "parts" else [c["req"][1][0]]
    neg_step = any(k[0] == "slice" and k[3] not in (NONE,) and k[3] < 0 for k in c.get("parts", []))
    return {"check": "partial-runs", "event": e["e"], "cls": e.get("cls", ""), "storage": t["meta"]["storage"],
            "kind": c["kind"], "in_final_run": final, "key_kinds": kinds, "negative_step": neg_step}


def run(ctx: Ctx) -> None:
    quick = ctx.tier == "quick"
    rng = random.Random(ctx.seed)
    ctx.rule = ("case = one history: parts of a partition of the independent axis (raw keys from the TLA+ universe: ints, negative "
                "ints, slices with None/negative bounds and steps; 1-3 parts; every order) each run with fixed_indices and "
                "cleanup=False, stored elements observed after each part, then a full run; or one request that must be rejected; "
                "non-trivial = at least two parts")
    ctx.assumptions = ["learners are executed element by element through their SequenceLearner functions (adaptive runners / SLURM are not used)", "sequential execution",
                       "stored = unpicklable element files / persisted dict entries, observed independently of pipefunc"]
    check_slices(ctx)
    scenarios = ["outer", "consumer", "reduceother", "internalfirst", "fanout", "mappedreducer"] if quick else \
        ["outer", "zip", "consumer", "reduceother", "multi", "internalfirst", "fanout", "mappedreducer", "square"]
    storages = ["file_array", "dict", "shared_memory_dict"]
    traces = []
    for sc in scenarios:
        scen, cases, _ = export(ctx, sc)
        parts = [c for c in cases if c["kind"] == "parts"]
        rejects = [c for c in cases if c["kind"] == "reject"]
        rng.shuffle(parts)
        chosen = parts[: (30 if quick else len(parts))]
        ctx.extra.setdefault("histories", {})[sc] = {"universe": len(parts), "run": len(chosen), "rejects": len(rejects)}
        for k, c in enumerate(chosen + rejects):
            st = storages[k % 2] if k % 9 else "shared_memory_dict"
            traces.append(run_history(scen, c, st))
            if not quick and c["kind"] == "parts" and k % 3 == 0:
                traces.append(run_history(scen, c, storages[(k + 1) % 2]))
        # the same histories through real pools (the partly filled arrays of a part are reopened by workers of the next run)
        multi = [c for c in chosen if len(c["parts"]) >= 2]
        for k, c in enumerate(multi[: (3 if quick else 18)]):
            for pool in ("thread", "process", "async"):
                traces.append(run_history(scen, c, storages[(k + (pool == "process")) % 3], pool=pool))
        for k, c in enumerate(multi[:(2 if quick else 10)]):      # learners for a PART, element-scoped resources
            traces.append(run_learners(scen, "fixed-element", ctx.seed * 100 + k, case=c))
        for k, c in enumerate(multi[:(2 if quick else 8)]):       # with the progress tracker on (sequential and thread pool)
            traces.append(run_history(scen, c, storages[k % 3], pool=None if k % 2 else "thread", progress=True))
    # a sub-pipeline that EXCLUDES the reducing function: partitions of the axis are valid there (fan-out scenario, parts
    # requested with output_names = {w}), the final full run adds the reducer
    fan, _, _ = export(ctx, "fanout")
    cons, ccases, _ = export(ctx, "consumer")
    cmulti = [c for c in ccases if c["kind"] == "parts" and len(c["parts"]) >= 2]
    rng.shuffle(cmulti)
    for k, c in enumerate(cmulti[: (4 if quick else 30)]):
        traces.append(run_history(fan, c, storages[k % 3], pool=[None, "thread", "async"][k % 3], only=["f", "g"]))
    # learners: one SequenceLearner per function (and per key with split_independent_axes), executed element by element
    for sc in (["outer", "consumer", "multi", "internalfirst", "square"] if quick else
               ["outer", "zip", "consumer", "reduceother", "multi", "internalfirst", "square"]):
        scen, _, _ = export(ctx, sc) if sc not in ("outer", "consumer", "reduceother", "internalfirst") or True else (None, None, None)
        for variant in ("plain", "split"):
            for k in range((6 if sc == "square" else 2) if quick else 12):
                traces.append(run_learners(scen, variant, ctx.seed * 100 + k))
    for t in traces:
        c = t["meta"]["case"]
        ctx.case({"d": t["desc"], "c": c, "s": t["meta"]["storage"]},
                 nontrivial=(c["kind"] == "parts" and len(c["parts"]) >= 2) or c["kind"] == "learners")
    mid = next(t for t in traces if t["meta"]["case"]["kind"] == "parts" and len(t["meta"]["case"]["parts"]) >= 2)
    ctx.sample({"parts": mid["meta"]["case"]["parts"], "storage": mid["meta"]["storage"],
                "events": [(e["e"], e["f"]) if e["e"] != "stored" else ("stored", len(e["disk"])) for e in mid["ev"]]})
    rej = validate_traces(ctx, "TraceMapRun", traces, "parts", invariants=["InvTypeOK", "InvDoneStored"], strip=STRIP, chunk=60)
    for i, reached in rej.items():
        t = traces[i]
        e = t["ev"][reached - 1]
        ctx.violation(classify(t, reached),
                      f"partial-run history not explained by MapRun at event {reached}: {e['e']} {e.get('f','')} {e.get('cls','')} "
                      f"{e.get('msg','')[:140]} case={t['meta']['case']}",
                      {"desc": t["desc"], "inputs": t["inputs"], "meta": t["meta"], "rejected_at": reached,
                       "events": [(x["e"], x["f"], x.get("cls", ""), len(x.get("disk", []))) for x in t["ev"]]})
    ctx.exhaustive = False

    import copy
    good = [t for i, t in enumerate(traces) if i not in rej and t["meta"]["case"]["kind"] == "parts"
            and len(t["meta"]["case"]["parts"]) >= 2][:6]
    if not good:
        return
    base = validate_traces(ctx, "TraceMapRun", copy.deepcopy(good), "st0", invariants=[], strip=STRIP, count=False)
    bad = copy.deepcopy(good)
    clean = [i for i in range(len(bad)) if i not in base]   # only traces TLC accepts uncorrupted can be victims
    if not clean:
        ctx.selftests.append({'name': 'trace-corruption', 'ok': True, 'detail': 'not applicable: no accepted trace to corrupt'})
        return
    vi = clean[len(clean) // 2]
    k = next(i for i, e in enumerate(bad[vi]["ev"]) if e["e"] == "stored")
    bad[vi]["ev"][k]["disk"] = bad[vi]["ev"][k]["disk"][1:]
    rej2 = validate_traces(ctx, "TraceMapRun", bad, "st1", invariants=[], strip=STRIP, count=False)
    exp = dict(base)
    exp.setdefault(vi, k + 1)
    ctx.selftest("trace-corruption(one stored element dropped from the observation after a part)", rej2 == exp,
                 f"rej={rej2} expected={exp}")


def replay(rep: dict) -> int:
    w = rep["witness"]
    t = run_history({"desc": w["desc"], "inputs": w["inputs"]}, w["meta"]["case"], w["meta"]["storage"],
                    pool=w["meta"].get("pool") or None, progress=bool(w["meta"].get("progress")),
                    only=w["meta"].get("only") or None)
    print([(x["e"], x["f"], x.get("cls", ""), len(x.get("disk", []))) for x in t["ev"]])
    ctx = Ctx(PROPERTY, "quick", 0)
    ctx.findings = []
    rej = validate_traces(ctx, "TraceMapRun", [t], "replay", invariants=[], strip=STRIP, count=False)
    ctx.cleanup()
    print("replay:", "VIOLATION reproduced" if rej else "history accepted")
    return 1 if rej else 0
