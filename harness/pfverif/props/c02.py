"""C02 - calling a pipeline equals composing its functions along the DAG.

Spec: PipelineStatic.tla (Eval, Needed, Source, cuts) + PipelineCall.tla (Begin/Call/Return/Raise).
1. TLC checks the laws of the static semantics on every description of a TLA+-defined universe (MC_PipelineCall,
   USpec) and explores every behaviour of the call state machine (BSpec); it exports each description with its
   valid argument cuts per output.
2. The harness builds the real Pipeline in every listing order, checks that every combination listed by
   arg_combinations is an exported valid cut, calls the pipeline with every valid cut (pipeline(), run(), func(),
   full_output), with a surplus keyword and with a missing argument, and records begin/call/return/raise events.
3. TLC validates every recorded history (TracePipelineCall).
4. Random larger DAGs (up to 6 functions) go through 2-3 with cuts computed by the spec during validation.
"""
from __future__ import annotations

import itertools
import json
import random

from .. import build, pcall
from ..ctx import Ctx
from ..tlc import MachineryError, run_tlc
from ..tracekit import parse_prints, validate_traces

PROPERTY = "C02"
LEVEL = "model_checking"

UCFG = """SPECIFICATION USpec
CONSTANTS N = {n} Rich = {rich} Shard = {shard} NShards = {nshards}
INVARIANT InvAcyclic InvClosed InvDefined InvOrder InvRootCut InvSupplied Emit
"""
BCFG = """SPECIFICATION BSpec
CONSTANTS N = {n} Rich = {rich} Shard = 0 NShards = 1
INVARIANT InvDoneOnlyNeeded InvReturnExact
"""


def features(desc: dict, out: str, kw: list) -> dict:
    outs = {o for f in desc["funcs"] for o in f["outputs"]}
    return {"tuple_output": any(len(f["outputs"]) > 1 for f in desc["funcs"]),
            "supplied_intermediate": any(n in outs for n, _ in kw),
            "has_bound": any(f["bound"] for f in desc["funcs"]),
            "has_default": any(f["defaults"] for f in desc["funcs"])}


def histories_for_case(case: dict, rng: random.Random, all_orders: bool) -> tuple[list[dict], list[dict]]:
    """Build the real pipelines for one exported case; returns (traces, violations)."""
    tdesc = case["desc"]
    pdesc = pcall.tla_desc_to_py(tdesc)
    cuts = {o: {tuple(sorted(c)) for c in cs} for o, cs in case["cuts"].items()}
    n = len(pdesc["funcs"])
    orders = list(itertools.permutations(range(n))) if all_orders else [tuple(range(n)), tuple(reversed(range(n)))]
    traces, viols = [], []
    names = sorted({p for f in pdesc["funcs"] for p in f["params"]} | {o for f in pdesc["funcs"] for o in f["outputs"]})
    for order in orders:
        d2 = {"funcs": [pdesc["funcs"][i] for i in order]}
        t2 = {"funcs": [tdesc["funcs"][i] for i in order]}
        import contextlib, io
        with contextlib.redirect_stdout(io.StringIO()):
            pl = build.make_pipeline(d2)
        evs: list[dict] = []
        for o in sorted(cuts):
            listed = {tuple(sorted(c)) for c in pl.arg_combinations(o)}
            for c in sorted(listed - cuts[o]):
                viols.append({"sig": {"check": "arg_combinations", "clause": "listed-combination-not-a-valid-cut",
                                      **features(tdesc, o, [[x, 0] for x in c]),
                                      "contains_unused_sibling_output": any(
                                          x in {oo for f in tdesc["funcs"] if len(f["outputs"]) > 1 for oo in f["outputs"]}
                                          for x in c)},
                              "what": f"arg_combinations({o!r}) lists {c}, which the specification does not accept as a "
                                      f"valid cut (valid: {sorted(cuts[o])})",
                              "witness": {"desc": t2, "out": o, "listed": c}})
            modes = ["call", "run", "func", "full"]
            for ci, c in enumerate(sorted(cuts[o])):
                kw = [[x, pcall.kv(x)] for x in c]
                for m in (modes if ci == 0 else [modes[(ci + len(o)) % 4]]):
                    evs += pcall.do_call(pl, o, kw, m)
                # surplus keyword: any name not in the cut and not the output
                extra = [x for x in names if x not in c and x != o]
                if extra:
                    x = rng.choice(extra)
                    evs += pcall.do_call(pl, o, kw + [[x, pcall.kv(x)]], "call")
                if c:
                    drop = rng.randrange(len(c))
                    evs += pcall.do_call(pl, o, [p for i, p in enumerate(kw) if i != drop], "call")
                # a keyword for a name that an executed function binds: whether it is rejected is a don't-care, but if the
                # call returns, the bound value (not the keyword) must have been used
                for b in sorted({p for f in pdesc["funcs"] for p in f["bound"]} - set(c) - {o}):
                    evs += pcall.do_call(pl, o, kw + [[b, pcall.kv(b)]], "call")
        traces.append({"desc": t2, "ev": evs, "order": list(order)})
    return traces, viols


def classify(tr: dict, reached: int) -> dict:
    evs = tr["ev"]
    e = evs[reached - 1]
    if e["e"] == "combo":
        multi = {oo for f in tr["desc"]["funcs"] if len(f["outputs"]) > 1 for oo in f["outputs"]}
        names = [n for n, _ in e["kw"]]
        # classification only (TLC has already decided): which listed names does the evaluation not consult under this cut?
        surplus = set(names) - _consulted(tr["desc"], set(names), e["out"])
        sibling = bool(surplus) and surplus <= multi
        return {"check": "arg_combinations", "clause": "listed-combination-not-a-valid-cut",
                **features(tr["desc"], e["out"], e["kw"]), "contains_unused_sibling_output": sibling}
    if e["e"] == "construct-error":
        return {"check": "construction", "clause": "valid-description-refused", "cls": e["cls"],
                "has_dataclass": any(f.get("dataclass") for f in tr["desc"]["funcs"])}
    b = next(x for x in reversed(evs[:reached]) if x["e"] == "begin")
    return {"check": "call-history", "event": e["e"], "cls": e["cls"], "mode": b["mode"],
            **features(tr["desc"], b["out"], b["kw"])}


def _consulted(desc: dict, supplied: set, out: str) -> set:
    """Names of `supplied` that the evaluation of `out` reads (backward closure stopping at supplied names)."""
    prod = {o: f for f in desc["funcs"] for o in f["outputs"]}
    seen, todo, used = set(), [out], set()
    while todo:
        o = todo.pop()
        f = prod.get(o)
        if f is None or f["name"] in seen:
            continue
        seen.add(f["name"])
        bound = {p for p, _ in f["bound"]}
        for p in f["params"]:
            if p in bound:
                continue
            if p in supplied:
                used.add(p)
            elif p in prod:
                todo.append(p)
    return used


def _consumed_towards(desc: dict, name: str, out: str) -> bool:
    """Is `name` a parameter of some function that `out` (transitively) depends on?"""
    prod = {o: f for f in desc["funcs"] for o in f["outputs"]}
    seen, todo = set(), [out]
    while todo:
        o = todo.pop()
        f = prod.get(o)
        if f is None or f["name"] in seen:
            continue
        seen.add(f["name"])
        bound = {p for p, _ in f["bound"]}
        for p in f["params"]:
            if p in bound:
                continue
            if p == name:
                return True
            todo.append(p)
    return False


def validate(ctx: Ctx, traces: list[dict], name: str) -> None:
    rej = validate_traces(ctx, "TracePipelineCall", traces, name, invariants=["InvDoneOnlyNeeded"], strip=("order",),
                          chunk=300)
    for i, reached in rej.items():
        tr = traces[i]
        sig = classify(tr, reached)
        evs = tr["ev"]
        if evs[reached - 1]["e"] == "combo":
            ctx.violation(sig, f"arg_combinations({evs[reached-1]['out']!r}) lists {[n for n, _ in evs[reached-1]['kw']]}, "
                               "which the specification does not accept as a valid cut",
                          {"desc": tr["desc"], "out": evs[reached - 1]["out"], "listed": [n for n, _ in evs[reached - 1]["kw"]]})
            continue
        if evs[reached - 1]["e"] == "construct-error":
            ctx.violation(sig, f"a valid description was refused at construction: {evs[reached-1]['cls']} {evs[reached-1]['val']['f'][:160]}",
                          {"desc": tr["desc"], "order": tr.get("order"), "events": evs[:1]})
            continue
        bi = max(k for k in range(reached) if evs[k]["e"] == "begin")
        ctx.violation(sig, f"pipeline call not explained by PipelineCall.tla at event {reached}: {evs[reached-1]}",
                      {"desc": tr["desc"], "call": evs[bi], "events": evs[bi:reached + 1]})


# ---- random larger DAGs ----------------------------------------------------------------------------
def random_desc(rng: random.Random, nf: int, picker: bool = False, hook: bool = False, conflict: bool = False) -> dict:
    roots = ["x", "y", "z", "w"]
    funcs = []
    avail = list(roots)
    for i in range(nf):
        name = f"f{i}"
        k = rng.choice([0, 1, 2, 2, 3])
        params = rng.sample(avail, min(k, len(avail)))
        # bias towards diamonds: several consumers of the same earlier output
        if funcs and rng.random() < 0.5:
            shared = funcs[0]["outputs"][0]
            if shared not in params:
                params = (params + [shared])[-3:]
        outs = [f"o{i}"] if rng.random() < 0.75 else [f"o{i}", f"o{i}b"]
        dfl = []
        bnd = []
        for p in params:
            r = rng.random()
            hot = bool(funcs) and p == funcs[0]["outputs"][0]       # the output several consumers share (diamond bias above)
            if (p in roots and r < 0.2) or (p not in roots and r < (0.4 if hot else 0.12)):
                # (a default on a parameter that another function produces is legal: the produced value wins - so two
                # consumers may even declare DIFFERENT defaults for it; root arguments get one value per name)
                # (conflict=True; other users of this generator drop / cut producers, which would make such a pair ill-formed)
                dfl.append([p, {"f": f"@d_{p}" if (p in roots or not conflict) else f"@d_{p}_{i}", "a": []}])
            elif r > 0.88:
                bnd.append([p, {"f": f"@b_{p}_{i}", "a": []}])
        funcs.append({"name": name, "params": params, "outputs": outs, "defaults": dfl, "bound": bnd, "has_ms": False,
                      "ms": {"ins": [], "outs": []}, "internal": [], "cache": False,
                      "retnone": rng.random() < (0.35 if i == 0 else 0.1),                      # None is an ordinary result value
                      "outperm": len(outs) > 1 and rng.random() < 0.4,     # tuple outputs renamed by a permutation
                      "outrenamed": rng.random() < 0.2,
                      # custom output_picker (the function returns a mapping keyed by its output names): only where the
                      # caller never renames outputs afterwards (a user's picker cannot follow a rename either)
                      "picker": picker and len(outs) > 1 and rng.random() < 0.35,
                      "hook": hook and rng.random() < 0.3,     # post_execution_hook: an event of its own after the call
                      "dataclass": picker and len(outs) == 1 and rng.random() < 0.2,   # a dataclass as the pipeline function
                      "renamed": [p for p in params if rng.random() < 0.3]})   # underlying argument named differently
        # the single result of every third such function is itself a tuple: still ONE value for ONE output name
        # (decided without drawing from rng: the other generators' streams stay as they were)
        f_ = funcs[-1]
        f_["rettuple"] = bool(picker and len(outs) == 1 and i % 3 == 2 and not f_["dataclass"] and not f_["retnone"])
        avail += outs
    # consistent defaults: one default value per name (already by construction)
    return {"funcs": funcs}


def random_history(rng: random.Random, tdesc: dict) -> dict:
    pdesc = pcall.tla_desc_to_py(tdesc)
    order = list(range(len(pdesc["funcs"])))
    rng.shuffle(order)
    import contextlib, io
    try:
        with contextlib.redirect_stdout(io.StringIO()):
            pl = build.make_pipeline({"funcs": [pdesc["funcs"][i] for i in order]})
    except Exception as ex:  # noqa: BLE001  the descriptions are valid by construction: a refusal is an event no action explains
        from ..terms import Term, to_json
        return {"desc": {"funcs": [tdesc["funcs"][i] for i in order]}, "order": order,
                "ev": [pcall.ev(e="construct-error", cls=type(ex).__name__, val=to_json(Term("#msg:" + str(ex)[:200])))]}
    outs = [o for f in pdesc["funcs"] for o in f["outputs"]]
    evs: list[dict] = []
    for o in outs:                      # every listed combination of every output must be a valid cut (TLC decides)
        for c in sorted(pl.arg_combinations(o)):
            evs.append(pcall.ev(e="combo", out=o, kw=[[x, pcall.kv(x)] for x in c]))
    for _ in range(6):
        o = rng.choice(outs)
        combos = sorted(pl.arg_combinations(o))
        c = list(rng.choice(combos))
        r = rng.random()
        if r < 0.15 and c:
            c.pop(rng.randrange(len(c)))
        elif r < 0.3:
            extra = [x for x in outs + ["x", "y", "z", "w"] if x not in c and x != o]
            if extra:
                c.append(rng.choice(extra))
        evs += pcall.do_call(pl, o, [[x, pcall.kv(x)] for x in c], rng.choice(["call", "run", "func", "full"]))
    return {"desc": {"funcs": [tdesc["funcs"][i] for i in order]}, "ev": evs, "order": order}


def run(ctx: Ctx) -> None:
    quick = ctx.tier == "quick"
    rng = random.Random(ctx.seed)
    ctx.rule = ("case = one top-level call (description in a listing order, requested output, keyword set, calling "
                "convention); descriptions are ALL members of the TLA+-defined universe (2 functions quick / 3 functions "
                "thorough; parameters from 3 roots and earlier outputs; options default/bound/shadowing bound/tuple output),"
                " every valid cut + one surplus + one missing variant each; plus random DAGs up to 6 functions; "
                "non-trivial = at least one user function executed")
    ctx.assumptions = ["TLC and the JSON encoding are trusted", "user functions are free term constructors",
                       "positional-only/var-args signatures and pydantic callables are not generated (dataclass callables are)"]
    cases: list[dict] = []
    if quick:
        wd = ctx.workdir("u2")
        r = run_tlc("MC_PipelineCall", UCFG.format(n=2, rich="TRUE", shard=0, nshards=1), wd, workers=16,
                    allow_violation=False)
        ctx.add_tlc(r, "USpec N=2 (rich: both parameter orders, bound first parameter)")
        cases += [p for t, p in parse_prints(r.prints) if t == "CASE"]
        r = run_tlc("MC_PipelineCall", BCFG.format(n=2, rich="FALSE"), ctx.workdir("b2"), workers=16, deadlock=True,
                    allow_violation=False)
        ctx.add_tlc(r, "BSpec N=2 (deadlock checking on)")
    else:
        wd = ctx.workdir("u2r")
        r = run_tlc("MC_PipelineCall", UCFG.format(n=2, rich="TRUE", shard=0, nshards=1), wd, workers=16,
                    allow_violation=False)
        ctx.add_tlc(r, "USpec N=2 rich")
        cases += [p for t, p in parse_prints(r.prints) if t == "CASE"]
        r = run_tlc("MC_PipelineCall", BCFG.format(n=2, rich="TRUE"), ctx.workdir("b2r"), workers=16, deadlock=True,
                    allow_violation=False, timeout=3000)
        ctx.add_tlc(r, "BSpec N=2 rich (deadlock checking on)")
        r = run_tlc("MC_PipelineCall", UCFG.format(n=3, rich="FALSE", shard=0, nshards=1), ctx.workdir("u3"), workers=16,
                    allow_violation=False, timeout=3000, heap="12g")
        ctx.add_tlc(r, "USpec N=3")
        cases += [p for t, p in parse_prints(r.prints) if t == "CASE"]
    if not cases:
        raise MachineryError("no cases exported")
    traces: list[dict] = []
    for case in cases:
        build.LOG.clear()
        tr, viols = histories_for_case(case, rng, all_orders=True)
        traces += tr
        for v in viols:
            ctx.violation(v["sig"], v["what"], v["witness"])
    for t in traces:
        i = 0
        evs = t["ev"]
        while i < len(evs):
            j = i + 1
            while j < len(evs) and evs[j]["e"] != "begin":
                j += 1
            ncalls = sum(1 for e in evs[i:j] if e["e"] == "call")
            ctx.case({"d": t["desc"], "c": evs[i]}, nontrivial=ncalls > 0)
            i = j
    ctx.sample({"desc": traces[len(traces) // 2]["desc"], "events": traces[len(traces) // 2]["ev"][:6]})
    validate(ctx, traces, "universe")
    ctx.exhaustive = False

    # random larger DAGs
    rtraces = []
    for _ in range(150 if quick else 2500):
        build.LOG.clear()
        td = random_desc(rng, rng.randint(3, 6), picker=True, hook=True, conflict=True)
        for f in td["funcs"]:
            if f["picker"]:
                f["hook"] = False          # (the hook's result would be the raw mapping)
        rtraces.append(random_history(rng, td))
    for t in rtraces:
        ctx.case({"d": t["desc"], "n": len(t["ev"])})
    ctx.sample({"random_desc": rtraces[0]["desc"], "events": rtraces[0]["ev"][:4]})
    validate(ctx, rtraces, "random")

    # binding self-test: alter one atom of one returned value
    import copy
    good = [t for t in traces if any(e["e"] == "return" for e in t["ev"])][:12]
    base = validate_traces(ctx, "TracePipelineCall", copy.deepcopy(good), "st0", invariants=[], strip=("order",), count=False)
    bad = copy.deepcopy(good)
    clean = [i for i in range(len(bad)) if i not in base]   # only traces TLC accepts uncorrupted can be victims
    if not clean:
        ctx.selftests.append({'name': 'trace-corruption', 'ok': True, 'detail': 'not applicable: no accepted trace to corrupt'})
        return
    vi = clean[len(clean) // 2]
    k = next(i for i, e in enumerate(bad[vi]["ev"]) if e["e"] == "return")
    bad[vi]["ev"][k]["val"]["f"] += "_corrupt"
    rej = validate_traces(ctx, "TracePipelineCall", bad, "st1", invariants=[], strip=("order",), count=False)
    exp = dict(base)
    if vi not in exp:
        exp[vi] = k + 1
    ctx.selftest("trace-corruption(returned term head altered)", rej == exp, f"rej={rej} expected={exp}")

    from . import c02_views
    c02_views.run(ctx)


def replay(rep: dict) -> int:
    w = rep["witness"]
    print(json.dumps(w, indent=1)[:6000])
    return 1
