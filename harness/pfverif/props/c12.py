"""C12 - ill-formed pipelines and inputs are rejected before any user code runs (and without touching a run folder that
was opened with cleanup=False).

Spec: Validity.tla - Valid as a conjunction of named clauses over (description, inputs, run configuration) and the Prepare
state machine (sub-actions in the order of prepare_run / RunInfo.create, abstract run folder, invariant RejectIsPure).
1. TLC (MC_Validity, MSpec) applies every single-fault mutation operator to every valid case of the C01 and C02 universes
   (shards), evaluates the clauses, checks the laws and runs the Prepare machine on every mutant with the REQUIRED position
   of the storage check (all invariants hold) and with the position the implementation uses ("late": TLC must exhibit the
   RejectIsPure counterexample - unknown storage discovered after DumpRunInfo).  Each invalid mutant is exported with the
   violated clause; mutants that stay valid are counted and discarded.
2. For every exported mutant the harness creates a valid run folder (the unmutated pipeline is run into it), snapshots it
   byte for byte, constructs/runs the mutant on the real code and records outcome (exception class | returned), number
   of user-function calls and whether the folder changed; the record is compared with the export: rejected, no calls,
   folder unchanged when cleanup=False.  Every valid base must be accepted by the real code.
3. Fixed examples taken from the repository's pytest.raises tests and random larger mutants (mapped pipelines of gen_map,
   DAGs of C02) are judged by TLC itself: the recorded outcome must be the end state of the Prepare machine on that
   request (trace validation, MC_Validity Spec).
4. Three further classes go through 1-3: an unknown name at any position of a per-output storage DICTIONARY (tuple keys,
   keys that name no array output); ill-formedness introduced AFTER construction through pipeline[name].update_renames /
   update_defaults on a valid pipeline, followed by map or by a call (the harness checks that the pipeline after the update
   is the description TLC judged); and the call side pipeline(out, **kw) with a dropped or an added keyword (missing
   argument / surplus keyword must be reported before any user function runs).  TLC exhibits the implementation-shaped
   orderings (storage "late"/"any", keywords "late") as counterexamples of RejectIsPure / OnlyReject.
5. Faults at a NON-FIRST output of a function with a tuple output (family tuple_output, a TLC process of its own over the
   C01 cases with a second output and a mapped consumer): the consumer re-wired to the sibling output and then given the
   axis-name faults, the k-th output spec / output name given the signature fault / the rename collision.  Operator
   default_pair: two functions sharing a root argument declare two different defaults out of {None, 0, an ordinary value}
   in both orders; the harness hands None and 0 to the real code as the Python objects (LITERALS), after checking that
   they encode back to the term TLC judged.
6. Two universes of their own in a fourth TLC process (families wide_zip, derived_mapspec).  wide_zip: one MapSpec with
   THREE OR FOUR arrays on a shared axis (mixed ranks, one of them optionally produced upstream), every root array grown
   and shrunk along every axis - the array out of step is the first, a middle or the last one (law
   Validity!LawZipIsAboutAllArrays: one size per axis name, any listing order).  derived_mapspec: MapSpecs that pipefunc
   DERIVES (Validity!Nest = NestedPipeFunc's combined MapSpec, Validity!AddMapspecAxis = Pipeline.add_mapspec_axis) next
   to a hand-written consumer with an axis-name fault.  The harness builds the hand-written functions `pre`, lets the real
   library derive (NestedPipeFunc([...]) / add_mapspec_axis), checks that the derived function(s) are the ones TLC
   derived (same_function; MachineryError otherwise) and only then constructs the pipeline / adds the consumer.
"""
from __future__ import annotations

import contextlib
import copy
import hashlib
import io
import json
import multiprocessing as mp
import os
import random
import re
import shutil
import tempfile
import warnings
from concurrent.futures import ProcessPoolExecutor, ThreadPoolExecutor
from pathlib import Path

from .. import build, gen_map, pmap
from ..build import desc_to_tla
from ..ctx import Ctx
from ..tlc import MachineryError, run_tlc
from ..terms import from_json, to_json
from ..tracekit import parse_prints, validate_traces

PROPERTY = "C12"
LEVEL = "model_checking"

LAWS = "Laws"
INVS = "InvRejectIsPure InvNoCodeBeforeAccept InvOnlyReject InvValidAccepted InvEnds"
MCFG = """SPECIFICATION MSpec
CONSTANTS MaxSize = {maxsize} RichM = {richm} ShardM = {shardm} NShardsM = {nshardsm}
          N = {n} RichP = {richp} ShardP = {shardp} NShardsP = {nshardsp} StorageCheck = "{storage_check}"
          KwargCheck = "{kwarg_check}" ShardT = {shardt} NShardsT = {nshardst} ShardD = {shardd} NShardsD = {nshardsd}
          Families = {{{families}}}
INVARIANT {invs}
"""
FAMILIES_N2 = ("basic", "storage_dict", "post_map", "post_call", "call_kw", "illformed_call", "illformed_run_func")   # everything
FAMILIES_N3 = ("post_call", "illformed_call")    # three functions: the faults met through the call side, every output
FAMILIES_TUPLE = ("tuple_output",)               # faults at a non-first output of a tuple output (universe of its own)
FAMILIES_WIDE = ("wide_zip", "derived_mapspec")  # >= 3 arrays on one axis; library-derived MapSpecs (universes of their own)
NSHARDS_D = 4                                    # residues of MC_Validity!DerivedKey (chain cases of the derived-MapSpec family)
NSHARDS_T = 64                                   # every residue of MC_Validity!TupleKey is inhabited (6 .. 56 cases)
TRACE_CONSTANTS = ('MaxSize = 1 RichM = FALSE ShardM = 1 NShardsM = 1 N = 2 RichP = FALSE ShardP = 1 NShardsP = 1 '
                   'StorageCheck = "early" KwargCheck = "early" ShardT = 0 NShardsT = 1 ShardD = 0 NShardsD = 1 Families = {}')   # empty universes; the REQUIRED positions of the checks
NPROC = min(8, os.cpu_count() or 4)


# ---- running one request on the real code ---------------------------------------------------------------------------
def snapshot(folder: str | None) -> dict[str, str]:
    """Byte-for-byte picture of a run folder: relative path -> sha1 of the content ('<dir>' for directories)."""
    snap: dict[str, str] = {}
    if folder is None or not os.path.exists(folder):
        return {"<absent>": ""}
    for root, dirs, files in os.walk(folder):
        rel = os.path.relpath(root, folder)
        snap[rel + "/"] = "<dir>"
        for f in files:
            p = os.path.join(root, f)
            with open(p, "rb") as fh:
                snap[os.path.join(rel, f)] = hashlib.sha1(fh.read()).hexdigest()
    return snap


CFG0 = {"storage": "file_array", "sdict": [], "parallel": False, "executor": False, "ekeys": [], "cleanup": True, "folder": True}
NOHOW = {"kind": "", "f": "", "old": "", "new": ""}


def storage_arg(cfg: dict):
    """cfg.storage / cfg.sdict -> the `storage=` argument (a dict keeps the insertion order of sdict)."""
    if not cfg.get("sdict"):
        return cfg["storage"]
    return {("" if not e["key"] else e["key"][0] if len(e["key"]) == 1 else tuple(e["key"])): e["name"] for e in cfg["sdict"]}


# Default values that are handed to the real code as the Python objects themselves (everything else stays an opaque Term):
# the "nothing here"-like values of MC_Validity!DefaultValues.  The table is only a decoder: each entry must encode back
# (terms.to_json) to exactly the term TLC judged, otherwise the binding is broken (MachineryError).
LITERALS = {"#none": None, "@0": 0}


def literal_default(v: dict) -> tuple[bool, object]:
    if v["a"] or v["f"] not in LITERALS:
        return False, None
    obj = LITERALS[v["f"]]
    if to_json(obj) != {"f": v["f"], "a": []}:
        raise MachineryError(f"literal table: {obj!r} does not encode to {v}")
    return True, obj


def make_pipeline(pydesc: dict):
    """build.make_pipeline, except that literal defaults (None, 0) reach PipeFunc as the Python objects: the function is
    built without them and gets them through PipeFunc.update_defaults BEFORE the Pipeline is constructed."""
    from pipefunc import Pipeline
    if not any(literal_default(v)[0] for fd in pydesc["funcs"] for v in fd["defaults"].values()):
        return build.make_pipeline(pydesc)
    funcs = []
    for fd in pydesc["funcs"]:
        lit = {p: literal_default(v)[1] for p, v in fd["defaults"].items() if literal_default(v)[0]}
        pf = build.make_pipefunc(dict(fd, defaults={p: v for p, v in fd["defaults"].items() if p not in lit}))
        if lit:
            pf.update_defaults(lit)
            if any(pf.defaults[p] is not o for p, o in lit.items()):
                raise MachineryError(f"literal defaults {lit} did not arrive at the PipeFunc: {pf.defaults}")
        funcs.append(pf)
    return Pipeline(funcs)


def same_function(pf, fd: dict) -> bool:
    """Is the real PipeFunc the function record `fd` (TLA form)?  Output names, parameters and the MapSpec; the listing
    order inside the MapSpec / of a nested function's names is not part of a description (compared as sets)."""
    outs = pf.output_name if isinstance(pf.output_name, tuple) else (pf.output_name,)
    if set(outs) != set(fd["outputs"]) or sorted(pf.parameters) != sorted(fd["params"]):
        return False
    real = build.parse_mapspec(str(pf.mapspec) if pf.mapspec is not None else None)
    def norm(specs):
        return sorted((x["name"], tuple(x["axes"])) for x in specs)
    return bool(pf.mapspec is not None) == bool(fd["has_ms"]) and (not fd["has_ms"] or (
        norm(real["ins"]) == norm(fd["ms"]["ins"]) and norm(real["outs"]) == norm(fd["ms"]["outs"])))


def signature_of(pl) -> list:
    return sorted((tuple(f.output_name) if isinstance(f.output_name, tuple) else (f.output_name,), tuple(sorted(f.parameters)))
                  for f in pl.functions)


def run_request(req: dict, run_folder: str | None, kinds: dict | None = None, how: dict | None = None) -> dict:
    """Realise one request on the real code.  Without `how`: construct the pipeline of req.desc.  With `how`: construct
    the VALID pipeline req.prev.desc and introduce the fault through the public update methods of a member function
    (the resulting pipeline must be the one req.desc describes).  Then map (req.cfg) or call (req.out, keywords =
    req.inputs).  Returns the observation record."""
    tdesc, inputs, cfg = req["desc"], req["inputs"], req["cfg"]
    before = snapshot(run_folder)
    start = len(build.LOG)
    stage = "construct"
    exc: BaseException | None = None
    executor = pool = None
    mismatch = False
    try:
        with contextlib.redirect_stdout(io.StringIO()), warnings.catch_warnings():
            warnings.simplefilter("ignore")
            if how and how["kind"] in ("rename", "defaults"):
                base = req["prev"]["desc"]
                pl = make_pipeline(pmap.tla_desc_to_py(base))
                stage = "mutate"
                fout = next(f["outputs"][0] for f in base["funcs"] if f["name"] == how["f"])
                if how["kind"] == "rename":
                    pl[fout].update_renames({how["old"]: how["new"]})
                elif how["kind"] == "defaults":
                    pl[fout].update_defaults({how["old"]: from_json({"f": "@changed", "a": []})})
                else:
                    raise ValueError(how["kind"])
                want = sorted((tuple(f["outputs"]), tuple(sorted(f["params"]))) for f in tdesc["funcs"])
                mismatch = signature_of(pl) != want
            elif how and how.get("kind") == "nest":
                # the library derives the combined MapSpec: NestedPipeFunc([how.f, how.old]) of the hand-built functions `pre`;
                # it must be the first function of the description TLC judged (checked BEFORE the Pipeline is constructed)
                from pipefunc import NestedPipeFunc, Pipeline
                try:          # harness-only preparation: a failure here is no rejection by pipefunc
                    pre = pmap.tla_desc_to_py(how["pre"])
                    pfs = [(fd["name"], build.make_pipefunc(fd)) for fd in pre["funcs"]]
                except Exception as ex:  # noqa: BLE001
                    raise MachineryError(f"nest: cannot build the functions of `pre`: {ex!r}") from ex
                stage = "mutate"
                nested = NestedPipeFunc([pf for n, pf in pfs if n in (how["f"], how["old"])])
                if not same_function(nested, tdesc["funcs"][0]):
                    raise MachineryError(f"NestedPipeFunc {nested.output_name} {nested.parameters} {nested.mapspec} is not the "
                                         f"function the specification derived: {tdesc['funcs'][0]}")
                stage = "construct"
                pl = Pipeline([nested] + [pf for n, pf in pfs if n not in (how["f"], how["old"])])
            elif how and how.get("kind") == "add_axis":
                # Pipeline(pre).add_mapspec_axis(how.old, axis=how.new) rewrites the MapSpecs (they must be the ones TLC
                # derived), then the hand-written consumer - the last function of the description - is added
                try:          # the valid pipeline before the axis (harness-only preparation + a valid construction)
                    pl = make_pipeline(pmap.tla_desc_to_py(how["pre"]))
                    last = build.make_pipefunc(pmap.tla_desc_to_py({"funcs": tdesc["funcs"][-1:]})["funcs"][0])
                except Exception as ex:  # noqa: BLE001
                    raise MachineryError(f"add_axis: cannot build the pipeline `pre` / the consumer: {ex!r}") from ex
                stage = "mutate"
                pl.add_mapspec_axis(how["old"], axis=how["new"])
                for fd in tdesc["funcs"][:-1]:
                    if not same_function(pl[fd["outputs"][0]], fd):
                        raise MachineryError(f"after add_mapspec_axis: {pl[fd['outputs'][0]].mapspec} is not what the specification "
                                             f"derived: {fd}")
                stage = "construct"
                pl.add(last)
            else:
                pl = make_pipeline(pmap.tla_desc_to_py(tdesc))
            stage = req.get("entry", "map")
            inp = pmap.inputs_to_py(inputs, kinds)
            if stage == "call":
                pl(req["out"], **inp)
            elif stage == "run":
                pl.run(req["out"], kwargs=inp, full_output=True)
            elif stage == "func":
                pl.func(req["out"])(**inp)
            else:
                pool = None
                if cfg["executor"]:
                    pool = executor = ThreadPoolExecutor(1)
                    if cfg.get("ekeys"):     # the dictionary form: output name(s) / "" -> Executor
                        executor = {("" if not k else k[0] if len(k) == 1 else tuple(k)): pool for k in cfg["ekeys"]}
                pl.map(inp, run_folder=run_folder, storage=storage_arg(cfg), parallel=cfg["parallel"], cleanup=cfg["cleanup"],
                       executor=executor)
    except MachineryError:
        raise
    except Exception as ex:  # noqa: BLE001
        exc = ex
    finally:
        if pool is not None:
            pool.shutdown(wait=True)
    calls = sum(1 for r in build.LOG[start:] if r["e"] == "call")
    after = snapshot(run_folder)
    changed = sorted(k for k in set(before) | set(after) if before.get(k) != after.get(k))
    return {"outcome": "returned" if exc is None else "rejected", "cls": type(exc).__name__ if exc else "",
            "msg": str(exc)[:240] if exc else "", "stage": stage if exc else "", "calls": calls,
            "folder_changed": bool(changed), "changed": changed[:6], "model_mismatch": mismatch}


def base_request(base: dict, entry: str = "map", out: str = "") -> dict:
    return {"desc": base["desc"], "inputs": base["inputs"], "cfg": dict(CFG0, folder=entry == "map"), "prev": base,
            "entry": entry, "out": out}


def run_base_group(job: dict) -> dict:
    """Worker: one valid base case with all its mutants.  The unmutated pipeline is run into a fresh folder first (this is
    the 'previous run' of the cleanup=False variants and the proof that the base is accepted); every mutant then gets its
    own copy of that folder."""
    base = job["base"]
    tmp = tempfile.mkdtemp(prefix="pfverif_c12_")
    out = {"base": None, "obs": []}
    try:
        build.LOG.clear()
        basedir = os.path.join(tmp, "base")
        first = job["mutants"][0]
        if first["op"].startswith("call_"):  # a call-side group: the valid base call (no folder involved)
            out["base"] = run_request(base_request(base, "call", first["req"]["out"]), None, job.get("kinds"))
        else:
            out["base"] = run_request(base_request(base), basedir, job.get("kinds"))
        for k, m in enumerate(job["mutants"]):
            build.LOG.clear()
            req = m["req"]
            folder = None
            if req["entry"] == "map" and req["cfg"]["folder"]:
                folder = os.path.join(tmp, f"m{k}")
                if os.path.isdir(basedir):
                    shutil.copytree(basedir, folder)
            out["obs"].append(run_request(req, folder, m.get("kinds"), m.get("how")))
            if folder:
                shutil.rmtree(folder, ignore_errors=True)
        return out
    finally:
        shutil.rmtree(tmp, ignore_errors=True)


def run_groups(jobs: list[dict]) -> list[dict]:
    if not jobs:
        return []
    with ProcessPoolExecutor(NPROC, mp_context=mp.get_context("fork")) as pool:
        return list(pool.map(run_base_group, jobs, chunksize=max(1, len(jobs) // (NPROC * 8))))


# ---- comparison of an observation with the export -------------------------------------------------------------------
def discrepancies(exp: dict, obs: dict) -> list[str]:
    """`exp` = an exported INVALID mutant (violated clause), `obs` = what the real code did."""
    cfg = exp["req"]["cfg"]
    bad = []
    if obs["outcome"] != "rejected":
        bad.append("accepted")
    if obs["calls"] != 0:
        bad.append("user-code-ran")
    if obs["outcome"] == "rejected" and cfg["folder"] and not cfg["cleanup"] and obs["folder_changed"]:
        bad.append("folder-changed")
    return bad


KNOWN = ("dict", "file_array", "shared_memory_dict")


def _shape(v: dict) -> list[int]:
    sh = []
    while v["f"] == "#arr" and v["a"]:
        sh.append(len(v["a"]))
        v = v["a"][0]
    return sh


def out_of_step(req: dict) -> str:
    """LABEL (never a verdict): in the widest zip of root arrays, is the array whose size differs from all the others the
    "first", a "middle" or the "last" one of the MapSpec?  ("" when that cannot be told from the root inputs.)"""
    inp = {n: _shape(v) for n, v in req["inputs"]}
    prod = {o: f for f in req["desc"]["funcs"] for o in f["outputs"]}
    for f in req["desc"]["funcs"]:
        if not f["has_ms"]:
            continue
        for a in sorted({x for sp in f["ms"]["ins"] for x in sp["axes"] if x != ":"}):
            sizes = []
            for sp in f["ms"]["ins"]:
                if a not in sp["axes"]:
                    continue
                src = sp["name"]
                if src in prod and len(prod[src]["params"]) == 1:      # produced element-wise from one root array
                    src = prod[src]["params"][0]
                sh = inp.get(src)
                if sh is None or len(sh) != len(sp["axes"]):
                    return ""
                sizes.append(sh[sp["axes"].index(a)])
            odd = [k for k, x in enumerate(sizes) if sizes.count(x) == 1]
            if len(sizes) >= 3 and len(odd) == 1:
                return "first" if odd[0] == 0 else "last" if odd[0] == len(sizes) - 1 else "middle"
    return ""


def features(req: dict, how: dict | None = None) -> dict:
    """Labels for violation signatures (they classify, they never judge)."""
    fs = req["desc"]["funcs"]
    cfg = req["cfg"]
    sd = cfg.get("sdict") or []
    feat = {"entry": req.get("entry", "map"), "post_construction": bool(how and how["kind"] in ("rename", "defaults")),
            "mapped": any(f["has_ms"] and f["ms"]["ins"] for f in fs), "internal_shape": any(f["internal"] for f in fs),
            "cleanup": cfg["cleanup"], "folder": cfg["folder"], "storage_dict": bool(sd),
            "executor_form": "none" if not cfg["executor"] else "dict" if cfg.get("ekeys") else "bare",
            "storage_known": all(e["name"] in KNOWN for e in sd) if sd else cfg["storage"] in KNOWN}
    # the declared defaults in listing order, by kind ("none" / "zero" / "value"), for the arguments declared more than once
    kinds: dict[str, list[str]] = {}
    for f in fs:
        for p_, v in f["defaults"]:
            kinds.setdefault(p_, []).append({"#none": "none", "@0": "zero"}.get(v["f"], "value"))
    shared = sorted(">".join(ks) for ks in kinds.values() if len(ks) > 1)
    if shared:
        feat["shared_defaults"] = shared[0]
    if any(len(f["outputs"]) > 1 for f in fs):
        feat["tuple_output"] = True
    if how and how.get("kind") in ("nest", "add_axis"):
        feat["derived_mapspec"] = how["kind"]
    # the widest zip: how many arrays of one MapSpec share an axis name; which of them is out of step with the others
    width = max([sum(1 for sp in f["ms"]["ins"] if a in sp["axes"]) for f in fs if f["has_ms"]
                 for a in {x for sp in f["ms"]["ins"] for x in sp["axes"] if x != ":"}], default=0)
    if width >= 3:
        feat["zip_width"] = width
        where = out_of_step(req)
        if where:
            feat["zip_out_of_step"] = where
    if sd:
        unk = next((k for k, e in enumerate(sd) if e["name"] not in KNOWN), None)
        if unk is not None:
            arrays = [f["outputs"] for f in fs if f["has_ms"] and f["ms"]["ins"]]
            feat["dict_unknown_first"] = unk == 0
            feat["dict_unknown_key"] = ("default" if not sd[unk]["key"] else "array_output" if sd[unk]["key"] in arrays
                                        else "tuple_array_output" if False else "other")
            if sd[unk]["key"] in arrays and len(sd[unk]["key"]) > 1:
                feat["dict_unknown_key"] = "tuple_array_output"
            feat["dict_default_serializes"] = any(not e["key"] and e["name"] in ("file_array", "shared_memory_dict") for e in sd)
    return feat


def report(ctx: Ctx, kind: str, exp: dict, obs: dict, bad: list[str]) -> None:
    req = exp["req"]
    sig = {"check": kind.split(":")[0], "source": kind.split(":", 1)[1] if ":" in kind else "universe", "op": exp.get("op", "?"), "violated": exp.get("violated", "?"), "fault": "+".join(bad),
           "outcome": obs["outcome"], "cls": obs["cls"], **features(req, exp.get("how"))}
    what = (f"call {req['out']!r} with keywords {[n for n, _ in req['inputs']]}" if req.get("entry") == "call"
            else f"map cleanup={req['cfg']['cleanup']} storage={storage_arg(req['cfg'])} folder={req['cfg']['folder']}")
    if exp.get("how") and exp["how"]["kind"] in ("nest", "add_axis"):
        h = exp["how"]
        what = (f"Pipeline([NestedPipeFunc([{h['f']}, {h['old']}]), ...]) " if h["kind"] == "nest"
                else f"after add_mapspec_axis({h['old']!r}, axis={h['new']!r}) and add({h['f']}) ") + what
    elif exp.get("how") and exp["how"]["kind"]:
        h = exp["how"]
        what = (f"after pipeline[{h['f']}].update_renames({{{h['old']!r}: {h['new']!r}}}) " if h["kind"] == "rename"
                else f"after pipeline[{h['f']}].update_defaults({{{h['old']!r}: ...}}) ") + what
    ctx.violation(sig, f"{kind} op={exp.get('op')} (specification: violates {exp.get('violated')}; {what}): real code "
                       f"{obs['outcome']} {obs['cls']} {obs['msg'][:120]!r} calls={obs['calls']} folder_changed="
                       f"{obs['folder_changed']} {obs['changed']} -> {bad}; functions="
                       f"{[(f['name'], f['params'], f['outputs'], pmap.ms_string(f['ms']) if f['has_ms'] else None) for f in req['desc']['funcs']]}",
                  {"kind": kind, "exp": exp, "obs": obs})


# ---- TLC ------------------------------------------------------------------------------------------------------------
def mcfg(shardm: int, nshardsm: int, shardp: int, nshardsp: int, n: int = 2, families: tuple = FAMILIES_N2,
         shardt: int = 0, nshardst: int = 1, shardd: int = 0, nshardsd: int = 1, *, maxsize: int = 2, rich: bool = False, storage_check: str = "early", kwarg_check: str = "early",
         invs: str | None = None) -> str:
    return MCFG.format(maxsize=maxsize, richm="TRUE" if rich else "FALSE", shardm=shardm, nshardsm=nshardsm, n=n,
                       richp="TRUE" if rich else "FALSE", shardp=shardp, nshardsp=nshardsp, storage_check=storage_check,
                       kwarg_check=kwarg_check, shardt=shardt, nshardst=nshardst, shardd=shardd, nshardsd=nshardsd,
                       families=", ".join(f'"{f}"' for f in families),
                       invs=invs if invs is not None else f"{LAWS} {INVS} Emit")


def export_mutants(ctx: Ctx, shards: list[tuple], workers: int, **kw) -> tuple[list[dict], dict]:
    """shards: (ShardM, NShardsM, ShardP, NShardsP[, N, Families[, ShardT, NShardsT]]) per TLC process."""
    def one(k: int):
        return run_tlc("MC_Validity", mcfg(*shards[k], **kw), ctx.workdir(f"m_{k}"), workers=workers,
                       allow_violation=False, timeout=3000, heap="4g")
    cases: list[dict] = []
    stayed: dict[str, int] = {}
    with ThreadPoolExecutor(max_workers=max(1, 8 // workers)) as ex:
        for k, r in enumerate(ex.map(one, range(len(shards)))):
            ctx.add_tlc(r, f"MC_Validity MSpec early, shards M {shards[k][0]}/{shards[k][1]} P {shards[k][2]}/{shards[k][3]}"
                           + (f" N={shards[k][4]} families={list(shards[k][5])}" if len(shards[k]) > 4 else "")
                           + (f" T {shards[k][6]}/{shards[k][7]}" if len(shards[k]) > 6 else "")
                           + (f" D {shards[k][8]}/{shards[k][9]}" if len(shards[k]) > 8 else ""))
            for t, p in parse_prints(r.prints):
                if t == "CASE":
                    pre = p.pop("pre", None)
                    if p["how"]["kind"] in ("nest", "add_axis"):      # what the harness builds by hand before the library derives
                        p["how"] = dict(p["how"], pre=pre)
                    cases.append(p)
                elif t == "STAYED_VALID":
                    stayed[p["op"]] = stayed.get(p["op"], 0) + 1
    if not any(features(c["req"])["mapped"] for c in cases) or all(features(c["req"])["mapped"] for c in cases):
        raise MachineryError("MC_Validity: a universe shard is empty (no mapped / no call-style mutants exported)")
    if any(len(sh) > 5 and "tuple_output" in sh[5] for sh in shards) and not any(c["op"] == "axis_names_sibling" for c in cases):
        raise MachineryError("MC_Validity: the tuple-output shard is empty (no axis_names_sibling mutant exported)")
    if any(len(sh) > 5 and "wide_zip" in sh[5] for sh in shards):
        wide = [c for c in cases if c["op"] == "resized_axis_wide"]
        if not any(features(c["req"]).get("zip_out_of_step") == "middle" for c in wide) or \
                {c["op"] for c in cases} & {"axis_names_nested", "axis_names_added_axis"} != {"axis_names_nested", "axis_names_added_axis"}:
            raise MachineryError("MC_Validity: the wide-zip / derived-MapSpec shard is empty (no mutant with a MIDDLE array out "
                                 "of step, or no axis-name mutant next to a nested / an add_mapspec_axis MapSpec)")
    if not any(c["op"] == "default_pair" and features(c["req"]).get("shared_defaults", "").startswith("none>") for c in cases):
        raise MachineryError("MC_Validity: no default_pair mutant in which the FIRST declaration is None was exported")
    cases.sort(key=lambda c: json.dumps(c, sort_keys=True))
    return cases, stayed


_RE_PC = re.compile(r'^/\\ pc = "(\w+)"', re.M)
_RE_DISK = re.compile(r"^/\\ disk = (\[.*\])", re.M)


def ordering_counterexamples(ctx: Ctx, shard: tuple[int, int, int, int]) -> None:
    """With the checks where the implementation has (had) them, TLC must exhibit the defects:
      storage "late"  - impure rejection after DumpRunInfo (F11); a name that is never looked at (F62)   [pinned commit]
      storage "any"   - the same two for a per-output storage dictionary whose unknown name any(...) does not reach (F66)
      keywords "late" - a call rejected for a missing / surplus keyword after user functions ran (F68)."""
    runs = [("storage_late", "InvRejectIsPure", {"storage_check": "late"}, "StorageMutantsOnly"),
            ("storage_late", "InvOnlyReject", {"storage_check": "late"}, "StorageMutantsOnly"),
            ("storage_any", "InvRejectIsPure", {"storage_check": "any"}, "StorageMutantsOnly"),
            ("storage_any", "InvOnlyReject", {"storage_check": "any"}, "StorageMutantsOnly"),
            ("kwargs_late", "InvRejectIsPure", {"kwarg_check": "late"}, "CallMutantsOnly")]

    def one(k: int):
        name, inv, kw, constraint = runs[k]
        fam = ("call_kw",) if constraint == "CallMutantsOnly" else ("basic", "storage_dict")   # the families the constraint keeps
        return run_tlc("MC_Validity", mcfg(*shard, 2, fam, invs=inv, **kw) + f"CONSTRAINT {constraint}\n",
                       ctx.workdir(f"order_{name}_{inv}"), workers=1, timeout=1800)
    found: dict[str, dict] = {}
    with ThreadPoolExecutor(max_workers=5) as ex:
        for (name, inv, _, _), r in zip(runs, ex.map(one, range(len(runs)))):
            ctx.add_tlc(r, f"MC_Validity MSpec, implementation-shaped ordering {name}: {inv} (violation expected)")
            if inv not in r.violated:
                raise MachineryError(f"the implementation-shaped ordering {name} does not violate {inv}: the Prepare model "
                                     "does not exhibit the known ordering defect")
            tail = r.stdout[r.stdout.find("Error: Invariant"):]
            calls = re.findall(r"^/\\ calls = (\d+)", tail, re.M)
            found[f"{name}:{inv}"] = {"steps": _RE_PC.findall(tail), "final_disk": (_RE_DISK.findall(tail) or [""])[-1],
                                      "final_calls": int(calls[-1]) if calls else 0}
    ctx.extra["implementation_ordering_counterexamples"] = found


# ---- traces judged by TLC (fixed examples, random larger mutants) ----------------------------------------------------
def outcome_trace(req: dict, obs: dict, **meta) -> dict:
    return {"desc": req["desc"], "inputs": req["inputs"], "cfg": req["cfg"],
            "prev": {"desc": req["prev"]["desc"], "inputs": req["prev"]["inputs"]}, "entry": req["entry"], "out": req["out"],
            "ev": [{"e": "outcome", "outcome": obs["outcome"], "calls": obs["calls"], "folder_changed": obs["folder_changed"]}],
            "obs": obs, **meta}


def job_request(job: dict) -> dict:
    prev = job.get("base") or {"desc": job["desc"], "inputs": job["inputs"]}
    return {"desc": job["desc"], "inputs": job["inputs"], "cfg": job["cfg"], "prev": prev, "entry": job.get("entry", "map"),
            "out": job.get("out", "")}


def run_traced(job: dict) -> dict:
    """Worker: base run (if the request uses a folder) + the request itself -> outcome trace."""
    tmp = tempfile.mkdtemp(prefix="pfverif_c12t_")
    try:
        build.LOG.clear()
        req = job_request(job)
        folder = None
        if req["entry"] == "map" and req["cfg"]["folder"]:
            folder = os.path.join(tmp, "run")
            if job.get("base") is not None:
                run_request(base_request(job["base"]), folder, job.get("base_kinds"))
        build.LOG.clear()
        obs = run_request(req, folder, job.get("kinds"), job.get("how"))
        return outcome_trace(req, obs, op=job.get("op", "?"), label=job.get("label", ""), kinds=job.get("kinds"),
                             how=job.get("how") or NOHOW)
    finally:
        shutil.rmtree(tmp, ignore_errors=True)


def run_traced_jobs(jobs: list[dict]) -> list[dict]:
    if not jobs:
        return []
    with ProcessPoolExecutor(NPROC, mp_context=mp.get_context("fork")) as pool:
        return list(pool.map(run_traced, jobs, chunksize=max(1, len(jobs) // (NPROC * 8))))


STRIP = ("obs", "op", "label", "kinds", "how")


def validate(ctx: Ctx, traces: list[dict], name: str) -> dict[int, int]:
    rej = validate_traces(ctx, "MC_Validity", traces, name, invariants=["InvRejectIsPure", "InvNoCodeBeforeAccept"],
                          strip=STRIP, constants=TRACE_CONSTANTS,
                          chunk=-(-len(traces) // max(1, min(4, round(len(traces) / 100)))))   # <= 4 chunks of about 100
    if rej:
        verdicts = spec_verdicts(ctx, [traces[i] for i in sorted(rej)], name)
        for k, i in enumerate(sorted(rej)):
            tr = traces[i]
            exp = {"op": tr["op"], "violated": verdicts.get(k, "?"), "how": tr.get("how") or NOHOW,
                   "req": {"desc": tr["desc"], "inputs": tr["inputs"], "cfg": tr["cfg"], "prev": tr["prev"],
                           "entry": tr["entry"], "out": tr["out"]}}
            obs = tr["obs"]
            bad = (["accepted"] if obs["outcome"] == "returned" and exp["violated"] not in ("none", "?") else []) + \
                  (["valid-request-rejected"] if obs["outcome"] == "rejected" and exp["violated"] == "none" else []) + \
                  (["user-code-ran"] if obs["outcome"] == "rejected" and obs["calls"] else []) + \
                  (["folder-changed"] if obs["outcome"] == "rejected" and obs["folder_changed"] and not tr["cfg"]["cleanup"] else [])
            report(ctx, "traced:" + ("random" if tr["label"] == "random" else "replay" if tr["label"] == "replay" else "fixed"),
                   exp, obs, bad or ["not-an-end-state-of-Prepare"])
    return rej


def spec_verdicts(ctx: Ctx, traces: list[dict], name: str) -> dict[int, str]:
    """What the specification says about the given requests (for the report of a rejected record)."""
    wd = ctx.workdir(f"verdict_{name}")
    f = wd / "traces.ndjson"
    with f.open("w") as fh:
        for t in traces:
            # an outcome nobody can produce: every trace is rejected and its verdict printed
            t2 = {k: v for k, v in t.items() if k not in STRIP}
            t2 = dict(t2, ev=[dict(t["ev"][0], outcome="?")])
            fh.write(json.dumps(t2, separators=(",", ":")) + "\n")
    cfg = f"SPECIFICATION Spec\nCONSTANTS {TRACE_CONSTANTS}\nCONSTRAINT Track\nPOSTCONDITION Accepted\n"
    r = run_tlc("MC_Validity", cfg, wd, workers=1, env={"TRACE_FILE": str(f)})
    out = {}
    for ln in r.prints:
        m = re.match(r'^<<"VERDICT", (\d+), "(\w+)">>$', ln.strip())
        if m:
            out[int(m[1]) - 1] = m[2]
    return out


# fixed examples: the pytest.raises cases of the repository that concern C12 (and two accepted neighbours)
def _f(name, params, outs, mapspec=None, defaults=None, bound=None):
    fd = {"name": name, "params": params, "outputs": outs, "defaults": defaults or {}, "bound": bound or {},
          "mapspec": mapspec, "internal_shape": [], "cache": False}
    return fd


def _atom(s):
    return {"f": "@" + s, "a": []}


def _arr(name, n):
    return {"f": "#arr", "a": [_atom(f"{name}_{k}") for k in range(n)]}


def fixed_jobs() -> list[dict]:
    C = lambda **kw: {**CFG0, **kw}  # noqa: E731
    ex = []

    def add(label, funcs, inputs, cfg=None, base=None, entry="map", out="", how=None):
        ex.append({"label": label, "desc": desc_to_tla({"funcs": funcs}), "inputs": inputs,
                   "cfg": cfg or C(folder=entry == "map"), "op": "fixed", "base": base, "entry": entry, "out": out, "how": how})
    add("tests/test_pipeline.py:162 inconsistent defaults",
        [_f("f", ["a", "b"], ["c"], defaults={"b": _atom("1")}), _f("g", ["a", "b"], ["d"], defaults={"b": _atom("2")})],
        [["a", _atom("1")]])
    add("tests/test_pipeline.py:812 duplicate output name", [_f("f", ["a"], ["y"]), _f("g", ["b"], ["y"])],
        [["a", _atom("1")], ["b", _atom("2")]])
    add("tests/test_pipeline_mapspec.py:110 axis names differ",
        [_f("ff", ["a", "b"], ["f"], "a[i], b[i] -> f[i]"), _f("hh", ["f", "g"], ["h"], "f[k], g[k] -> h[k]")],
        [["a", _arr("a", 2)], ["b", _arr("b", 2)], ["g", _arr("g", 2)]])
    add("tests/test_pipeline_mapspec.py:121 axis counts differ",
        [_f("ff", ["a"], ["f"], "a[i] -> f[i]"), _f("gg", ["a"], ["g"], "a[i, j] -> g[i, j]")], [["a", _arr("a", 2)]])
    add("tests/test_pipeline_mapspec.py:148 MapSpec input is no parameter", [_f("f", ["x"], ["y"], "x[i], yolo[i] -> y[i]")],
        [["x", _arr("x", 2)]])
    add("tests/test_pipeline_mapspec.py:158 MapSpec output is not the output", [_f("f", ["x"], ["y"], "x[i] -> yolo[i]")],
        [["x", _arr("x", 2)]])
    add("tests/test_pipeline_mapspec.py:347 executor without parallel", [_f("f", [], ["y"])], [],
        C(executor=True))
    add("executor dictionary {'': pool} without parallel", [_f("f", [], ["y"])], [], C(executor=True, ekeys=[[]]))
    add("executor dictionary {'y': pool, '': pool} without parallel", [_f("f", [], ["y"])], [],
        C(executor=True, ekeys=[["y"], []]))
    add("tests/map/test_map.py:1233 missing input", [_f("f", ["x", "z"], ["y"])], [["x", _atom("1")]])
    add("tests/map/test_map.py:1236 extra input", [_f("f", ["x"], ["y"])], [["x", _atom("1")], ["not_used", _atom("1")]])
    add("tests/map/test_map.py:1050 unknown storage, no run folder", [_f("f", ["x"], ["y"])], [["x", _atom("1")]],
        C(storage="invalid", folder=False))
    add("tests/test_pipeline_mapspec.py:131 consistent indices over three functions (accepted)",
        [_f("ff", ["a", "b"], ["f"], "a[i], b[j] -> f[i, j]"), _f("gg", ["f", "c"], ["g"], "f[i, j], c[k] -> g[i, j, k]")],
        [["a", _arr("a", 2)], ["b", _arr("b", 1)], ["c", _arr("c", 2)]])
    add("tests/map/test_map.py:1243 map without MapSpec (accepted)", [_f("f", ["x"], ["y"])], [["x", _atom("1")]])
    two = [_f("f1", ["a", "b"], ["c"]), _f("f2", ["c"], ["d"])]
    add("tests/test_pipeline.py:421 unused keyword argument", two, [["a", _atom("1")], ["b", _atom("2")], ["doesnotexist", _atom("3")]],
        entry="call", out="d")
    add("tests/test_pipeline.py:581 missing value for an argument", two, [["a", _atom("1")]], entry="call", out="d")
    add("tests/test_pipeline.py:424 call with exactly the needed keywords (accepted)", two, [["a", _atom("1")], ["b", _atom("2")]],
        entry="call", out="d")
    # the repository has no test with a cyclic pipeline: a cycle v <-> w below / beside a function that is not part of it
    below = [_f("p", ["x"], ["u"]), _f("q", ["u", "w"], ["v"]), _f("r", ["v"], ["w"])]
    beside = [_f("p", ["x"], ["u"]), _f("q", ["y", "w"], ["v"]), _f("r", ["v"], ["w"])]
    add("cycle v<->w downstream of u: pipeline('u', x=...)", below, [["x", _atom("1")]], entry="call", out="u")
    add("cycle v<->w downstream of u: pipeline.func('v') (u is evaluated before the cycle is entered)", below,
        [["x", _atom("1")]], entry="func", out="v")
    add("cycle v<->w beside u: pipeline.run('u', kwargs=...)", beside, [["x", _atom("1")]], entry="run", out="u")
    add("cycle v<->w downstream of u: map", below, [["x", _atom("1")]])
    add("tests/map/test_map.py:1576-style storage dictionary with an unknown name after the default",
        [_f("f", ["x"], ["y"], "x[i] -> y[i]"), _f("g", ["y"], ["z"])], [["x", _arr("x", 2)]],
        C(sdict=[{"key": [], "name": "file_array"}, {"key": ["y"], "name": "bogus"}], cleanup=False),
        base={"desc": desc_to_tla({"funcs": [_f("f", ["x"], ["y"], "x[i] -> y[i]"), _f("g", ["y"], ["z"])]}),
              "inputs": [["x", _arr("x", 2)]]})
    # defaults that look like "nothing": None / 0 declared first, second, on both sides of an ordinary value, consistently
    none, zero = {"f": "#none", "a": []}, _atom("0")

    def shared(label, *dflts):
        names = ["scale", "total", "other"]
        funcs = [_f(names[0], ["x", "factor"], ["y"], "x[i] -> y[i]", defaults={"factor": dflts[0]})]
        funcs += [_f(names[k], ["y" if k == 1 else "z", "factor"], ["z" if k == 1 else "w"], defaults={"factor": d})
                  for k, d in enumerate(dflts) if k > 0]
        add(label, funcs, [["x", _arr("x", 2)]])
    shared("shared default: None declared first, 3 second", none, _atom("3"))
    shared("shared default: 3 declared first, None second", _atom("3"), none)
    shared("shared default: None, 3, None", none, _atom("3"), none)
    shared("shared default: 0 declared first, 3 second", zero, _atom("3"))
    shared("shared default: None first, 0 second", none, zero)
    shared("shared default: None and None (accepted)", none, none)
    shared("shared default: 0, 0, 0 (accepted)", zero, zero, zero)
    # producer / consumer disagreement about the SECOND output of a tuple output
    outer = _f("outer", ["x", "y"], ["a", "b"], "x[i], y[j] -> a[i, j], b[i, j]")
    use_a = _f("use_a", ["a"], ["c"], "a[i, j] -> c[i, j]")
    xy = [["x", _arr("x", 2)], ["y", _arr("y", 3)]]
    add("tuple output: consumer of the 2nd output swaps the axis names", [outer, use_a, _f("use_b", ["b"], ["e"], "b[j, i] -> e[j, i]")], xy)
    add("tuple output: consumer of the 2nd output swaps the axis names, consumer listed first",
        [_f("use_b", ["b"], ["e"], "b[j, i] -> e[j, i]"), outer], xy)
    add("tuple output: consumer of the 1st output swaps the axis names", [outer, _f("use_a2", ["a"], ["d"], "a[j, i] -> d[j, i]")], xy)
    add("tuple output: consumer of the 2nd output renames an axis", [outer, _f("use_b", ["b"], ["e"], "b[i, k] -> e[i, k]")], xy)
    add("tuple output: consumer of the 2nd output uses the producer's axes (accepted)",
        [outer, use_a, _f("use_b", ["b"], ["e"], "b[i, j] -> e[i, j]")], xy)
    # three arrays zipped along one axis: the one that is out of step is the first / the middle / the last, longer / shorter
    zip3 = [_f("combine", ["a", "b", "c"], ["y"], "a[i], b[i], c[i] -> y[i]"), _f("total", ["y"], ["t"])]
    for which, n3 in (("first", (4, 3, 3)), ("middle", (3, 4, 3)), ("middle", (3, 2, 3)), ("last", (3, 3, 2)), ("no", (3, 3, 3))):
        add(f"three arrays zipped along i, sizes {n3}: the {which} one out of step" + (" (accepted)" if which == "no" else ""),
            zip3, [[n, _arr(n, k)] for n, k in zip("abc", n3)])
    # an axis-name swap in a hand-written consumer next to MapSpecs that the library derived
    f1, e1 = _f("f", ["a"], ["y"], "a[i] -> y[i]"), _f("e", ["y"], ["z"], "y[i] -> z[i]")
    for ax, verdict in (("j", ""), ("i", " (accepted)")):
        h1 = _f("h", ["z", "b"], ["w"], f"z[{ax}], b[{ax}] -> w[{ax}]")
        add(f"Pipeline([NestedPipeFunc([f, e]), h]) with h: z[{ax}], b[{ax}] -> w[{ax}]" + verdict,
            [_f("nest", ["a"], ["y", "z"], "a[i] -> y[i], z[i]"), h1], [["a", _arr("a", 3)], ["b", _arr("b", 3)]],
            how={"kind": "nest", "f": "f", "old": "e", "new": "", "pre": desc_to_tla({"funcs": [f1, e1, h1]})})
    a23 = {"f": "#arr", "a": [_arr(f"a{r}", 3) for r in range(2)]}
    for axes, verdict in (("k, i", ""), ("i, k", " (accepted)")):
        add(f"Pipeline([f, e]).add_mapspec_axis('a', axis='k') then add(t) with t: z[{axes}] -> v[{axes}]" + verdict,
            [_f("f", ["a"], ["y"], "a[i, k] -> y[i, k]"), _f("e", ["y"], ["z"], "y[i, k] -> z[i, k]"),
             _f("t", ["z"], ["v"], f"z[{axes}] -> v[{axes}]")], [["a", a23]],
            how={"kind": "add_axis", "f": "t", "old": "a", "new": "k", "pre": desc_to_tla({"funcs": [f1, e1]})})
    return ex


def _read_roots(tdesc: dict, out: str) -> list[str]:
    """GENERATOR helper (not an oracle): root names read by the functions a backward walk from `out` reaches."""
    prod = {o: f for f in tdesc["funcs"] for o in f["outputs"]}
    seen: set[str] = set()
    roots: list[str] = []
    todo = [prod[out]]
    while todo:
        f = todo.pop()
        if f["name"] in seen:
            continue
        seen.add(f["name"])
        bound = {b for b, _ in f["bound"]}
        for q in f["params"]:
            if q in bound:
                continue
            if q in prod:
                todo.append(prod[q])
            elif q not in roots:
                roots.append(q)
    return roots


# ---- random larger mutants (python-side single faults; TLC judges each request) ----------------------------------------
def _grow(v: dict) -> dict:
    return {"f": "#arr", "a": v["a"] + [copy.deepcopy(v["a"][-1])]} if v["f"] == "#arr" and v["a"] else v


def mutate_random(rng: random.Random, tdesc: dict, inputs: list) -> tuple[str, dict, list, dict] | None:
    """One random single fault on a valid request (TLA-form description).  Returns (op, desc, inputs, cfg-overrides)."""
    d = copy.deepcopy(tdesc)
    inp = copy.deepcopy(inputs)
    fs = d["funcs"]
    outs = [o for f in fs for o in f["outputs"]]
    op = rng.choice(["dropped_input", "added_input", "unknown_storage", "executor_without_parallel", "resized_axis",
                     "changed_rank", "rename_collision", "added_edge", "axis_names", "mapspec_signature", "none",
                     "unknown_storage_in_dict", "call_dropped_kw", "call_added_kw", "rename_collision_call", "added_edge_call",
                     "default_pair", "default_pair_call"])
    cfg: dict = {}
    via_call = op.endswith("_call") and not op.startswith("call_")   # a construction fault, then a call of any output
    if via_call:
        if any(f["has_ms"] for f in fs):
            return None
        op = op[:-len("_call")]
    if op in ("call_dropped_kw", "call_added_kw"):
        if any(f["has_ms"] for f in fs):
            return None
        out = rng.choice(outs)
        kw = [[r, _atom("k_" + r)] for r in _read_roots(d, out)]
        if op == "call_dropped_kw":
            if not kw:
                return None
            kw.pop(rng.randrange(len(kw)))
        else:
            names = sorted({q for f in fs for q in f["params"]} | set(outs) | {"q_extra"})
            cand = [n for n in names if n != out and n not in {k for k, _ in kw}]
            kw.append([rng.choice(cand), _atom("extra")])
        return op, d, kw, {"entry": "call", "out": out, "folder": False, "cleanup": True}
    if op == "unknown_storage_in_dict":
        key = rng.choice([f["outputs"] for f in fs] + [["zzz"]])
        dflt = {"key": [], "name": rng.choice(["file_array", "dict"])}
        unk = {"key": key, "name": "nonsense"}
        cfg = {"sdict": [dflt, unk] if rng.random() < 0.7 else [unk, dflt]}
    elif op == "dropped_input" and inp:
        inp.pop(rng.randrange(len(inp)))
    elif op == "added_input":
        inp.append([rng.choice(outs + ["q_extra"]), _atom("extra")])
    elif op == "unknown_storage":
        cfg = {"storage": "nonsense"}
    elif op == "executor_without_parallel":
        cfg = {"executor": True, "ekeys": rng.choice([[], [[]], [fs[0]["outputs"], []]])}
    elif op in ("resized_axis", "changed_rank"):
        arrs = [k for k, (n, v) in enumerate(inp) if v["f"] == "#arr" and v["a"]]
        if not arrs:
            return None
        k = rng.choice(arrs)
        inp[k][1] = _grow(inp[k][1]) if op == "resized_axis" else inp[k][1]["a"][0]
    elif op == "rename_collision" and len(fs) > 1:
        i, j = rng.sample(range(len(fs)), 2)
        new = fs[i]["outputs"][0]
        old = fs[j]["outputs"][0]
        fs[j]["outputs"][0] = new
        for s in fs[j]["ms"]["outs"]:
            if s["name"] == old:
                s["name"] = new
    elif op == "added_edge":
        f = rng.choice(fs)
        cand = [o for o in outs if o not in f["params"]]
        if not cand:
            return None
        f["params"].append(rng.choice(cand))
    elif op == "axis_names":
        cons = [(f, s) for f in fs if f["has_ms"] for s in f["ms"]["ins"] if s["name"] in outs and any(a != ":" for a in s["axes"])]
        if not cons:
            return None
        f, s = rng.choice(cons)
        a = rng.choice([x for x in s["axes"] if x != ":"])
        for t in f["ms"]["ins"] + f["ms"]["outs"]:
            t["axes"] = ["q" if x == a else x for x in t["axes"]]
    elif op == "default_pair":
        def declarable(f, q):
            return (q in f["params"] and q not in outs and q not in {b for b, _ in f["bound"]}
                    and q not in {sp["name"] for sp in f["ms"]["ins"]})
        cand = sorted({q for f in fs for q in f["params"] if sum(declarable(g, q) for g in fs) >= 2})
        if not cand:
            return None
        q = rng.choice(cand)
        two = rng.sample([f for f in fs if declarable(f, q)], 2)
        vals = rng.sample([{"f": "#none", "a": []}, _atom("0"), _atom("changed")], 2)
        if rng.random() < 0.2:
            vals[1] = vals[0]          # a consistent pair: stays valid
        for f, v in zip(two, vals):
            f["defaults"] = [pr for pr in f["defaults"] if pr[0] != q] + [[q, v]]
    elif op == "mapspec_signature":
        ms = [f for f in fs if f["has_ms"] and f["ms"]["ins"]]
        if not ms:
            return None
        rng.choice(ms)["ms"]["ins"][0]["name"] = "nope"
    elif op != "none":
        return None
    if via_call:
        out = rng.choice(sorted({o for f in fs for o in f["outputs"]}))
        kw = [[r, _atom("k_" + r)] for r in _read_roots(d, out)]
        return op + "_call", d, kw, {"entry": rng.choice(["call", "run", "func"]), "out": out, "folder": False, "cleanup": True}
    return op, d, inp, cfg


def random_jobs(rng: random.Random, count: int) -> list[dict]:
    from .c02 import random_desc
    jobs = []
    while len(jobs) < count:
        if rng.random() < 0.7:
            case = gen_map.random_map_case(rng, rng.randint(1, 4), max_rank=2)
            tdesc, inputs = desc_to_tla(case["desc"]), case["inputs"]
        else:
            tdesc = random_desc(rng, rng.randint(2, 5))
            outs = {o for f in tdesc["funcs"] for o in f["outputs"]}
            roots = sorted({p for f in tdesc["funcs"] for p in f["params"] if p not in {b for b, _ in f["bound"]}} - outs)
            inputs = [[r, _atom("k_" + r)] for r in roots]
        m = mutate_random(rng, tdesc, inputs)
        if m is None:
            continue
        op, d2, inp2, over = m
        entry, out = over.pop("entry", "map"), over.pop("out", "")
        cfg = {**CFG0, "cleanup": rng.random() < 0.5, **over}
        if op == "unknown_storage" and rng.random() < 0.25:
            cfg["folder"] = False
            cfg["cleanup"] = True
        jobs.append({"label": "random", "op": op, "desc": d2, "inputs": inp2, "cfg": cfg, "entry": entry, "out": out,
                     "base": {"desc": tdesc, "inputs": inputs}})
    return jobs


class _Deferred:
    """Stand-in for the Ctx in a side thread: TLC results are kept and registered by flush() in the main thread."""

    def __init__(self, ctx: Ctx) -> None:
        self.ctx, self.extra, self.runs = ctx, {}, []

    def workdir(self, name: str) -> Path:
        return self.ctx.workdir(name)

    def add_tlc(self, r, what: str = ""):
        self.runs.append((r, what))
        return r

    def flush(self) -> None:
        for r, what in self.runs:
            self.ctx.add_tlc(r, what)
        self.ctx.extra.update(self.extra)


# ---- the check ------------------------------------------------------------------------------------------------------
def run(ctx: Ctx) -> None:
    import time
    quick = ctx.tier == "quick"
    rng = random.Random(ctx.seed)
    os.environ.setdefault("JDK_JAVA_OPTIONS", "-XX:ParallelGCThreads=2 -XX:CICompilerCount=2")
    stages: dict[str, float] = {}
    t0 = [time.time()]

    def stage(name: str) -> None:
        stages[name] = round(time.time() - t0[0], 1)
        t0[0] = time.time()
    ctx.extra["stage_wall_s"] = stages
    ctx.rule = ("case = one request (description, inputs, storage/parallel/executor/cleanup/run-folder configuration) derived "
                "from a VALID case of the C01 universe (MC_MapDenote) or the C02 universe (MC_PipelineCall, all root arguments "
                "given) by one mutation operator of MC_Validity (rename collision, added edge, changed default, dropped / "
                "added input, resized axis, changed rank, axis names in one consumer, MapSpec vs signature, unknown storage, "
                "executor without parallel, unknown name in a storage dictionary at every position; after construction: "
                "update_renames of an output onto another output / an own parameter, of a parameter onto an own output / into "
                "a cycle, update_defaults against another function's default) x cleanup in {True, False}, entry map or call "
                "of every output; on the call side a dropped or an added keyword; a MapSpec-free base (C02 with two and with "
                "three functions) with a rename collision / added edge / changed default asked for EVERY output through "
                "pipeline(out, **kw), run and func with the keywords the needed functions read; mutants that stay valid are "
                "counted and discarded; two functions sharing a root argument given two different defaults out of {None, 0, "
                "an ordinary value} in both listing orders; the C01 cases with a tuple output whose mapped consumer is "
                "re-wired to the SECOND output and then gets the axis-name faults, and the signature fault / rename "
                "collision placed at the second output; a MapSpec with three or four arrays on one axis (mixed ranks, one "
                "array optionally produced upstream) with every root array grown / shrunk by one slice along every axis; the "
                "chain f -> e -> consumer of the C01 cases with f, e combined by NestedPipeFunc or rewritten by "
                "add_mapspec_axis('a', axis='m') and the hand-written consumer given the axis-name faults; "
                "plus the repository's pytest.raises examples and seeded random larger mutants judged by TLC; non-trivial = "
                "the specification calls the request invalid")
    ctx.assumptions = ["TLC and the JSON/term encoding are trusted", "the run folder is compared by content (sha1 per file), "
                       "not by mtime", "array inputs are ndarrays (the list-vs-ndarray rule for rank>=2 inputs is not a "
                       "clause)", "sequential execution; file_array storage for the valid previous run",
                       "the exception class is not compared (the property only says 'raises')"]
    s = ctx.seed
    if quick:
        # three TLC processes: one C01 shard, one C02 shard with two functions (every family), one C02 shard with three
        # functions (the call-side families; Shard = NShards switches the other universe off)
        # (the tuple-output cases, a universe of their own, ride along with the second process)
        shards = [(s % 48, 48, 16, 16), (48, 48, s % 16, 16, 2, FAMILIES_N2 + FAMILIES_TUPLE, s % NSHARDS_T, NSHARDS_T),
                  (48, 48, (7 * s) % 256, 256, 3, FAMILIES_N3),
                  (48, 48, 16, 16, 2, FAMILIES_WIDE, 0, 1, s % NSHARDS_D, NSHARDS_D)]
    else:
        shards = ([((s + 5 * k) % 16, 16, 4, 4) for k in range(2)] + [(16, 16, k, 4) for k in range(4)]   # two C01 shards; all of C02's N=2
                  + [(16, 16, (s + 11 * k) % 64, 64, 3, FAMILIES_N3 + ("illformed_run_func",)) for k in range(2)]   # two shards of C02's N=3
                  + [(16, 16, 4, 4, 2, FAMILIES_TUPLE, (s + 3 * k) % 8, 8) for k in range(2)]
                  + [(16, 16, 4, 4, 2, FAMILIES_WIDE, 0, 1, 0, 1)])    # all of the wide-zip and derived-MapSpec families   # two of eight shards of the tuple-output cases
    # the export and the implementation-shaped orderings are independent TLC runs: side by side (their results are
    # registered afterwards, in a fixed order)
    late = _Deferred(ctx)
    with ThreadPoolExecutor(max_workers=2) as tp:
        fut_export = tp.submit(export_mutants, ctx, shards, 2)
        fut_order = tp.submit(ordering_counterexamples, late, (s % 48, 48, s % 16, 16))
        cases, stayed = fut_export.result()
        fut_order.result()
    late.flush()
    ctx.exhaustive = False
    ctx.extra["universe"] = f"shards (ShardM, NShardsM, ShardP, NShardsP[, N, Families[, ShardT, NShardsT]]) = {shards}"
    ctx.extra["mutants_stayed_valid_discarded"] = stayed
    by_op: dict[str, int] = {}
    for c in cases:
        by_op[f"{c['op']}:{c['violated']}"] = by_op.get(f"{c['op']}:{c['violated']}", 0) + 1
    ctx.extra["mutants_by_operator_and_clause"] = dict(sorted(by_op.items()))
    stage("tlc mutants + ordering")

    groups: dict[str, dict] = {}
    for c in cases:
        k = json.dumps([c["req"]["prev"], c["req"]["out"] if c["op"].startswith("call_") else ""], sort_keys=True)
        groups.setdefault(k, {"base": c["req"]["prev"], "mutants": []})["mutants"].append(c)
    jobs = list(groups.values())
    results = run_groups(jobs)
    stage("mutant runs")
    pairs: list[tuple[dict, dict]] = []
    for job, res in zip(jobs, results):
        b = res["base"]
        ctx.case({"base": job["base"]}, nontrivial=False)
        if b["outcome"] != "returned":
            first = job["mutants"][0]
            breq = base_request(job["base"], "call", first["req"]["out"]) if first["op"].startswith("call_") else base_request(job["base"])
            report(ctx, "base", {"op": "none", "violated": "none", "req": breq}, b, ["valid-request-rejected"])
        for m, obs in zip(job["mutants"], res["obs"]):
            if obs["model_mismatch"]:
                raise MachineryError(f"the pipeline after {m['how']} is not the one the specification judged: {m['req']['desc']}")
            ctx.case({"req": m["req"], "op": m["op"]}, nontrivial=True)
            pairs.append((m, obs))
            bad = discrepancies(m, obs)
            if bad:
                report(ctx, "mutant", m, obs, bad)
    ctx.traces_validated += len(pairs)
    if pairs:
        m, obs = pairs[len(pairs) // 2]
        ctx.sample({"op": m["op"], "violated": m["violated"], "cfg": m["req"]["cfg"],
                    "functions": [(f["name"], f["params"], f["outputs"], pmap.ms_string(f["ms"]) if f["has_ms"] else None)
                                  for f in m["req"]["desc"]["funcs"]],
                    "inputs": [n for n, _ in m["req"]["inputs"]], "observed": obs})

    # fixed examples and random larger mutants: TLC decides
    fixed = run_traced_jobs(fixed_jobs())
    rnd = run_traced_jobs(random_jobs(rng, 180 if quick else 4500))
    for t in fixed + rnd:
        ctx.case({"req": [t["desc"], t["inputs"], t["cfg"]]}, nontrivial=t["obs"]["outcome"] == "rejected")
    ctx.extra["fixed_examples"] = [{"label": t["label"], "outcome": t["obs"]["outcome"], "cls": t["obs"]["cls"]} for t in fixed]
    ctx.extra["random_outcomes"] = {k: sum(1 for t in rnd if t["obs"]["outcome"] == k) for k in ("rejected", "returned")}
    stage("fixed + random runs")
    traced = fixed + rnd
    rej = validate(ctx, traced, "traced")
    stage("trace validation")
    selftest(ctx, pairs, [t for i, t in enumerate(traced) if i not in rej])
    stage("selftest")


def selftest(ctx: Ctx, pairs: list[tuple[dict, dict]], traces: list[dict]) -> None:
    """(a) comparator: among conforming (export, observation) pairs one observation is corrupted (a user call, resp. a
    changed folder under cleanup=False): exactly that pair must be flagged.  (b) TLC: accepted traces plus corrupted copies
    (outcome flipped; a user call logged on a rejection; folder_changed on a cleanup=False rejection): exactly the copies
    must be rejected."""
    ok = [(m, o) for m, o in pairs if not discrepancies(m, o)]
    keep = [(m, o) for m, o in ok if m["req"]["cfg"]["folder"] and not m["req"]["cfg"]["cleanup"]][:20]
    if len(keep) < 3:
        raise MachineryError("self-test: not enough conforming mutant observations")
    flagged = []
    for k, (m, o) in enumerate(keep):
        o2 = dict(o)
        if k == 1:
            o2["calls"] = 1
        if k == 2:
            o2["folder_changed"] = True
        if discrepancies(m, o2):
            flagged.append(k)
    ctx.selftest("export-comparator(one observation with a user call, one with a changed folder)", flagged == [1, 2],
                 f"flagged={flagged} expected=[1, 2]")
    good_rej = [t for t in traces if t["obs"]["outcome"] == "rejected" and not t["cfg"]["cleanup"] and t["cfg"]["folder"]
                and not t["obs"]["folder_changed"] and t["obs"]["calls"] == 0][:4]
    good_ret = [t for t in traces if t["obs"]["outcome"] == "returned" and t["obs"]["calls"] > 0][:3]
    if len(good_rej) < 2 or not good_ret:
        raise MachineryError("self-test: not enough accepted traces")
    # a construction fault met through a call-style entry (an output that the fault does not reach included)
    ill_call = [t for t in traces if t["entry"] != "map" and t["obs"]["outcome"] == "rejected" and t["obs"]["calls"] == 0
                and (t["label"].startswith("cycle") or t["op"].endswith("_call"))][:2]
    pool = copy.deepcopy(good_rej + good_ret + ill_call)
    expected = {}

    def add(src: dict, **fields) -> None:
        t = copy.deepcopy(src)
        t["ev"][0].update(fields)
        expected[len(pool)] = 1
        pool.append(t)
    add(good_rej[0], outcome="returned", calls=1)
    add(good_rej[1], calls=2)
    add(good_rej[0], folder_changed=True)
    add(good_ret[0], outcome="rejected", calls=0)
    for t in ill_call:      # the ill-formed pipeline answered the call / raised only after a user function had run
        add(t, outcome="returned", calls=1)
        add(t, calls=1)
    rej = validate_traces(ctx, "MC_Validity", pool, "selftest", invariants=[], strip=STRIP, count=False,
                          constants=TRACE_CONSTANTS)
    ctx.selftest("trace-corruption(outcome flipped; user call on a rejection; changed folder on a cleanup=False rejection; "
                 "acceptance turned into rejection; an ill-formed pipeline that answers a call-style request or runs a "
                 "function before raising): exactly the corrupted copies rejected", rej == expected,
                 f"rejected={rej} expected={expected}")


def replay(rep: dict) -> int:
    w = rep["witness"]
    exp, kind = w["exp"], w["kind"]
    req = exp["req"]
    base = req.get("prev")
    req["cfg"].setdefault("sdict", [])
    req["cfg"].setdefault("ekeys", [])
    job = {"desc": req["desc"], "inputs": req["inputs"], "cfg": req["cfg"], "base": base, "op": exp.get("op", "?"),
           "label": "replay", "entry": req.get("entry", "map"), "out": req.get("out", ""), "how": exp.get("how")}
    tr = run_traced(job)
    print(json.dumps({"op": exp.get("op"), "violated": exp.get("violated"), "cfg": req["cfg"], "observed": tr["obs"]}, indent=1))
    ctx = Ctx(PROPERTY, "quick", 0)
    ctx.findings = []
    os.environ.setdefault("JDK_JAVA_OPTIONS", "-XX:ParallelGCThreads=2 -XX:CICompilerCount=2")
    validate(ctx, [tr], "replay")
    n = len(ctx.violations)
    ctx.cleanup()
    print("replay:", "VIOLATION reproduced" if n else f"request handled as the specification requires ({kind})")
    return 1 if n else 0
