"""C10 - structural rewrites preserve what a pipeline computes.

Spec: Rewrites.tla - an object store `objs : [id -> [sem, ren, outs, merged]]`: `sem` is the description in the original
names (term heads never change), `ren` the current spelling of every name (scope + base), `outs` the outputs the object
still exposes.  What an object returns is Eval / MapDenote of `sem` with names translated through `ren` (EvalObs); copy,
pickle round trip, join, update_renames, update_scope (+ removal), nest_funcs, simplified_pipeline, split_disconnected,
add_mapspec_axis and the in-place mutations update_defaults / update_bound / update_renames are actions on the store.
1. TLC model-checks the store (MC_Rewrites) over descriptions of the TLA+-defined universe of MC_PipelineCall: chains of
   <= 3 rewrites + one mutation of any live object anywhere; NoAliasing (action property), StoreOK and RewritePreserves
   (the model's own operators preserve Eval: renaming commutes with Eval, scope removal inverts scope addition, a split
   component evaluates like the whole, join operands keep their values, add_mapspec_axis lifts pointwise).
2. The harness builds real pipelines from random DAGs (c02.random_desc: call style; gen_map.random_map_case: mapped),
   applies random rewrite sequences (<= 3 quick, <= 5 thorough, one mutation anywhere) to random live objects and after
   EVERY step evaluates ALL live objects on all retained outputs - pipeline(out, **kw) with dotted keys or nested dicts
   for scoped names (root arguments as listed by the object's own root_args; defaults sometimes left out), Pipeline.map
   for mapped objects - recording new / rewrite(+observed structure) / refuse / mutate / eval events.
3. TLC validates every recorded history (TraceRewrites).  A refusal is explained only where the model does not require
   the rewrite to succeed; a value is explained only by EvalObs of the object's own entry.
"""
from __future__ import annotations

import contextlib
import copy
import io
import json
import multiprocessing as mp
import os
import pickle
import random
import warnings
from concurrent.futures import ProcessPoolExecutor, ThreadPoolExecutor
from typing import Any

from .. import build, gen_map, pcall, pmap
from ..build import desc_to_tla
from ..ctx import Ctx
from ..terms import Term, from_json, to_json
from ..tlc import MachineryError, run_tlc
from ..tracekit import validate_traces
from . import c02

PROPERTY = "C10"
LEVEL = "model_checking"

MC_CFG = """SPECIFICATION Spec
CONSTANTS N = {n} Rich = {rich} Shard = {shard} NShards = {nshards} MaxRw = {maxrw} MaxMut = {maxmut} WithAxis = {axis}
VIEW View
INVARIANT InvStoreOK InvRewritePreserves
PROPERTY PropNoAliasing
"""
MC_ACTIONS = ["RwCopy", "RwPickle", "RwJoin", "RwJoinNew", "RwRename", "RwOverwrite", "RwScope", "RwUnscope", "RwNest", "RwSimplify",
              "RwSplit", "RwAxis", "MuDefaults", "MuBound", "MuRenames"]

BLANK_VAL = {"f": "", "a": []}
BLANK_SEL = {"all": False, "names": []}
BLANK_ARGS = {"ren": [], "scope": "", "ins": BLANK_SEL, "outs": BLANK_SEL, "exc": [], "S": [], "N": [], "out": "",
              "p": "", "k": "", "f": "", "v": BLANK_VAL}
BLANK_EV = {"e": "", "id": 0, "desc": {"funcs": []}, "kind": "", "src": 0, "src2": 0, "args": BLANK_ARGS, "new_ids": [],
            "struct": [], "exc": "", "out": "", "mode": "", "conv": "", "inputs": [], "roots": [], "val": BLANK_VAL,
            "vals": []}
IN_PLACE = {"update_renames", "overwrite_renames", "update_scope", "remove_scope", "nest", "add_mapspec_axis", "update_defaults", "update_bound"}


def ev(**kw) -> dict:
    e = dict(BLANK_EV)
    e.update(kw)
    return e


def args(**kw) -> dict:
    a = dict(BLANK_ARGS)
    a.update(kw)
    return a


def name_rec(cur: str) -> dict:
    if "." in cur:
        s, b = cur.split(".", 1)
        return {"scope": s, "base": b}
    return {"scope": "", "base": cur}


def sel(x) -> dict:
    if x == "*":
        return {"all": True, "names": []}
    return {"all": False, "names": sorted(x or [])}


def quiet():
    return contextlib.redirect_stdout(io.StringIO())


def exc_term(ex: BaseException) -> dict:
    return {"f": "#exc:" + type(ex).__name__, "a": []}


def out_key(f) -> str:
    o = f.output_name
    return o if isinstance(o, str) else ",".join(o)


# ---- one family of pipeline objects ---------------------------------------------------------------------------------
class Obj:
    def __init__(self, pl, names: dict[str, str], lift: dict[str, int], lineage: list[str], feats: dict) -> None:
        self.pl = pl
        self.names = dict(names)        # current name -> original name (harness bookkeeping for choosing input values)
        self.lift = dict(lift)          # current root name -> length of the axis added by add_mapspec_axis
        self.lineage = list(lineage)    # kinds of the operations that produced this object
        self.feats = dict(feats)        # history features used to classify a rejection (never to decide one)

    def orig(self, cur: str) -> str | None:
        return self.names.get(cur)


class Family:
    """Interpreter of a script of operations on real pipelines; records the TraceRewrites events."""

    def __init__(self) -> None:
        self.objs: dict[int, Obj] = {}
        self.next_id = 1
        self.events: list[dict] = []
        self.script: list[dict] = []
        self.base_vals: dict[str, dict] = {}     # original root name -> value json
        self.kinds: dict[str, str] = {}
        self.step = 0
        self.marks: list[tuple[int, int]] = []   # (event index, script index) for witnesses

    # -- bookkeeping
    def fresh_id(self) -> int:
        i = self.next_id
        self.next_id += 1
        return i

    def struct(self, pl) -> dict:
        return {"outs": sorted(pl.all_output_names), "roots": sorted(pl.topological_generations.root_args)}

    def source_feats(self, pl, members=None) -> dict:
        fs = list(members) if members is not None else list(pl.functions)
        try:
            roots = sorted(pl.topological_generations.root_args)
        except Exception:  # noqa: BLE001
            roots = []
        return {"tuple_in_source": any(isinstance(f.output_name, tuple) for f in pl.functions),
                "bound_in_source": any(bool(f.bound) for f in fs),
                "bound_names": sorted({p for f in fs for p in f.bound}), "roots_before": roots,
                "scoped_params_in_source": any("." in p for f in fs for p in f.parameters),
                "merged_source": any(type(f).__name__ == "NestedPipeFunc" for f in pl.functions),
                "mapspec_in_source": bool(pl.mapspecs())}

    # -- operations
    def do(self, op: dict) -> None:
        # an object that left the store (a refused in-place operation) cannot be operated on any more: later steps of a
        # fixed script that name it are skipped (the refusal itself has been recorded and is judged by TLC)
        if any(op.get(k) is not None and op.get(k) not in self.objs for k in ("src", "partner")) and op["op"] != "new":
            return
        self.script.append(op)
        self.marks.append((len(self.events), len(self.script)))
        getattr(self, "op_" + op["op"])(op)

    def op_new(self, op: dict) -> None:
        i = self.fresh_id()
        with quiet():
            pl = build.make_pipeline(op["pdesc"])
        names = {n: n for f in op["tdesc"]["funcs"] for n in list(f["params"]) + list(f["outputs"])}
        for n, v in op.get("inputs", []):
            self.base_vals.setdefault(n, v)
        self.kinds.update(op.get("kinds", {}))
        # built without initial renames: the built spelling of every name is the model's original name (overwrite_renames)
        plain = not any(getattr(f, "_renames", None) for f in pl.functions)
        self.objs[i] = Obj(pl, names, {}, ["new"], {"mutated": False, "plain_built": plain})
        self.events.append(ev(e="new", id=i, desc=op["tdesc"]))

    def _rewrite(self, kind: str, src: int, a: dict, fn, *, src2: int = 0, members=None) -> Any:
        """Run one rewrite; on success log rewrite(...) with the observed structure, else refuse(...)."""
        o = self.objs[src]
        feats = self.source_feats(o.pl, members)
        try:
            with quiet(), warnings.catch_warnings():
                warnings.simplefilter("ignore")
                res = fn(o.pl)
        except Exception as ex:  # noqa: BLE001
            self.events.append(ev(e="refuse", kind=kind, src=src, src2=src2, args=a, exc=type(ex).__name__,
                                  val={"f": "#msg:" + str(ex)[:160], "a": []}))
            self.events[-1]["_feats"] = feats
            if kind in IN_PLACE:
                del self.objs[src]
            return None
        self.events.append(ev(e="rewrite", kind=kind, src=src, src2=src2, args=a))
        self.events[-1]["_feats"] = feats
        return res if res is not None else True

    def _finish(self, ids: list[int]) -> None:
        e = self.events[-1]
        e["new_ids"] = ids
        try:
            e["struct"] = [self.struct(self.objs[i].pl) for i in ids]
        except Exception as ex:  # noqa: BLE001   (e.g. a cyclic graph after a rewrite)
            e["struct"] = [{"outs": ["#exc:" + type(ex).__name__], "roots": []} for _ in ids]
        f = e["_feats"]
        extra = {r for st in e["struct"] for r in st["roots"]} - set(f["roots_before"])
        f["new_roots_all_bound"] = bool(extra) and extra <= set(f["bound_names"])

    def _derive(self, src: int, pl, kind: str, **feats) -> int:
        o = self.objs[src]
        i = self.fresh_id()
        self.objs[i] = Obj(pl, o.names, o.lift, o.lineage + [kind], dict(o.feats, **feats))
        return i

    def op_copy(self, op: dict) -> None:
        r = self._rewrite("copy", op["src"], args(), lambda pl: pl.copy())
        if r is not None:
            self._finish([self._derive(op["src"], r, "copy")])

    def op_pickle(self, op: dict) -> None:
        def rt(pl):
            if op.get("how") == "cloudpickle":
                import cloudpickle
                return cloudpickle.loads(cloudpickle.dumps(pl))
            return pickle.loads(pickle.dumps(pl))
        r = self._rewrite("pickle", op["src"], args(), rt)
        if r is not None:
            self._finish([self._derive(op["src"], r, "pickle")])

    def op_join(self, op: dict) -> None:
        p2 = self.objs[op["partner"]]
        r = self._rewrite("join", op["src"], args(), (lambda pl: pl | p2.pl) if op.get("how") == "or" else
                          (lambda pl: pl.join(p2.pl)), src2=op["partner"])
        if r is not None:
            i = self._derive(op["src"], r, "join", mutated=self.objs[op["src"]].feats["mutated"] or p2.feats["mutated"],
                             model_merged=bool(self.objs[op["src"]].feats.get("model_merged") or p2.feats.get("model_merged")))
            self.objs[i].names.update(p2.names)
            self.objs[i].lift.update(p2.lift)
            self.objs[i].lineage += [k for k in p2.lineage if k != "new"]
            self._finish([i])

    def _apply_ren(self, o: Obj, ren: dict[str, str]) -> None:
        moved = {new: o.names.pop(c) for c, new in ren.items() if c in o.names}
        o.names.update(moved)
        lifted = {new: o.lift.pop(c) for c, new in ren.items() if c in o.lift}
        o.lift.update(lifted)

    def op_update_renames(self, op: dict) -> None:
        a = args(ren=[[c, name_rec(n)] for c, n in op["ren"].items()])
        src = op["src"]
        if op.get("as") == "mutate":
            o = self.objs[src]
            try:
                with quiet():
                    o.pl.update_renames(dict(op["ren"]))
            except Exception as ex:  # noqa: BLE001
                self.events.append(ev(e="refuse", kind="update_renames", src=src, args=a, exc=type(ex).__name__))
                self.events[-1]["_feats"] = self.source_feats(o.pl)
                del self.objs[src]
                return
            self.events.append(ev(e="mutate", id=src, kind="update_renames", args=a))
            self._apply_ren(o, op["ren"])
            o.feats["mutated"] = True
            o.lineage.append("update_renames")
            return
        r = self._rewrite("update_renames", src, a, lambda pl: pl.update_renames(dict(op["ren"])))
        if r is not None:
            self._apply_ren(self.objs[src], op["ren"])
            self.objs[src].lineage.append("update_renames")
            self._finish([src])

    def op_overwrite_renames(self, op: dict) -> None:
        """update_renames(ren, overwrite=True, update_from=...): names that `ren` does not mention revert to the spelling the
        functions were built with.  Only issued on objects that never went through nest / simplify / join and whose functions
        were built without initial renames (then the built spelling is the original name of the model)."""
        a = args(ren=[[c, name_rec(n)] for c, n in op["ren"].items()])
        src = op["src"]
        o = self.objs[src]
        # update_from="original": the keys are given in the built spelling of the names that op["ren"] addresses by current name
        if op.get("update_from") == "original":
            given = {o.orig(c): n for c, n in op["ren"].items()}
            kw = {"update_from": "original"}
        else:
            given, kw = dict(op["ren"]), {}

        def fn(pl):
            pl.update_renames(given, overwrite=True, **kw)
            return pl
        r = self._rewrite("overwrite_renames", src, a, fn)
        if r is not None:
            o.lift = {op["ren"].get(cur, o.names.get(cur, cur)): n for cur, n in o.lift.items()}
            o.names = {op["ren"].get(cur, og): og for cur, og in o.names.items()}
            o.lineage.append("overwrite_renames")
            self._finish([src])

    def op_update_scope(self, op: dict) -> None:
        src, scope = op["src"], op["scope"]
        o = self.objs[src]
        kind = "update_scope" if scope is not None else "remove_scope"
        a = args(scope=scope or "", ins=sel(op["inputs"]), outs=sel(op["outputs"]), exc=sorted(op["exclude"] or []))
        # the names this request addresses (bookkeeping of input names only)
        try:
            roots, outs = set(o.pl.topological_generations.root_args), set(o.pl.all_output_names)
        except Exception:  # noqa: BLE001
            roots, outs = set(), set()
        ins_ = roots if op["inputs"] == "*" else set(op["inputs"] or []) & roots
        outs_ = outs if op["outputs"] == "*" else set(op["outputs"] or []) & outs
        tgt = (ins_ | outs_) - set(op["exclude"] or [])

        def conv(x):
            return x if x == "*" or x is None else set(x)
        r = self._rewrite(kind, src, a, lambda pl: pl.update_scope(scope, conv(op["inputs"]), conv(op["outputs"]),
                                                                  set(op["exclude"]) if op["exclude"] else None))
        if r is not None:
            ren = {c: (f"{scope}.{c.split('.', 1)[-1]}" if scope is not None else c.split(".", 1)[-1]) for c in tgt}
            self._apply_ren(o, ren)
            o.lineage.append(kind)
            self._finish([src])

    def op_nest(self, op: dict) -> None:
        src = op["src"]
        o = self.objs[src]
        names = {tuple(s) if len(s) > 1 else s[0] for s in op["S"]}
        members = [f for f in o.pl.functions if f.output_name in names]
        leaf_tuple = False
        try:
            g = o.pl.graph
            leaves = [f for f in members if not any(s in members for s in g.successors(f))]
            leaf_tuple = any(isinstance(f.output_name, tuple) for f in leaves)
        except Exception:  # noqa: BLE001
            pass
        # does a member consume as a whole array something that is mapped inside the nest?  (history feature)
        reduces = False
        try:
            inside = {n for f in members for n in ([f.output_name] if isinstance(f.output_name, str) else f.output_name)}
            mapped = {n for f in members if f.mapspec for n in f.mapspec.input_names + f.mapspec.output_names}
            for f in members:
                if f.mapspec:
                    spec = {sp.name: sp for sp in f.mapspec.inputs}
                    reduces |= any(p in mapped and (p not in spec or (None in spec[p].axes and p in inside))
                                   for p in f.parameters if p not in f.bound)
        except Exception:  # noqa: BLE001
            pass
        new_name = None if not op["N"] else (tuple(op["N"]) if len(op["N"]) > 1 else op["N"][0])
        a = args(S=[list(s) for s in op["S"]], N=list(op["N"]))
        r = self._rewrite("nest", src, a, lambda pl: pl.nest_funcs(names, new_name), members=members)
        if r is not None:
            o.lineage.append("nest")
            o.feats["model_merged"] = True
            o.feats["merged_tuple_leaf"] = o.feats.get("merged_tuple_leaf", False) or leaf_tuple
            self._finish([src])
        self.events[-1]["_feats"]["merged_tuple_leaf"] = leaf_tuple
        self.events[-1]["_feats"]["nest_reduces_mapped_name"] = reduces

    def op_simplified(self, op: dict) -> None:
        src = op["src"]
        o = self.objs[src]
        r = self._rewrite("simplified", src, args(out=op["out"]), lambda pl: pl.simplified_pipeline(op["out"]))
        tl = any(isinstance(f.output_name, tuple) for f in o.pl.functions)
        self.events[-1]["_feats"]["merged_tuple_leaf"] = tl
        if r is not None:
            self.events[-1]["_feats"]["groups"] = sum(type(f).__name__ == "NestedPipeFunc" for f in r.functions)
            nested_tuple = any(type(f).__name__ == "NestedPipeFunc" and any(
                isinstance(g.output_name, tuple) and not list(f.pipeline.graph.successors(g)) for g in f.pipeline.functions)
                for f in r.functions)
            i = self._derive(src, r, "simplified", model_merged=True,
                             merged_tuple_leaf=o.feats.get("merged_tuple_leaf", False) or nested_tuple)
            self._finish([i])

    def op_split(self, op: dict) -> None:
        r = self._rewrite("split", op["src"], args(), lambda pl: pl.split_disconnected())
        if r is not None:
            self._finish([self._derive(op["src"], p, "split") for p in r])

    def op_add_mapspec_axis(self, op: dict) -> None:
        src = op["src"]
        o = self.objs[src]
        r = self._rewrite("add_mapspec_axis", src, args(p=op["p"], k=op["k"]),
                          lambda pl: pl.add_mapspec_axis(op["p"], axis=op["k"]))
        if r is not None:
            o.lift[op["p"]] = op["n"]
            o.lineage.append("add_mapspec_axis")
            self._finish([src])

    def _mutate(self, kind: str, src: int, a: dict, fn) -> None:
        o = self.objs[src]
        try:
            with quiet():
                fn(o.pl)
        except Exception as ex:  # noqa: BLE001
            self.events.append(ev(e="refuse", kind=kind, src=src, args=a, exc=type(ex).__name__))
            self.events[-1]["_feats"] = self.source_feats(o.pl)
            del self.objs[src]
            return
        self.events.append(ev(e="mutate", id=src, kind=kind, args=a))
        o.feats["mutated"] = True
        o.lineage.append(kind)

    def op_update_defaults(self, op: dict) -> None:
        self._mutate("update_defaults", op["src"], args(p=op["p"], v=op["v"]),
                     lambda pl: pl.update_defaults({op["p"]: from_json(op["v"])}))

    def op_update_bound(self, op: dict) -> None:
        f = op["f"]
        self._mutate("update_bound", op["src"], args(f=f[0], p=op["p"], v=op["v"]),
                     lambda pl: pl[tuple(f) if len(f) > 1 else f[0]].update_bound({op["p"]: from_json(op["v"])}))

    # -- observation
    def value_for(self, o: Obj, cur: str) -> dict:
        og = o.orig(cur)
        if og is None:
            return {"f": "@k_" + cur, "a": []}
        if cur in o.lift:
            return {"f": "#arr", "a": [{"f": f"@k_{og}_{j}", "a": []} for j in range(o.lift[cur])]}
        return self.base_vals.setdefault(og, {"f": "@k_" + og, "a": []})

    @staticmethod
    def nest_kwargs(flat: dict[str, Any]) -> dict[str, Any]:
        out: dict[str, Any] = {}
        for k, v in flat.items():
            if "." in k:
                s, b = k.split(".", 1)
                out.setdefault(s, {})[b] = v
            else:
                out[k] = v
        return out

    def op_eval_all(self, op: dict) -> None:
        step = op["step"]
        for i in sorted(self.objs):
            o = self.objs[i]
            try:
                mapped = bool(o.pl.mapspecs())
                outs = sorted(o.pl.all_output_names)
                defaults = dict(o.pl.defaults)
            except Exception as ex:  # noqa: BLE001
                self.events.append(ev(e="eval", id=i, mode="call", conv="dotted", exc=type(ex).__name__, val=exc_term(ex)))
                continue
            # cheap observation: what a throw-away copy of the object looks like (re-reads the per-function naming state)
            try:
                with quiet():
                    st = self.struct(o.pl.copy())
                self.events.append(ev(e="probe", id=i, struct=[st]))
            except Exception as ex:  # noqa: BLE001
                self.events.append(ev(e="probe", id=i, exc=type(ex).__name__, struct=[{"outs": [], "roots": []}]))
            if mapped:
                self.eval_map(i, o, step, defaults)
            else:
                for n, out in enumerate(outs):
                    self.eval_call(i, o, out, step + n, defaults)

    def eval_call(self, i: int, o: Obj, out: str, salt: int, defaults: dict) -> None:
        try:
            roots = list(o.pl.root_args(out))
        except Exception as ex:  # noqa: BLE001
            self.events.append(ev(e="eval", id=i, out=out, mode="call", conv="dotted", exc=type(ex).__name__,
                                  val=exc_term(ex)))
            return
        flat = {}
        for k, r in enumerate(roots):
            if r in defaults and (salt + k) % 3 == 0:
                continue
            flat[r] = self.value_for(o, r)
        nested = any("." in r for r in flat) and (salt + i) % 2 == 1
        kwargs = {k: from_json(v) for k, v in flat.items()}
        if nested:
            kwargs = self.nest_kwargs(kwargs)
        e = ev(e="eval", id=i, out=out, mode="call", conv="nested" if nested else "dotted",
               inputs=[[k, v] for k, v in flat.items()], roots=roots)
        try:
            with quiet():
                e["val"] = to_json(o.pl(out, **kwargs))
        except Exception as ex:  # noqa: BLE001
            e["exc"] = type(ex).__name__
            e["val"] = exc_term(ex)
            e["_msg"] = str(ex)[:200]
        self.events.append(e)

    def eval_map(self, i: int, o: Obj, salt: int, defaults: dict) -> None:
        try:
            roots = list(o.pl.topological_generations.root_args)
            msnames = set(o.pl.mapspec_names)
        except Exception as ex:  # noqa: BLE001
            self.events.append(ev(e="eval", id=i, mode="map", conv="dotted", exc=type(ex).__name__, val=exc_term(ex)))
            return
        flat = {}
        for k, r in enumerate(sorted(roots)):
            if r in defaults and r not in msnames and (salt + k) % 3 == 0:
                continue
            flat[r] = self.value_for(o, r)
        nested = any("." in r for r in flat) and (salt + i) % 2 == 1
        kinds = {r: self.kinds.get(o.orig(r) or "", "list") for r in flat}
        py = pmap.inputs_to_py([[k, v] for k, v in flat.items()], kinds)
        if nested:
            py = self.nest_kwargs(py)
        e = ev(e="eval", id=i, mode="map", conv="nested" if nested else "dotted", inputs=[[k, v] for k, v in flat.items()],
               roots=sorted(roots))
        try:
            with quiet(), warnings.catch_warnings():
                warnings.simplefilter("ignore")
                res = o.pl.map(py, parallel=False, storage="dict", show_progress=False)
            e["vals"] = [[str(k), to_json(r.output)] for k, r in res.items()]
        except Exception as ex:  # noqa: BLE001
            e["exc"] = type(ex).__name__
            e["val"] = exc_term(ex)
            e["_msg"] = str(ex)[:200]
        self.events.append(e)


# ---- random operations (input generation only: every choice is recorded in the script) -----------------------------------
SCOPES = ["s", "t", "u", "x"]          # every scope is also a PREFIX of some pool name ("x" / "x_scale", "s" / "s_in", ...)
# Names are drawn from a pool by a seeded permutation, so that the alphabetical order of output / parameter names is
# independent of the order in which the functions were created (simplified_pipeline orders its groups by output name).
# No pool name equals a scope, a MapSpec axis letter, or a name the generator invents later (r*, m*, q*, j*, k*).
NAME_POOL = ["alpha", "beta", "gamma", "delta", "kappa", "lam", "omega", "phi", "psi", "rho", "sigma", "tau", "theta", "zeta",
             "x_scale", "x_off", "s_in", "t_val", "u_0", "a1", "b2", "c3", "d4", "e5", "g6", "h7", "p8", "v9", "w_", "y_", "z_"]


def permute_names(rng: random.Random, tdesc: dict, pdesc: dict | None = None, inputs=None, kinds=None):
    """Rename every parameter / output of a generated description through a seeded permutation of NAME_POOL (term heads
    are the new output names: this happens BEFORE the pipeline is built, it is not a rewrite under test)."""
    import re
    names = sorted({n for f in tdesc["funcs"] for n in list(f["params"]) + list(f["outputs"])})
    pool = list(NAME_POOL)
    rng.shuffle(pool)
    if len(names) > len(pool):
        return tdesc, pdesc, inputs, kinds
    m = dict(zip(names, pool))

    def r(n):
        return m.get(n, n)

    def rspecs(ss):
        return [{"name": r(x["name"]), "axes": list(x["axes"])} for x in ss]
    t2 = {"funcs": [dict(f, params=[r(x) for x in f["params"]], outputs=[r(x) for x in f["outputs"]],
                         defaults=[[r(k), v] for k, v in f["defaults"]], bound=[[r(k), v] for k, v in f["bound"]],
                         ms={"ins": rspecs(f["ms"]["ins"]), "outs": rspecs(f["ms"]["outs"])}) for f in tdesc["funcs"]]}
    p2 = None
    if pdesc is not None:
        pat = re.compile(r"\b(" + "|".join(re.escape(n) for n in sorted(names, key=len, reverse=True)) + r")\b(?=\[)")
        p2 = {"funcs": [dict(f, params=[r(x) for x in f["params"]], outputs=[r(x) for x in f["outputs"]],
                             defaults={r(k): v for k, v in (f.get("defaults") or {}).items()},
                             bound={r(k): v for k, v in (f.get("bound") or {}).items()},
                             mapspec=pat.sub(lambda mm: m[mm[1]], f["mapspec"]) if f.get("mapspec") else f.get("mapspec"))
                        for f in pdesc["funcs"]]}
    i2 = [[r(n), v] for n, v in inputs] if inputs is not None else None
    k2 = {r(n): v for n, v in kinds.items()} if kinds is not None else None
    return t2, p2, i2, k2




def _funcs_sorted(pl) -> list:
    return sorted(pl.functions, key=out_key)


def combinable_outputs(pl) -> list[str]:
    """Outputs from which simplified_pipeline has something to combine (a function with a predecessor that has the same
    root arguments) - used to pick interesting requests, never to judge them."""
    import networkx as nx
    from pipefunc import PipeFunc
    try:
        g, ra = pl.graph, pl.all_root_args
        hit = set()
        for h in pl.functions:
            if any(isinstance(j, PipeFunc) and ra[j.output_name] == ra[h.output_name] for j in g.predecessors(h)):
                hit |= {h} | {d for d in nx.descendants(g, h) if isinstance(d, PipeFunc)}
        return sorted(n for f in hit for n in ([f.output_name] if isinstance(f.output_name, str) else f.output_name))
    except Exception:  # noqa: BLE001
        return []


def chainify(rng: random.Random, tdesc: dict) -> dict:
    """Make a random description chain-like (some functions consume only earlier outputs / one shared root), so that
    nest_funcs and simplified_pipeline find something to merge."""
    funcs = tdesc["funcs"]
    outs_before: list[str] = []
    for f in funcs:
        if outs_before and rng.random() < 0.6:
            keep = [p for p in f["params"] if p in outs_before][:1] or [rng.choice(outs_before)]
            if rng.random() < 0.4:
                keep.append(rng.choice(["x", "y"]))           # (names are permuted afterwards)
            f["params"] = list(dict.fromkeys(keep))
            f["defaults"] = [d for d in f["defaults"] if d[0] in f["params"]]
            f["bound"] = [b for b in f["bound"] if b[0] in f["params"]]
        outs_before += f["outputs"]
    return tdesc


def gen_nest(pl, rng: random.Random) -> dict | None:
    import networkx as nx
    from pipefunc import PipeFunc
    g = pl.graph
    funcs = _funcs_sorted(pl)
    if rng.random() < 0.08 and len(funcs) >= 2:       # an arbitrary pair (often ill-formed: two leaves, a cycle)
        S = set(rng.sample(funcs, 2))
        h = None
    else:
        cands = [f for f in funcs if any(isinstance(p, PipeFunc) for p in g.predecessors(f))]
        if not cands:
            return None
        h = rng.choice(cands)
        anc = sorted([a for a in nx.ancestors(g, h) if isinstance(a, PipeFunc)], key=out_key)
        S = {h} | set(rng.sample(anc, rng.randint(1, len(anc))))
        anc_h = set(nx.ancestors(g, h))
        changed = True
        while changed:                                   # everything between a member and the leaf joins the nest
            changed = False
            for m in funcs:
                if m not in S and m in anc_h and any(m in nx.descendants(g, a) for a in S):
                    S.add(m)
                    changed = True
    N: list[str] = []
    if h is not None and rng.random() < 0.3:
        inside = {n for f in S for n in ([f.output_name] if isinstance(f.output_name, str) else f.output_name)}
        used_outside = {p for f in funcs if f not in S for p in f.parameters if p in inside and p not in f.bound}
        leaf = [h.output_name] if isinstance(h.output_name, str) else list(h.output_name)
        N = sorted(set(leaf) | used_outside)
    return {"op": "nest", "S": sorted([[f.output_name] if isinstance(f.output_name, str) else list(f.output_name) for f in S]),
            "N": N}


def gen_op(fam: Family, rng: random.Random, counter: list[int], *, mutation: bool) -> list[dict]:
    """One random rewrite (or mutation) on a random live object, as a list of script operations."""
    ids = sorted(fam.objs)
    if not ids:
        return []
    src = ids[-1] if rng.random() < 0.5 else rng.choice(ids)
    o = fam.objs[src]
    pl = o.pl
    try:
        roots = sorted(pl.topological_generations.root_args)
        outs = sorted(pl.all_output_names)
        mapped = bool(pl.mapspecs())
        msnames = set(pl.mapspec_names)
    except Exception:  # noqa: BLE001
        return [{"op": "copy", "src": src}]
    # the model's `merged` flag (inherited by every descendant of a nest/simplify, also by split components)
    merged = bool(o.feats.get("model_merged")) or any(type(f).__name__ == "NestedPipeFunc" for f in pl.functions)
    counter[0] += 1
    c = counter[0]
    if mutation:
        kinds = ["update_defaults", "update_bound", "update_renames"]
        k = rng.choice(kinds)
        if k == "update_defaults":
            cand = [r for r in roots if r not in msnames]
            if cand:
                return [{"op": "update_defaults", "src": src, "p": rng.choice(cand), "v": {"f": f"@m_d{c}", "a": []}}]
            k = "update_renames"
        if k == "update_bound":
            cand = [] if merged else [(f, p) for f in _funcs_sorted(pl) for p in f.parameters
                                      if p not in f._defaults and not (f.mapspec and p in f.mapspec.input_names)]
            if cand:
                hot = [(f, p) for f, p in cand if f.bound]     # a non-empty bound dict is what copy()/join hand on by reference
                f, p = rng.choice(hot if hot and rng.random() < 0.6 else cand)
                fo = [f.output_name] if isinstance(f.output_name, str) else list(f.output_name)
                return [{"op": "update_bound", "src": src, "f": fo, "p": p, "v": {"f": f"@m_b{c}", "a": []}}]
            k = "update_renames"
        names = roots + outs
        if not names:
            return []
        return [{"op": "update_renames", "src": src, "ren": {rng.choice(names): f"{rng.choice('bmy')}m{c}"}, "as": "mutate"}]
    scoped = any("." in n for n in roots + outs)
    weights = {"copy": 2, "pickle": 2, "join": 3, "update_renames": 2, "update_scope": 3, "remove_scope": 3 if scoped else 0,
               "nest": 4 if len(pl.functions) >= 2 else 0, "simplified": (0.3 if mapped else 4) if len(pl.functions) >= 2 else 0,
               "split": 3 if len(pl._connected_components()) > 1 else 0.3,
               "add_mapspec_axis": 0 if merged else 2}
    # overwrite=True is modelled only where the built spelling is still the model's original name (see Rewrites.tla)
    ow_ok = (not merged and o.feats.get("plain_built") and not o.lift and
             set(o.lineage) <= {"new", "copy", "pickle", "update_renames", "overwrite_renames", "update_scope", "remove_scope",
                                "update_defaults", "update_bound"})
    weights["overwrite_renames"] = 2 if ow_ok and o.lineage != ["new"] else 0
    kind = rng.choices(list(weights), list(weights.values()))[0]
    if kind == "overwrite_renames":
        names = roots + outs
        ks = rng.sample(names, min(len(names), rng.choice([0, 1, 1, 2])))
        return [{"op": "overwrite_renames", "src": src, "ren": {k: f"{rng.choice('cnr')}w{c}_{j}" for j, k in enumerate(ks)},
                 "update_from": rng.choice(["current", "current", "original"])}]
    if kind in ("copy", "split"):
        return [{"op": kind, "src": src}]
    if kind == "pickle":
        return [{"op": "pickle", "src": src, "how": rng.choice(["pickle", "cloudpickle"])}]
    if kind == "update_renames":
        names = roots + outs
        if not names:
            return [{"op": "copy", "src": src}]
        ks = rng.sample(names, min(len(names), rng.choice([1, 1, 2])))
        return [{"op": "update_renames", "src": src,
                 "ren": {k: (f"{rng.choice(SCOPES)}.{rng.choice('cnr')}r{c}_{j}" if rng.random() < 0.25
                             else f"{rng.choice('cnr')}r{c}_{j}") for j, k in enumerate(ks)}}]
    if kind == "update_scope":
        def pick(pool):
            r = rng.random()
            if r < 0.55:
                return "*"
            if r < 0.75 or not pool:
                return None
            return sorted(rng.sample(pool, rng.randint(1, len(pool))))
        i_, o_ = pick(roots), pick(outs)
        if i_ is None and o_ is None:
            i_ = "*"
        exc = sorted(rng.sample(roots + outs, 1)) if (roots + outs) and rng.random() < 0.25 else None
        return [{"op": "update_scope", "src": src, "scope": rng.choice(SCOPES), "inputs": i_, "outputs": o_, "exclude": exc}]
    if kind == "remove_scope":
        full = rng.random() < 0.7
        return [{"op": "update_scope", "src": src, "scope": None, "inputs": "*", "outputs": "*" if full else None,
                 "exclude": None}]
    if kind == "nest":
        g = gen_nest(pl, rng)
        return [dict(g, src=src)] if g else [{"op": "copy", "src": src}]
    if kind == "simplified":
        good = combinable_outputs(pl)
        pool = good if good and rng.random() < 0.8 else outs
        return [{"op": "simplified", "src": src, "out": rng.choice(pool)}] if pool else []
    if kind == "add_mapspec_axis":
        cand = [r for r in roots if r not in msnames and fam.value_for(o, r)["f"] != "#arr"]
        if not cand:
            return [{"op": "copy", "src": src}]
        return [{"op": "add_mapspec_axis", "src": src, "p": rng.choice(cand), "k": f"k{c}", "n": rng.choice([1, 2, 2, 3])}]
    if kind == "join":
        others = [i for i in ids if i != src]
        if others and rng.random() < 0.35:               # two live objects (usually refused: same output names)
            return [{"op": "join", "src": src, "partner": rng.choice(others), "how": rng.choice(["join", "or"])}]
        # a fresh partner written in the ORIGINAL names of src, then renamed to src's current spelling where they differ
        vis = [(n, o.orig(n)) for n in roots + outs if o.orig(n) and o.orig(n).isidentifier()]
        funcs = []
        shared: dict[str, str] = {}
        pid = fam.next_id
        prev: list[str] = []
        for j in range(rng.choice([1, 1, 2])):
            params = []
            for _ in range(rng.choice([0, 1, 1, 2])):
                if vis and rng.random() < 0.7:
                    cur, og = rng.choice(vis)
                    if og not in params and shared.get(og, cur) == cur:
                        params.append(og)
                        shared[og] = cur
                elif prev and rng.random() < 0.5:
                    if prev[-1] not in params:
                        params.append(prev[-1])
                else:
                    q = f"q{pid}_{j}{len(params)}"
                    params.append(q)
            jl = rng.choice("afjz")
            outs_ = [f"{jl}j{pid}_{j}"] if rng.random() < 0.8 else [f"{jl}j{pid}_{j}", f"{jl}j{pid}_{j}b"]
            produce_root = [(cur, og) for cur, og in vis if cur in roots and og not in shared and cur not in o.lift
                            and fam.base_vals.get(og, {"f": ""})["f"] != "#arr"]
            if j == 0 and produce_root and rng.random() < 0.25:
                cur, og = rng.choice(produce_root)
                outs_ = [og]
                shared[og] = cur
                params = [p for p in params if p != og]
            funcs.append({"name": f"fj{pid}_{j}", "params": params, "outputs": outs_, "defaults": [], "bound": [],
                          "has_ms": False, "ms": {"ins": [], "outs": []}, "internal": [], "cache": False})
            prev += outs_
        tdesc = {"funcs": funcs}
        ops = [{"op": "new", "tdesc": tdesc, "pdesc": pcall.tla_desc_to_py(tdesc), "inputs": [], "kinds": {}}]
        ren = {og: cur for og, cur in shared.items() if og != cur}
        if ren:
            ops.append({"op": "update_renames", "src": pid, "ren": ren, "as": "mutate"})
        ops.append({"op": "join", "src": src, "partner": pid, "how": rng.choice(["join", "or"])})
        return ops
    return []


def run_family(job: dict) -> dict:
    """Generate + execute one family in a worker process; returns {"ev", "script", "marks", "mode"}."""
    rng = random.Random(job["seed"])
    build.LOG.clear()
    fam = Family()
    if job["mode"] == "call":
        tdesc = c02.random_desc(rng, rng.randint(2, job["maxfuncs"]))
        if rng.random() < 0.4:
            tdesc = chainify(rng, tdesc)
        tdesc, _, _, _ = permute_names(random.Random(job["seed"] ^ 0x5EED), tdesc)
        pd = pcall.tla_desc_to_py(tdesc)
        if job["seed"] % 3 == 0:      # every function cached (a never-evicting cache): a rewrite must not be answered with
            pd["cache_type"] = "simple"          # results that were cached under the names / structure before it
            for fd in pd["funcs"]:
                fd["cache"] = True
        fam.do({"op": "new", "tdesc": tdesc, "pdesc": pd, "inputs": [], "kinds": {}})
    else:
        case = gen_map.random_map_case(rng, rng.randint(1, 3), max_rank=2, max_size=2)
        td, pd, inp, kd = permute_names(random.Random(job["seed"] ^ 0x5EED), desc_to_tla(case["desc"]), case["desc"],
                                        case["inputs"], case["kinds"])
        fam.do({"op": "new", "tdesc": td, "pdesc": pd, "inputs": inp, "kinds": kd})
    fam.do({"op": "eval_all", "step": 0})
    n = rng.randint(1, job["maxlen"])
    mut_at = rng.randint(0, n) if rng.random() < 0.7 else -1
    counter = [0]
    for step in range(n + 1):
        plan = []
        if step == mut_at:
            plan.append(True)
        if step < n:
            plan.append(False)
        for is_mut in plan:
            ops = gen_op(fam, rng, counter, mutation=is_mut)
            for op in ops:
                if op["op"] == "pickle" and job["mode"] == "call" and job["seed"] % 3 == 0:
                    op = {"op": "copy", "src": op["src"]}     # a non-shared cache refuses to be pickled (documented)
                fam.do(op)
            if ops:
                fam.do({"op": "eval_all", "step": len(fam.script)})
    return {"ev": fam.events, "script": fam.script, "marks": fam.marks, "mode": job["mode"]}


# ---- deterministic histories (every tier): shapes the random generator reaches only by luck ----------------------------------
def _f(name: str, params: list[str], outs: list[str], dfl: dict | None = None, bnd: dict | None = None) -> dict:
    return {"name": name, "params": params, "outputs": outs, "defaults": [[k, {"f": v, "a": []}] for k, v in (dfl or {}).items()],
            "bound": [[k, {"f": v, "a": []}] for k, v in (bnd or {}).items()], "has_ms": False, "ms": {"ins": [], "outs": []},
            "internal": [], "cache": False}


def _new(funcs: list[dict]) -> dict:
    t = {"funcs": funcs}
    return {"op": "new", "tdesc": t, "pdesc": pcall.tla_desc_to_py(t), "inputs": [], "kinds": {}}


def directed_scripts() -> list[dict]:
    """{"name", "script", "min_groups"}.
    simplify-*: simplified_pipeline must build >= 2 nested groups where the group whose head output sorts FIRST reads an
      interior (non-head) output of the group whose head sorts LAST (groups are ordered by head name, not topologically);
      variants: default on the consuming parameter, interior output of a tuple, a third group, plain consumer outside.
    scope-prefix: update_scope with a scope that is a prefix of parameter / output names ("x" vs "x_scale").
    bound-alias-*: update_bound on a function whose NON-EMPTY bound dict went through copy() / join / | / pickle."""
    def with_evals(ops: list[dict]) -> list[dict]:
        out = []
        for k, op in enumerate(ops):
            out += [op, {"op": "eval_all", "step": 2 * k + 1}]
        return out
    A = [_f("a1", ["x_in"], ["p_mid"]), _f("a2", ["p_mid"], ["zq_head"])]
    cases = []
    s1 = A + [_f("b1", ["p_mid", "zq_head", "y_in"], ["r_mid"]), _f("b2", ["r_mid"], ["bs_head"])]
    cases.append(("simplify-interior-read-by-earlier-group", [_new(s1), {"op": "simplified", "src": 1, "out": "bs_head"},
                                                              {"op": "copy", "src": 2}], 2))
    s2 = A + [_f("b1", ["p_mid", "zq_head", "y_in"], ["r_mid"], dfl={"p_mid": "@d_p_mid"}), _f("b2", ["r_mid"], ["bs_head"])]
    cases.append(("simplify-interior-with-default-on-consumer", [_new(s2), {"op": "simplified", "src": 1, "out": "bs_head"},
                                                                 {"op": "pickle", "src": 2, "how": "pickle"}], 2))
    s3 = [_f("a1", ["x_in"], ["p_mid", "p_two"]), _f("a2", ["p_mid"], ["zq_head"]),
          _f("b1", ["p_two", "zq_head", "y_in"], ["r_mid"]), _f("b2", ["r_mid"], ["bs_head", "bs_two"])]
    cases.append(("simplify-interior-tuple-output", [_new(s3), {"op": "simplified", "src": 1, "out": "bs_head"}], 2))
    s4 = s1 + [_f("c1", ["p_mid", "r_mid", "bs_head", "zq_head", "w_in"], ["t_mid"]), _f("c2", ["t_mid"], ["aa_head"])]
    cases.append(("simplify-three-groups", [_new(s4), {"op": "simplified", "src": 1, "out": "aa_head"},
                                            {"op": "update_scope", "src": 2, "scope": "s", "inputs": "*", "outputs": "*",
                                             "exclude": None}], 3))
    s5 = s1 + [_f("plain", ["p_mid", "v_in", "bs_head"], ["aa_leaf"])]
    cases.append(("simplify-interior-also-read-outside", [_new(s5), {"op": "simplified", "src": 1, "out": "aa_leaf"}], 2))
    s6 = [_f("a1", ["x_in"], ["p_mid"]), _f("a2", ["p_mid"], ["bq_head"]),                       # control: consumer sorts last
          _f("b1", ["p_mid", "bq_head", "y_in"], ["r_mid"]), _f("b2", ["r_mid"], ["zs_head"])]
    cases.append(("simplify-interior-read-by-later-group", [_new(s6), {"op": "simplified", "src": 1, "out": "zs_head"}], 2))
    sp = [_f("f", ["x_scale", "x_off", "s_in"], ["xy_out"], dfl={"x_off": "@d_x_off"}),
          _f("g", ["xy_out", "t_val", "x_scale"], ["t_res"], bnd={"t_val": "@b_t_val"})]
    cases.append(("scope-prefix", [_new(sp),
                                   {"op": "update_scope", "src": 1, "scope": "x", "inputs": "*", "outputs": "*", "exclude": None},
                                   {"op": "copy", "src": 1},
                                   {"op": "update_scope", "src": 2, "scope": "x", "inputs": "*", "outputs": "*", "exclude": None},
                                   {"op": "update_scope", "src": 2, "scope": "t", "inputs": ["x.x_scale", "x.s_in"],
                                    "outputs": ["x.t_res"], "exclude": None},
                                   {"op": "update_scope", "src": 1, "scope": None, "inputs": "*", "outputs": "*", "exclude": None},
                                   {"op": "update_scope", "src": 1, "scope": "s", "inputs": ["s_in", "x_off"], "outputs": None,
                                    "exclude": None},
                                   {"op": "update_scope", "src": 1, "scope": "xy", "inputs": None, "outputs": "*",
                                    "exclude": ["t_res"]}], 0))
    bd = [_f("fa", ["x_in", "y_in"], ["a_out"], bnd={"y_in": "@b_y"}),
          _f("fb", ["a_out", "z_in", "w_in"], ["b_out"], bnd={"z_in": "@b_z"})]
    part = [_f("fp", ["b_out", "q_in"], ["p_out"], bnd={"q_in": "@b_q"})]
    for how, ops in (("copy", [{"op": "copy", "src": 1}]),
                     ("join", [_new(part), {"op": "join", "src": 1, "partner": 2, "how": "join"}]),
                     ("or", [_new(part), {"op": "join", "src": 1, "partner": 2, "how": "or"}]),
                     ("pickle", [{"op": "pickle", "src": 1, "how": "pickle"}])):
        new_id = 2 if how in ("copy", "pickle") else 3
        cases.append((f"bound-alias-{how}",
                      [_new(bd)] + ops +
                      [{"op": "update_bound", "src": new_id, "f": ["b_out"], "p": "z_in", "v": {"f": "@m_new_z", "a": []}},
                       {"op": "update_bound", "src": 1, "f": ["a_out"], "p": "y_in", "v": {"f": "@m_new_y", "a": []}},
                       {"op": "update_bound", "src": new_id, "f": ["a_out"], "p": "x_in", "v": {"f": "@m_new_x", "a": []}}]
                      + ([{"op": "update_bound", "src": 2, "f": ["p_out"], "p": "q_in", "v": {"f": "@m_new_q", "a": []}}]
                         if how in ("join", "or") else []), 0))
    # defaults-alias-*: update_defaults on one of two objects whose functions went through PipeFunc.copy (copy / join / |
    # / pickle) with an EXPLICITLY set, non-empty defaults dict, followed by a further rewrite of the OTHER object (the
    # untouched object's cached `defaults` view hides a shared dict until it is copied again)
    dd = [_f("fa", ["x_in", "y_in"], ["a_out"], dfl={"y_in": "@d_y"}),
          _f("fb", ["a_out", "z_in", "w_in"], ["b_out"], dfl={"z_in": "@d_z"})]
    dpart = [_f("fp", ["b_out", "q_in"], ["p_out"], dfl={"q_in": "@d_q"})]
    for how, ops in (("copy", [{"op": "copy", "src": 1}]),
                     ("join", [_new(dpart), {"op": "join", "src": 1, "partner": 2, "how": "join"}]),
                     ("or", [_new(dpart), {"op": "join", "src": 1, "partner": 2, "how": "or"}]),
                     ("pickle", [{"op": "pickle", "src": 1, "how": "pickle"}])):
        new_id = 2 if how in ("copy", "pickle") else 3
        for first, other in ((new_id, 1), (1, new_id)):
            cases.append((f"defaults-alias-{how}-{'derived' if first == new_id else 'source'}-first",
                          [_new(dd)] + ops +
                          [{"op": "update_defaults", "src": first, "p": "z_in", "v": {"f": "@m_new_z", "a": []}},
                           {"op": "copy", "src": other},
                           {"op": "update_defaults", "src": other, "p": "y_in", "v": {"f": "@m_new_y", "a": []}},
                           {"op": "pickle", "src": first, "how": "pickle"},
                           {"op": "update_scope", "src": other, "scope": "s", "inputs": "*", "outputs": "*", "exclude": None}], 0))
    # cache-rename-*: every function cached in a never-evicting cache; outputs swap their names through a temporary one /
    # move into a scope and back: no evaluation may be answered with what was cached under a name before the rename
    cr = [_f("fc", ["x_in"], ["c_out"]), _f("fd", ["x_in"], ["d_out"]), _f("fe", ["c_out", "d_out"], ["e_out"])]
    for f in cr:
        f["cache"] = True
    newc = _new(cr)
    newc["pdesc"]["cache_type"] = "simple"
    cases.append(("cache-rename-swap",
                  [newc, {"op": "update_renames", "src": 1, "ren": {"c_out": "tmp_out"}},
                   {"op": "update_renames", "src": 1, "ren": {"d_out": "c_out"}},
                   {"op": "update_renames", "src": 1, "ren": {"tmp_out": "d_out"}},
                   {"op": "update_scope", "src": 1, "scope": "s", "inputs": None, "outputs": ["c_out"], "exclude": None},
                   {"op": "update_renames", "src": 1, "ren": {"d_out": "c_out"}}], 0))
    # nest-annotated: consistently annotated functions; nesting producer + consumer under ONE exposed output, read by an
    # annotated function outside: the nested function's output keeps the inner annotation (the rewrite must succeed)
    na = [_f("fa", ["a_in"], ["c_mid"]), _f("fb", ["c_mid"], ["d_mid"]), _f("fc", ["d_mid", "b_in"], ["e_out"])]
    for f in na:
        f["annot"] = "int"
    cases.append(("nest-annotated",
                  [_new(na), {"op": "nest", "src": 1, "S": [["c_mid"], ["d_mid"]], "N": ["d_mid"]},
                   {"op": "copy", "src": 1},
                   {"op": "update_renames", "src": 2, "ren": {"d_mid": "d_new"}}], 0))
    na2 = [_f("fa", ["a_in"], ["c_mid", "c_two"]), _f("fb", ["c_mid"], ["d_mid"]), _f("fc", ["d_mid", "c_two"], ["e_out"])]
    for f in na2:
        f["annot"] = "int"
    cases.append(("nest-annotated-tuple",
                  [_new(na2), {"op": "nest", "src": 1, "S": [["c_mid", "c_two"], ["d_mid"]], "N": ["d_mid", "c_two"]},
                   {"op": "pickle", "src": 1, "how": "pickle"}], 0))
    # overwrite-*: update_renames(..., overwrite=True) after an edge (an output and the parameter reading it), a root argument
    # or a scope was renamed: EVERY function goes back to its built spelling except for the names given now
    ow = [_f("fa", ["x_in", "y_in"], ["a_out"], dfl={"y_in": "@d_y"}), _f("fb", ["a_out", "z_in"], ["b_out"]),
          _f("fc", ["b_out", "x_in"], ["c_out"])]
    cases.append(("overwrite-after-edge-rename",
                  [_new(ow), {"op": "update_renames", "src": 1, "ren": {"a_out": "a_two", "z_in": "z_two"}},
                   {"op": "overwrite_renames", "src": 1, "ren": {"x_in": "x_new"}},
                   {"op": "copy", "src": 1},
                   {"op": "overwrite_renames", "src": 1, "ren": {}},
                   {"op": "overwrite_renames", "src": 2, "ren": {"b_out": "b_new", "y_in": "y_new"}, "update_from": "original"}], 0))
    cases.append(("overwrite-after-scope",
                  [_new(ow), {"op": "update_scope", "src": 1, "scope": "s", "inputs": "*", "outputs": "*", "exclude": None},
                   {"op": "pickle", "src": 1, "how": "pickle"},
                   {"op": "overwrite_renames", "src": 1, "ren": {"s.z_in": "z_plain"}},
                   {"op": "overwrite_renames", "src": 2, "ren": {"s.c_out": "t.c_out"}}], 0))
    cases.append(("overwrite-one-function-only",
                  [_new(ow), {"op": "update_renames", "src": 1, "ren": {"b_out": "b_two"}},
                   {"op": "update_renames", "src": 1, "ren": {"y_in": "y_two"}, "as": "mutate"},
                   {"op": "overwrite_renames", "src": 1, "ren": {"z_in": "z_new"}}], 0))
    return [{"name": n, "script": with_evals(ops), "min_groups": g} for n, ops, g in cases]


def run_directed(case: dict) -> dict:
    tr = run_script(case["script"])
    tr["mode"] = "directed:" + case["name"]
    return tr


def run_script(script: list[dict]) -> dict:
    build.LOG.clear()
    fam = Family()
    for op in script:
        fam.do(copy.deepcopy(op))
    return {"ev": fam.events, "script": fam.script, "marks": fam.marks, "mode": "replay"}


def run_jobs(jobs: list[dict], nproc: int) -> list[dict]:
    if nproc <= 1:
        return [run_family(j) for j in jobs]
    with ProcessPoolExecutor(nproc, mp_context=mp.get_context("fork")) as pool:
        return list(pool.map(run_family, jobs, chunksize=max(1, len(jobs) // (nproc * 8))))


# ---- validation and classification ---------------------------------------------------------------------------------------
def strip_private(tr: dict) -> dict:
    return {"ev": [{k: v for k, v in e.items() if not k.startswith("_")} for e in tr["ev"]]}


def classify(tr: dict, reached: int) -> tuple[dict, str]:
    """Signature of a rejected history: the failing event + features of the history that led to it (inputs/history
    features only; the verdict itself is TLC's)."""
    evs = tr["ev"]
    e = evs[reached - 1]
    store_ops = [x for x in evs[:reached - 1] if x["e"] in ("rewrite", "mutate", "refuse", "new")]
    last = store_ops[-1] if store_ops else None
    sig: dict[str, Any] = {"check": "rewrite-history", "event": e["e"], "kind": e["kind"], "exc": e["exc"]}
    what = ""
    if e["e"] in ("rewrite", "refuse"):
        f = e.get("_feats", {})
        sig.update({k: f.get(k, False) for k in ("tuple_in_source", "bound_in_source", "merged_source", "mapspec_in_source",
                                                  "scoped_params_in_source")})
        if e["kind"] == "nest":
            sig["nest_reduces_mapped_name"] = f.get("nest_reduces_mapped_name", False)
        if e["e"] == "rewrite":
            sig["new_roots_all_bound"] = f.get("new_roots_all_bound", False)
        if e["e"] == "refuse":
            what = (f"{e['kind']} refused with {e['exc']} ({e['val']['f'][5:]}) although the model requires it to succeed "
                    f"on this pipeline")
        else:
            sig["clause"] = "structure"
            what = (f"{e['kind']} succeeded but the observed structure {e['struct']} (outputs / root arguments) is not the "
                    f"model's")
    elif e["e"] == "mutate":
        what = f"mutation {e['kind']} not explained by the model"
    elif e["e"] in ("eval", "probe"):
        # lineage features of the evaluated object
        oid = e["id"]
        lin: list[str] = []
        feats = {"mutated": False, "merged_tuple_leaf": False, "bound": False, "tuple": False, "reduces": False}
        # walk back: collect every operation whose result flows into oid
        flow = {oid}
        for x in reversed(evs[:reached - 1]):
            if x["e"] == "rewrite" and set(x["new_ids"]) & flow:
                lin.append(x["kind"])
                flow |= {x["src"]} | ({x["src2"]} if x["src2"] else set())
                f = x.get("_feats", {})
                feats["merged_tuple_leaf"] |= bool(f.get("merged_tuple_leaf")) and x["kind"] in ("nest", "simplified")
                if x["kind"] in ("nest", "simplified"):
                    feats["bound"] |= bool(f.get("bound_in_source"))
                    feats["reduces"] |= bool(f.get("nest_reduces_mapped_name"))
                feats["tuple"] |= bool(f.get("tuple_in_source"))
            elif x["e"] == "mutate" and x["id"] in flow:
                lin.append(x["kind"])
                feats["mutated"] = True
        tgt_of_last = bool(last) and (oid in (last.get("new_ids") or []) or oid == last.get("id") or
                                      (last["e"] == "rewrite" and last["kind"] in IN_PLACE and oid == last["src"])
                                      or (last["e"] == "new" and oid == last["id"]))
        prev_ok = any(x["e"] == e["e"] and x["id"] == oid and x["out"] == e["out"] and not x["exc"] for x in evs[:reached - 1])
        sig.update({"kind": "", "mode": e["mode"], "last_kind": last["kind"] if last and last["e"] != "new" else "new",
                    "aliasing": (not tgt_of_last) and prev_ok,
                    "via_merge": any(k in ("nest", "simplified") for k in lin),
                    "renamed_after_merge": any(k in ("update_renames", "update_scope", "remove_scope") and
                                               any(m in ("nest", "simplified") for m in lin[j + 1:]) for j, k in enumerate(lin)),
                    "bound_after_pickle": any(k == "update_bound" and "pickle" in lin[j + 1:] for j, k in enumerate(lin)),
                    "via_axis": "add_mapspec_axis" in lin,
                    "merged_tuple_leaf": feats["merged_tuple_leaf"],
                    "nest_reduces_mapped_name": feats["reduces"]})
        did = (f"evaluated {e['out'] or 'map'} with {dict((k, '..') for k, _ in e['inputs'])}" if e["e"] == "eval" else
               f"copied for inspection, structure {e['struct']}")
        what = (f"object {oid} (history {list(reversed(lin))}) {did}: "
                f"{'raised ' + e['exc'] + ' ' + e.get('_msg', '') if e['exc'] else 'differs from the model entry of this object'}"
                f"{'; the object was not the target of the last operation (' + sig['last_kind'] + ')' if sig['aliasing'] else ''}")
    return sig, what


def witness_of(tr: dict, reached: int) -> dict:
    """The script prefix that reproduces the rejected event (operations are replayable: ids are assigned in order)."""
    upto = 1
    for ei, si in tr["marks"]:          # (number of events before the operation, script length including it)
        if ei <= reached - 1:
            upto = si
    e = {k: v for k, v in tr["ev"][reached - 1].items() if k not in ("desc", "_feats")}
    return {"script": tr["script"][:upto], "rejected_at": reached, "event": e}


INVS = ["InvNoAliasing", "InvStoreOK", "InvRewritePreserves"]


def validate(ctx: Ctx, traces: list[dict], name: str, count: bool = True) -> dict[int, int]:
    stripped = [strip_private(t) for t in traces]
    rej = validate_traces(ctx, "TraceRewrites", stripped, name, invariants=INVS,
                          chunk=max(10, min(60, len(traces) // 4 + 1)), count=count)
    return rej


def report(ctx: Ctx, traces: list[dict], rej: dict[int, int]) -> None:
    for i, reached in sorted(rej.items()):
        tr = traces[i]
        sig, what = classify(tr, reached)
        w = witness_of(tr, reached)
        # the script must end with the operation that produced the rejected event
        ctx.violation(sig, what, w)


# ---- the check -----------------------------------------------------------------------------------------------------------
def model_check(ctx: Ctx, quick: bool) -> None:
    seed = ctx.seed
    # calibration (2 workers, idle machine): ~10 CPU-s JVM + universe, then per description ~10 CPU-s (MaxRw=2, MaxMut=1),
    # ~8 (3, 0), ~160 (3, 1), ~2 / ~19 with WithAxis (MaxMut 0 / 1); the N=2 universe has 238 descriptions, N=3 ~6000
    if quick:
        cfgs = [dict(n=2, rich="FALSE", shard=(seed * 7 + 5) % 119, nshards=119, maxrw=2, maxmut=1, axis="FALSE"),
                dict(n=2, rich="FALSE", shard=(seed * 5 + 7) % 119, nshards=119, maxrw=3, maxmut=0, axis="FALSE"),
                dict(n=2, rich="FALSE", shard=(seed * 3 + 9) % 238, nshards=238, maxrw=2, maxmut=1, axis="TRUE")]
    else:
        cfgs = [dict(n=2, rich="FALSE", shard=(seed + 8 * s) % 24, nshards=24, maxrw=2, maxmut=1, axis="FALSE") for s in range(3)]
        cfgs += [dict(n=2, rich="FALSE", shard=(seed + 12 * s + 1) % 24, nshards=24, maxrw=3, maxmut=0, axis="FALSE") for s in range(2)]
        cfgs += [dict(n=2, rich="FALSE", shard=(seed + 11) % 238, nshards=238, maxrw=3, maxmut=1, axis="FALSE")]
        cfgs += [dict(n=2, rich="FALSE", shard=(seed + 6 * s) % 12, nshards=12, maxrw=2, maxmut=0, axis="TRUE") for s in range(2)]
        cfgs += [dict(n=2, rich="FALSE", shard=(seed + 3) % 40, nshards=40, maxrw=2, maxmut=1, axis="TRUE")]
        cfgs += [dict(n=3, rich="FALSE", shard=(seed + 11) % 600, nshards=600, maxrw=2, maxmut=1, axis="FALSE")]
    workers = 2

    def one(k: int):
        c = cfgs[k]
        wd = ctx.workdir(f"mc_rewrites_{k}")
        return run_tlc("MC_Rewrites", MC_CFG.format(**c), wd, workers=workers, coverage=True, allow_violation=False,
                       timeout=6000, heap="3g")
    with ThreadPoolExecutor(max_workers=len(cfgs) if quick else 4) as ex:
        for c, r in zip(cfgs, ex.map(one, range(len(cfgs)))):
            ctx.add_tlc(r, f"MC_Rewrites N={c['n']} shard {c['shard']}/{c['nshards']} MaxRw={c['maxrw']} MaxMut={c['maxmut']} "
                           f"axis={c['axis']}")
    missing = [a for a in MC_ACTIONS if ctx.coverage_actions.get(a, 0) == 0]
    if missing:
        raise MachineryError(f"MC_Rewrites: actions never taken (vacuous model): {missing}")


def run(ctx: Ctx) -> None:
    quick = ctx.tier == "quick"
    ctx.rule = ("case = one history on a family of real pipeline objects: a random DAG (call style: 2-5 functions, tuple "
                "outputs, defaults, bound values; mapped: gen_map 1-3 functions) + a random sequence of rewrites (copy, pickle, "
                "join/|, update_renames, update_scope, scope removal, nest_funcs, simplified_pipeline, split_disconnected, "
                "add_mapspec_axis; <= 3 quick / <= 5 thorough) on random live objects + one in-place mutation anywhere, with "
                "ALL live objects evaluated on all retained outputs after every step (call: dotted keys / nested dicts; map "
                "for mapped objects); non-trivial = at least 2 rewrites applied and at least 2 objects evaluated")
    ctx.assumptions = ["TLC and the JSON/term encoding are trusted", "user functions are free term constructors",
                       "which functions nest_funcs/simplified_pipeline merged is not modelled (only values and retained "
                       "outputs); after a merge the model does not decide definedness of a further nest/simplify",
                       "resources/profiling attributes of rewritten functions are not compared",
                       "a legitimately refused in-place operation ends the observation of that object"]
    ctx.exhaustive = False
    model_check(ctx, quick)

    ncall, nmap = (110, 40) if quick else (1000, 300)
    maxlen = 3 if quick else 5
    jobs = [{"seed": ctx.seed * 1000003 + k, "mode": "call", "maxlen": maxlen, "maxfuncs": 4 if quick else 5}
            for k in range(ncall)]
    jobs += [{"seed": ctx.seed * 1000003 + 500000 + k, "mode": "map", "maxlen": maxlen, "maxfuncs": 3} for k in range(nmap)]
    traces = run_jobs(jobs, 4 if quick else 8)
    directed = directed_scripts()
    dtraces = [run_directed(c) for c in directed]
    shape: dict[str, Any] = {}
    for c, t in zip(directed, dtraces):
        groups = [e["_feats"].get("groups", 0) for e in t["ev"] if e["e"] == "rewrite" and e["kind"] == "simplified"]
        refused = [e["kind"] + ":" + e["exc"] for e in t["ev"] if e["e"] == "refuse"]
        shape[c["name"]] = {"nested_groups": groups, "refused": refused, "events": len(t["ev"])}
        if c["min_groups"] and not refused and (not groups or groups[0] < c["min_groups"]):
            raise MachineryError(f"directed case {c['name']} no longer has the intended shape: {shape[c['name']]}")
    ctx.extra["directed_cases"] = shape
    traces += dtraces
    kinds_seen: dict[str, int] = {}
    for t in traces:
        rw = [e for e in t["ev"] if e["e"] in ("rewrite", "mutate")]
        for e in t["ev"]:
            if e["e"] in ("rewrite", "refuse", "mutate"):
                k = f"{e['e']}:{e['kind']}"
                kinds_seen[k] = kinds_seen.get(k, 0) + 1
        nobj = len({e["id"] for e in t["ev"] if e["e"] == "eval"})
        ctx.case({"s": t["script"]}, nontrivial=len(rw) >= 2 and nobj >= 2)
    ctx.extra["events_by_kind"] = dict(sorted(kinds_seen.items()))
    ctx.extra["eval_events"] = sum(1 for t in traces for e in t["ev"] if e["e"] == "eval")
    s = traces[3]
    ctx.sample({"script": [{k: v for k, v in op.items() if k not in ("pdesc", "tdesc")} for op in s["script"]
                           if op["op"] != "eval_all"][:8],
                "events": [show(e) for e in s["ev"][:8]]})
    rej = validate(ctx, traces, "random")
    report(ctx, traces, rej)

    # binding self-test: (a) one atom of one returned value, (b) one root name of one observed structure
    good = [t for i, t in enumerate(traces) if i not in rej and any(e["e"] == "rewrite" and e["struct"] for e in t["ev"])][:8]
    if len(good) < 3:
        good = [t for i, t in enumerate(traces) if i not in rej][:8]
    if len(good) >= 3:
        bad = copy.deepcopy(good)
        vi = len(bad) // 2

        def corrupt(v):
            if v["a"]:
                return corrupt(v["a"][-1])
            v["f"] += "_x"
        k1 = max(i for i, e in enumerate(bad[vi]["ev"]) if e["e"] == "eval" and not e["exc"])
        tgt = bad[vi]["ev"][k1]
        corrupt(tgt["val"] if tgt["mode"] == "call" else tgt["vals"][0][1])
        r1 = validate(ctx, bad, "st1", count=False)
        ctx.selftest("trace-corruption(one atom of one evaluated value)", r1 == {vi: k1 + 1}, f"rej={r1} expected={{{vi}: {k1 + 1}}}")
        bad = copy.deepcopy(good)
        cands = [(ti, i) for ti, t in enumerate(bad) for i, e in enumerate(t["ev"]) if e["e"] == "rewrite" and e["struct"]]
        if cands:
            ti, k2 = cands[len(cands) // 2]
            bad[ti]["ev"][k2]["struct"][0]["roots"] = bad[ti]["ev"][k2]["struct"][0]["roots"] + ["zz_not_a_root"]
            r2 = validate(ctx, bad, "st2", count=False)
            ctx.selftest("trace-corruption(one extra root argument in one observed structure)", r2 == {ti: k2 + 1},
                         f"rej={r2} expected={{{ti}: {k2 + 1}}}")
    else:
        raise MachineryError("binding self-test impossible: fewer than 3 accepted histories")


def show(e: dict) -> dict:
    """An event without its blank fields (for people)."""
    d = {k: v for k, v in e.items() if v != BLANK_EV.get(k) and k not in ("desc", "_feats", "args", "_msg")}
    a = {k: v for k, v in e["args"].items() if v != BLANK_ARGS.get(k)}
    if a:
        d["args"] = a
    if e["e"] == "new":
        d["funcs"] = [f"{f['name']}({', '.join(f['params'])}) -> {', '.join(f['outputs'])}"
                      + (f" defaults={[p for p, _ in f['defaults']]}" if f["defaults"] else "")
                      + (f" bound={[p for p, _ in f['bound']]}" if f["bound"] else "")
                      + (f" mapspec={pmap.ms_string(f['ms'])}" if f["has_ms"] else "") for f in e["desc"]["funcs"]]
    return d


def replay(rep: dict) -> int:
    w = rep["witness"]
    tr = run_script(w["script"])
    for e in tr["ev"]:
        if e["e"] not in ("eval", "probe"):
            print(show(e))
    ctx = Ctx(PROPERTY, "quick", 0)
    ctx.findings = []
    rej = validate(ctx, [tr], "replay", count=False)
    for i, reached in rej.items():
        sig, what = classify(tr, reached)
        print("REJECTED at event", reached, show(tr["ev"][reached - 1]))
        print("  what:", what)
        print("  sig :", json.dumps(sig))
    ctx.cleanup()
    print("replay:", "VIOLATION reproduced" if rej else "history accepted")
    return 1 if rej else 0
