"""C17 - sweeps enumerate exactly the documented combinations (spec/Sweep.tla, spec/MC_Sweep.tla).

Mechanism A (universe export):
1. TLC evaluates MC_Sweep over a universe of cases written in TLA+ (sharded over processes), checks the
   laws of Sweep.tla as invariants on every case and prints, per case, the combination lists / lengths /
   counts the specification requires.
2. Every exported case is realised on pipefunc.sweep (Sweep, MultiSweep, generate_sweep, Sweep.product, +,
   combine, filtered_sweep, count_sweep) and the observed result is compared with the exported one:
   as a list where the property fixes the order, as a multiset otherwise.
3. Sums are also exercised as EXPRESSIONS and as HISTORIES: every multi case is evaluated through every sum
   expression TLC exports (`SHAPES`: all nestings / spellings of +, combine, MultiSweep over the operands, e.g.
   s1 + (s2 + s3), MultiSweep(s1, s2.combine(s3))), and in mode "hist" TLC explores histories of sums formed step
   by step over operands AND earlier results (NextHist); each reachable state is replayed on real objects that are
   kept alive, and after every step every object must still enumerate what the store of the state says.
4. Mode "phist" does the same for histories whose steps are x.product(y[, z]), x.add_derivers(..) and x + y over
   operands that carry constants / derivers (NextPHist, LawObjHistory): an operand of a product, the sweep derivers
   were added to and every earlier result are re-observed afterwards.  Every single case with derivers is also built
   as Sweep(items, dims, exclude, constants).add_derivers(**derivers) and compared with the exported `added`.
Python only builds the real objects, interprets the named deriver/exclude family and compares values.
"""
from __future__ import annotations

import copy
import dataclasses
import functools
import hashlib
import json
import multiprocessing as mp
import operator
import os
import time
from collections import Counter
from concurrent.futures import ProcessPoolExecutor, as_completed
from pathlib import Path
from typing import Any

from ..ctx import Ctx
from ..tlc import MachineryError, run_tlc
from ..tracekit import parse_prints

PROPERTY = "C17"
LEVEL = "model_checking"

NO_DIMS = [["#none"]]
INVS = {
    "single": "InvWellFormed InvExactlyOnce InvRowMajor InvFinish InvOrderFree InvLen InvAddDerivers Emit",
    "multi": "InvWellFormed InvProduct InvConcat InvSums InvFilterSum InvLen Emit",
    "filter": "InvWellFormed InvFiltered InvLen Emit",
    "count": "InvWellFormed InvCount Emit",
    "hist": "InvWellFormed InvHistory Emit",
    "phist": "InvWellFormed InvObjHistory InvLen Emit",
}
CFG = """SPECIFICATION {spec}
CONSTANTS Mode = "{mode}" MinKeys = {minkeys} MaxKeys = {maxkeys} MaxLen = {maxlen} MaxEmpty = {maxempty}
          NVals = {nvals} Lists = "{lists}" Opts = "{opts}" NOps = {nops} Shard = {shard} NShards = {nshards}
          MaxSteps = {maxsteps} ShapeSet = "{shapes}"
INVARIANT {invs}
"""


@dataclasses.dataclass(frozen=True)
class Slice:
    """One sub-universe of MC_Sweep (a value of its CONSTANTS), split into `nshards` TLC processes."""
    name: str
    mode: str
    minkeys: int
    maxkeys: int
    maxlen: int = 2
    maxempty: int = 4
    nvals: int = 2
    lists: str = "canon"
    opts: str = "some"
    nops: int = 2
    nshards: int = 4
    pandas: bool = False
    maxsteps: int = 0  # hist: length of the histories
    shapes: str = "uniform"  # multi: the sum expressions every case is evaluated through ("all" / "uniform")

    def cfg(self, shard: int, spec: str = "Spec") -> str:
        d = dataclasses.asdict(self)
        return CFG.format(spec=spec, shard=shard, invs=INVS[self.mode], **d)


QUICK = [
    Slice("single3", "single", 0, 3, opts="some", nshards=3),
    Slice("pairs3", "multi", 0, 3, opts="two", nops=2, nshards=4, shapes="all"),
    Slice("triples3", "multi", 0, 3, opts="two", nops=3, nshards=5),
    Slice("filter3", "filter", 0, 3, opts="ders2", maxempty=1, nshards=3),
    Slice("count3", "count", 0, 3, opts="two", maxempty=1, nshards=1),
    Slice("hist3", "hist", 0, 3, maxempty=0, nops=3, nshards=4, maxsteps=3),
    Slice("phist3", "phist", 0, 3, nops=3, nshards=4, maxsteps=3),
]
THOROUGH = [
    Slice("single4", "single", 4, 4, opts="few", nshards=32),
    Slice("single3-len3", "single", 0, 3, maxlen=3, nvals=3, opts="few", nshards=32),
    Slice("single2-all-full", "single", 0, 2, lists="all", opts="full", nshards=4),
    Slice("single3-all", "single", 3, 3, lists="all", opts="some", nshards=24),
    Slice("pairs3-few", "multi", 0, 3, opts="few", nops=2, nshards=16),
    Slice("pairs4", "multi", 4, 4, opts="two", nops=2, nshards=40),
    Slice("pairs3-len3", "multi", 0, 3, maxlen=3, nvals=3, opts="two", nops=2, nshards=32),
    Slice("triples4", "multi", 4, 4, maxempty=0, opts="two", nops=3, nshards=48),
    Slice("filter3-len3", "filter", 0, 3, maxlen=3, nvals=3, opts="ders2", maxempty=1, nshards=32),
    Slice("filter4", "filter", 4, 4, opts="none", maxempty=0, nshards=16),
    Slice("count3-len3", "count", 0, 3, maxlen=3, nvals=3, opts="two", maxempty=1, nshards=24),
    Slice("count4", "count", 4, 4, opts="two", maxempty=0, nshards=8),
    Slice("count3-pandas", "count", 0, 3, opts="none", maxempty=1, nshards=6, pandas=True),
    Slice("triples3-allshapes", "multi", 3, 3, opts="none", nops=3, nshards=2, shapes="all"),
    Slice("hist3-empties", "hist", 0, 3, maxempty=1, nops=3, nshards=8, maxsteps=3),
    Slice("phist4-zipped", "phist", 4, 4, nops=3, nshards=8, maxsteps=3),
]
JVM_ENV = {"JAVA_TOOL_OPTIONS": "-XX:ParallelGCThreads=2 -XX:CICompilerCount=2"}  # 16 JVMs side by side


# ------------------------------------------------------------------------------------------------
# real-code driver: build the objects a case describes
def _deriver(d: dict):
    """The deriver family of Sweep.tla (Derive): copy(k) = c[k]; pair(k1, k2) = 10*c[k1] + c[k2]."""
    if d["f"] == "copy":
        (k,) = d["a"]
        return lambda c: c[k]
    if d["f"] == "pair":
        k1, k2 = d["a"]
        return lambda c: 10 * c[k1] + c[k2]
    raise MachineryError(f"unknown deriver {d}")


def _exclude(excl: list[dict]):
    """The exclude family of Sweep.tla (Excluded): drop c when c[k] == v for some listed [k, v]."""
    if not excl:
        return None
    pairs = [(e["k"], e["v"]) for e in excl]
    return lambda c: any(c[k] == v for k, v in pairs)


def sweep_args(s: dict) -> dict:
    items = {it["k"]: list(it["v"]) for it in s["items"]}
    if s["dims"] == NO_DIMS:
        dims = None
    else:
        dims = [g[0] if (len(g) == 1 and s["sstr"]) else tuple(g) for g in s["dims"]]
    return {
        "items": items,
        "dims": dims,
        "exclude": _exclude(s["excl"]),
        "constants": {c["k"]: c["v"] for c in s["consts"]} if s["consts"] else None,
        "derivers": {d["k"]: _deriver(d) for d in s["ders"]} if s["ders"] else None,
    }


def build_sweep(s: dict):
    from pipefunc.sweep import Sweep
    return Sweep(**sweep_args(s))


_PIPELINES: dict[str, Any] = {}


def build_pipeline(pl: dict):
    key = json.dumps(pl, sort_keys=True)
    if key not in _PIPELINES:
        import contextlib
        import io

        from pipefunc import PipeFunc, Pipeline
        funcs = []
        for f in pl["funcs"]:
            ns: dict = {}
            exec(f"def fn_{f['out']}({', '.join(f['params'])}):\n    return 0\n", ns)  # noqa: S102
            funcs.append(PipeFunc(ns[f"fn_{f['out']}"], output_name=f["out"]))
        with contextlib.redirect_stdout(io.StringIO()):
            _PIPELINES[key] = Pipeline(funcs)
    return _PIPELINES[key]


# ------------------------------------------------------------------------------------------------
# comparison
def _canon(c: Any):
    if c == [] or c == {}:  # ToJson prints a function with an empty domain as []
        return ()
    if not isinstance(c, dict):
        return ("#not-a-dict", repr(c))
    return tuple(sorted(c.items()))


def compare(obs: Any, exp: list, ordered: bool) -> str | None:
    """None when the observed list of combinations is the expected one, else how it differs."""
    if not isinstance(obs, list):
        return "not-a-list"
    o = [_canon(c) for c in obs]
    e = [_canon(c) for c in exp]
    if o == e:
        return None
    if Counter(o) == Counter(e):
        return "order" if ordered else None
    if len(o) > len(e):
        return "longer"
    if len(o) < len(e):
        return "shorter"
    return "same_len"


def _call(fn):
    try:
        return fn(), ""
    except Exception as ex:  # noqa: BLE001  a raise is an observation
        return None, type(ex).__name__


def _dims_class(s: dict) -> str:
    if s["dims"] == NO_DIMS:
        return "none"
    if all(len(g) == 1 for g in s["dims"]):
        return "singletons_str" if s["sstr"] else "singletons_tuple"
    return "zipped"


def _feat(s: dict) -> dict:
    return {"items_empty": not s["items"], "dims": _dims_class(s), "consts": bool(s["consts"]), "ders": bool(s["ders"]),
            "excl": bool(s["excl"])}


def _list_check(out: list, sig0: dict, api: str, fn, exp: list, ordered: bool, err: str = "") -> None:
    obs, exc = _call(fn)
    if err:
        if exc != err:
            out.append((dict(sig0, api=api, exc=exc or "no-raise", delta="n/a"),
                        f"{api}: expected {err}, observed {exc or repr(obs)[:200]}", obs if not exc else exc))
        return
    if exc:
        out.append((dict(sig0, api=api, exc=exc, delta="n/a"), f"{api} raised {exc}, expected {exp!r:.300}", exc))
        return
    d = compare(obs, exp, ordered)
    if d:
        out.append((dict(sig0, api=api, exc="mismatch", delta=d),
                    f"{api} returned {obs!r:.400}, required ({'list' if ordered else 'multiset'}) {exp!r:.400}", obs))


def _len_check(out: list, sig0: dict, api: str, fn, exp: int) -> None:
    obs, exc = _call(fn)
    if exc or obs != exp:
        out.append((dict(sig0, api=api, exc=exc or "mismatch", delta="n/a"),
                    f"{api} = {exc or obs}, required {exp}", exc or obs))


def check_single(c: dict, o: dict) -> list:
    from pipefunc.sweep import generate_sweep
    s = c["s"]
    res: list = []
    sig = dict(_feat(s), check="combos", ordered=o["ordered"], expect_err=bool(o["err"]))
    _list_check(res, sig, "Sweep.list", lambda: build_sweep(s).list(), o["combos"], o["ordered"], o["err"])
    _list_check(res, sig, "Sweep.__iter__", lambda: list(iter(build_sweep(s))), o["combos"], o["ordered"], o["err"])
    a = sweep_args(s)
    _list_check(res, sig, "generate_sweep",
                lambda: generate_sweep(a["items"], a["dims"], a["exclude"], a["constants"], a["derivers"]),
                o["combos"], o["ordered"], o["err"])
    if not o["err"]:  # len of a sweep whose enumeration raises: no claim
        _len_check(res, dict(sig, check="len", itemless=not s["items"]), "len", lambda: len(build_sweep(s)), o["len"])
    if s["ders"] and not o["err"]:  # the same sweep made by add_derivers from the sweep without derivers (out.added)
        def added():
            return build_sweep(dict(s, ders=[])).add_derivers(**a["derivers"])

        dsig = dict(sig, check="add_derivers")
        _list_check(res, dsig, "add_derivers.list", lambda: added().list(), o["added"], o["ordered"])
        _list_check(res, dsig, "iter(add_derivers)", lambda: list(iter(added())), o["added"], o["ordered"])
        _len_check(res, dict(dsig, check="add_derivers_len"), "len(add_derivers)", lambda: len(added()), len(o["added"]))
    return res


def _has_zip(s: dict) -> bool:
    return s["dims"] != NO_DIMS and any(len(g) > 1 for g in s["dims"])


def _has_opts(s: dict) -> bool:
    return bool(s["consts"] or s["ders"] or s["excl"])


def check_multi(c: dict, o: dict) -> list:
    from pipefunc.sweep import MultiSweep
    ss = c["ss"]
    res: list = []
    n = len(ss)
    sig = {"nops": n, "ordered": o["ordered"], "first_dims_none": ss[0]["dims"] == NO_DIMS,
           "later_zip": any(_has_zip(s) for s in ss[1:]), "inner_opts": any(_has_opts(s) for s in ss[1:-1]),
           "any_opts": any(_has_opts(s) for s in ss), "empty_items_operand": any(not s["items"] for s in ss)}

    def mk():
        return [build_sweep(s) for s in ss]

    if not o["pdc"]:  # product with a Sweep({}) operand: don't-care (DESIGN.md Appendix A)
        psig = dict(sig, check="product")

        def prod():
            w = mk()
            return w[0].product(*w[1:])

        def chain():
            w = mk()
            return functools.reduce(lambda a, b: a.product(b), w)

        apis = [("product", prod)] + ([("product-chained", chain)] if n > 2 else [])
        for api, f in apis:
            _list_check(res, psig, api, lambda f=f: f().list(), o["product"], o["ordered"])
            _len_check(res, dict(psig, check="product_len"), f"len({api})", lambda f=f: len(f()), len(o["product"]))
    csig = dict(sig, check="concat")
    for api, f in (("+", lambda: functools.reduce(operator.add, mk())),
                   ("MultiSweep", lambda: MultiSweep(*mk())),
                   ("combine", lambda: functools.reduce(lambda a, b: a.combine(b), mk()))):
        _list_check(res, csig, api, lambda f=f: f().list(), o["concat"], o["ordered"])
        _len_check(res, dict(csig, check="concat_len", itemless=sig["empty_items_operand"]), f"len({api})",
                   lambda f=f: len(f()), o["clen"])
    # every sum expression over the operands (exported by TLC, InvSums): it enumerates the concatenation
    if n not in SHAPES:
        raise MachineryError(f"no sum expressions exported for {n} operands")
    for e in SHAPES[n]:
        esig = dict(check="sum_expr", nops=n, ordered=o["ordered"], **_expr_feat(e))  # a sum never looks inside an operand
        first = len(res)
        obj, exc = _call(lambda e=e: _eval_expr(e, mk()))  # one object, observed three times
        if exc:
            res.append((dict(esig, api="sum-expression", exc=exc, delta="n/a"), f"building it raised {exc}", exc))
        else:
            _list_check(res, esig, "sum-expression", obj.list, o["concat"], o["ordered"])
            _list_check(res, esig, "iter(sum-expression)", lambda: list(iter(obj)), o["concat"], o["ordered"])
            _len_check(res, dict(esig, check="sum_expr_len", itemless=sig["empty_items_operand"]), "len(sum-expression)",
                       lambda: len(obj), o["clen"])
            # filtered by the keys of ONE leaf (Sweep.tla L7b): every distinct projection of that leaf is yielded
            for li, need in enumerate(o.get("fneed", [])):
                if not need["keys"]:
                    continue
                got, exc2 = _call(lambda need=need: obj.filtered_sweep(tuple(need["keys"])).list())
                fsig = dict(esig, check="sum_expr_filtered", leaf=li + 1)
                if exc2:      # not stated: another leaf (e.g. one with derivers) may refuse keys it does not have
                    continue
                have = Counter(_canon(c) for c in got) if isinstance(got, list) else Counter()
                missing = [c for c in need["proj"] if _canon(c) not in have]
                if missing:
                    res.append((dict(fsig, api="filtered_sweep(sum)", exc="mismatch", delta="missing"),
                                f"filtered_sweep({need['keys']}) of the sum returned {got!r:.300}; the projections "
                                f"{missing!r:.200} of leaf {li + 1} are missing", got))
        if len(res) > first:
            txt = _expr_text(e)
            res[first:] = [(sg, f"{txt}: {what}", obs) for sg, what, obs in res[first:]]
    return res


# ------------------------------------------------------------------------------------------------
# sum expressions (Sweep.tla: Leaf / Node, EvalSum) on real objects
SHAPES: dict[int, list] = {}  # number of operands -> the expressions TLC exported ("SHAPES" line of a multi run)


def _eval_expr(e: dict, objs: list):
    from pipefunc.sweep import MultiSweep
    if e["op"] == "leaf":
        return objs[e["i"] - 1]
    ch = [_eval_expr(c, objs) for c in e["ch"]]
    if e["op"] == "+":
        return ch[0] + ch[1]
    if e["op"] == "combine":
        return ch[0].combine(ch[1])
    if e["op"] == "MultiSweep":
        return MultiSweep(*ch)
    raise MachineryError(f"unknown node {e['op']}")


def _expr_text(e: dict) -> str:
    if e["op"] == "leaf":
        return f"s{e['i']}"
    ch = [_expr_text(c) for c in e["ch"]]
    if e["op"] == "+":
        return f"({ch[0]} + {ch[1]})"
    if e["op"] == "combine":
        return f"{ch[0]}.combine({ch[1]})"
    return f"MultiSweep({', '.join(ch)})"


def _nodes(e: dict):
    yield e
    for c in e["ch"]:
        yield from _nodes(c)


def _expr_feat(e: dict) -> dict:
    """How the expression is nested: which kinds of operand a binary +/combine node gets."""
    binary = [x for x in _nodes(e) if x["op"] in ("+", "combine")]
    return {"root": e["op"],
            "plain_left_sum_right": any(x["ch"][0]["op"] == "leaf" and x["ch"][1]["op"] != "leaf" for x in binary),
            "sum_left": any(x["ch"][0]["op"] != "leaf" for x in binary)}


def _add_shapes(shapes: list) -> None:
    for e in shapes:
        n = sum(1 for x in _nodes(e) if x["op"] == "leaf")
        if e not in SHAPES.setdefault(n, []):
            SHAPES[n].append(e)


def _register_shapes(prints: list[str]) -> None:
    for ln in prints:
        if ln.startswith('<<"SHAPES", '):
            _add_shapes(parse_prints([ln])[0][1])


# ------------------------------------------------------------------------------------------------
# histories (Sweep.tla: StoreInit / StepStore, MC_Sweep.tla: NextHist) on real objects that stay alive
def _kind(i: int, n: int, ops: list | None = None) -> str:
    """What object i is: an operand ("plain") or the result of a step ("sum" for +, combine and MultiSweep)."""
    if i <= n:
        return "plain"
    f = ops[i - n - 1]["f"] if ops else "sum"
    return {"product": "product", "derive": "derived"}.get(f, "sum")


def _apply(op: dict, objs: list, sp: str):
    from pipefunc.sweep import MultiSweep
    args = [objs[i - 1] for i in op["a"]]
    if op["f"] == "sum":
        return args[0] + args[1] if sp == "+" else args[0].combine(args[1])
    if op["f"] == "product":  # Sweep.tla: PStep
        return args[0].product(*args[1:])
    if op["f"] == "derive":
        return args[0].add_derivers(**{d["k"]: _deriver(d) for d in op["d"]})
    if op["f"] != "multi":
        raise MachineryError(f"unknown step {op}")
    return MultiSweep(*args)


def _observe(ob, e: dict, sig: dict, ordered: bool) -> list:
    res: list = []
    _list_check(res, sig, "list", ob.list, e["combos"], ordered)
    _list_check(res, sig, "iter", lambda: list(iter(ob)), e["combos"], ordered)
    _len_check(res, sig, "len", lambda: len(ob), e["len"])
    return res


def check_hist(c: dict, o: dict) -> list:
    """Replay the history on objects that stay alive; afterwards EVERY object must enumerate what the store says.
    (Every prefix of the history is a case of its own, so the states in between are observed there.)  When something
    differs the history is replayed again step by step, observing after every step, to name the first step that shows a
    difference and the role of the differing object in it (result, left/right argument, other)."""
    ss, sp, ops, exp, ordered = c["ss"], c["sp"], c["ops"], o["objs"], o["ordered"]
    n = len(ss)
    sig0 = {"check": "history" if c["kind"] == "hist" else "obj_history", "spelling": sp, "ordered": ordered}

    def run_all():
        objs = [build_sweep(s) for s in ss]
        for op in ops:
            objs.append(_apply(op, objs, sp))
        return objs

    objs, exc = _call(run_all)
    if not exc and not any(_observe(ob, e, sig0, ordered) for ob, e in zip(objs, exp)):
        return []
    objs = [build_sweep(s) for s in ss]
    for k in range(len(ops) + 1):
        sig = dict(sig0, step="init", left="n/a", right="n/a", same_arg_twice=False, arg_sum=False)
        roles: dict[int, str] = {}
        if k:
            op = ops[k - 1]
            a = op["a"]
            sig.update(step=op["f"], same_arg_twice=len(set(a)) < len(a), arg_sum=any(i > n for i in a))
            if op["f"] == "sum":
                sig.update(left=_kind(a[0], n, ops), right=_kind(a[1], n, ops))
                roles = {a[1]: "right", a[0]: "left"}
            elif op["f"] == "product":  # a[0] is the receiver: a[0].product(a[1], ..)
                sws = [exp[i - 1]["sw"] for i in a]
                sig.update(left=_kind(a[0], n, ops), right=_kind(a[1], n, ops), nargs=len(a),
                           several_consts=sum(bool(w["consts"]) for w in sws) >= 2,
                           several_ders=sum(bool(w["ders"]) for w in sws) >= 2)
                roles = {i: "argument" for i in a[2:]}
                roles.update({a[1]: "right", a[0]: "left"})
            elif op["f"] == "derive":
                w = exp[a[0] - 1]["sw"]
                sig.update(left=_kind(a[0], n, ops), receiver_consts=bool(w["consts"]), receiver_excl=bool(w["excl"]),
                           receiver_dims=_dims_class(dict(w, sstr=False)),
                           reads_const=any(x in {c_["k"] for c_ in w["consts"]} for d in op["d"] for x in d["a"]))
                roles = {a[0]: "left"}
            else:
                roles = {i: "argument" for i in a}
            r, exc = _call(lambda: _apply(op, objs, sp))
            hist = "; ".join(_step_text(ops[i], n + i + 1, sp) for i in range(k))
            if exc:
                return [(dict(sig, target="result", api="step", exc=exc, delta="n/a"), f"[{hist}]: the last step raised {exc}", exc)]
            objs.append(r)
            roles[len(objs)] = "result"
        rank = {"result": 0, "left": 1, "right": 2, "argument": 3}
        for j in sorted(range(1, len(objs) + 1), key=lambda j: (rank.get(roles.get(j), 4), j)):
            target = roles.get(j, "other")
            res = _observe(objs[j - 1], exp[j - 1], dict(sig, target=target), ordered)
            if res:
                sg, what, obs = res[0]
                hist = "; ".join(_step_text(ops[i], n + i + 1, sp) for i in range(k))
                return [(sg, f"after [{hist or 'no step'}] object o{j} ({target} of step {k}): {what}", obs)]
    return [(dict(sig0, step="n/a", target="n/a", api="replay", exc="not-reproducible", delta="n/a"),
             "a difference seen after the whole history did not show when replaying it step by step", exc or "")]


def _step_text(op: dict, new: int, sp: str) -> str:
    a = op["a"]
    if op["f"] == "product":
        return f"o{new} = o{a[0]}.product({', '.join(f'o{i}' for i in a[1:])})"
    if op["f"] == "derive":
        ders = ", ".join(f"{d['k']}={d['f']}({', '.join(d['a'])})" for d in op["d"])
        return f"o{new} = o{a[0]}.add_derivers({ders})"
    if op["f"] == "sum":
        return f"o{new} = o{a[0]} + o{a[1]}" if sp == "+" else f"o{new} = o{a[0]}.combine(o{a[1]})"
    return f"o{new} = MultiSweep({', '.join(f'o{i}' for i in a)})"


def check_filter(c: dict, o: dict) -> list:
    s = c["s"]
    keys = tuple(c["keys"])
    res: list = []
    sig = dict(check="filtered", ders=bool(s["ders"]),
               dup_values_kept=any(len(set(it["v"])) < len(it["v"]) and it["k"] in keys for it in s["items"]),
               sweep_empty=any(not it["v"] for it in s["items"]),
               dropped_empty=any(not it["v"] and it["k"] not in keys for it in s["items"]))
    _list_check(res, sig, "filtered_sweep.list", lambda: build_sweep(s).filtered_sweep(keys).list(), o["filtered"], False)
    # with derivers and no combination at all the filtered sweep is built without any item
    _len_check(res, dict(sig, check="filtered_len", itemless=bool(s["ders"]) and sig["sweep_empty"]), "len(filtered_sweep)",
               lambda: len(build_sweep(s).filtered_sweep(keys)), len(o["filtered"]))
    return res


def check_count(c: dict, o: dict, pandas: bool = False) -> list:
    from pipefunc.sweep import count_sweep
    s, pl = c["s"], c["pl"]
    exp = {d["name"]: {tuple(r["key"]): r["n"] for r in d["tab"]} for d in o["counts"]}
    res: list = []
    sig0 = {"check": "count", "single_arg_dep": any(len(d["args"]) == 1 for d in o["deps"]),
            "no_combos": all(not d["tab"] for d in o["counts"]), "no_deps": not o["deps"]}
    p = build_pipeline(pl)
    for use_pandas in ((False, True) if pandas else (False,)):
        for api, arg in (("count_sweep(Sweep)", lambda: build_sweep(s)), ("count_sweep(list)", lambda: build_sweep(s).list())):
            if use_pandas and api != "count_sweep(Sweep)":  # pandas is slow: one call per case
                continue
            obs, exc = _call(lambda arg=arg: count_sweep(pl["target"], arg(), p, use_pandas=use_pandas))
            if exc or obs != exp:
                res.append((dict(sig0, api=api, use_pandas=use_pandas, exc=exc or "mismatch"),
                            f"{api} use_pandas={use_pandas}: {exc or obs!r:.300}, required {exp!r:.300}", exc or repr(obs)))
    return res


def check_case(rec: dict, pandas: bool = False) -> list:
    """[(signature, what, observed)] for every API result that differs from the exported expectation."""
    c, o = rec["c"], rec["out"]
    kind = c["kind"]
    if kind == "single":
        return check_single(c, o)
    if kind == "multi":
        return check_multi(c, o)
    if kind == "filter":
        return check_filter(c, o)
    if kind == "count":
        return check_count(c, o, pandas)
    if kind in ("hist", "phist"):
        return check_hist(c, o)
    raise MachineryError(f"unknown case kind {kind}")


def nontrivial(rec: dict) -> bool:
    o, kind = rec["out"], rec["c"]["kind"]
    if kind == "single":
        return len(o["combos"]) >= 2
    if kind == "multi":
        return len(o["product"]) >= 2
    if kind == "filter":
        return len(o["filtered"]) >= 2
    if kind in ("hist", "phist"):  # at least one step, and its result enumerates something
        return bool(rec["c"]["ops"]) and len(o["objs"][-1]["combos"]) >= 2
    return any(sum(r["n"] for r in d["tab"]) >= 2 for d in o["counts"])


# ------------------------------------------------------------------------------------------------
# one shard = one TLC process + replay of its cases (runs in a worker process)
MAX_WITNESS_PER_SIG = 8


def _shard(args) -> dict:
    sl, shard, wd, keep = args
    r = run_tlc("MC_Sweep", sl.cfg(shard), Path(wd), workers=1, heap="1500m", allow_violation=False, timeout=3000,
                env=JVM_ENV)
    t0 = time.time()
    _register_shapes(r.prints)
    n = 0
    cases: list[tuple[str, bool]] = []
    viol: list = []
    counts: Counter = Counter()
    kept: list = []
    n_nt = n_tr = 0
    for ln in r.prints:
        if not ln.startswith('<<"CASE", '):
            continue
        rec = parse_prints([ln])[0][1]
        n += 1
        nt = nontrivial(rec)
        cases.append((hashlib.sha1(ln.encode()).hexdigest()[:16], nt))
        # a spread-out sample for the binding self-test and the evidence: mostly non-trivial cases, a few trivial ones
        if keep and ((nt and n_nt % 7 == 0 and len(kept) < keep) or (not nt and n_tr < 10)):
            kept.append(rec)
        n_nt += nt
        n_tr += not nt
        for sig, what, obs in check_case(rec, sl.pandas):
            k = json.dumps(sig, sort_keys=True)
            counts[k] += 1
            if counts[k] <= MAX_WITNESS_PER_SIG:
                viol.append((sig, what, {"rec": rec, "observed": obs, "pandas": sl.pandas}))
    if n != r.distinct:
        raise MachineryError(f"{sl.name} shard {shard}: TLC found {r.distinct} cases but exported {n}")
    r.stdout = ""
    r.prints = []
    return {"slice": sl.name, "shard": shard, "tlc": r, "n": n, "cases": cases, "viol": viol, "counts": dict(counts),
            "kept": kept, "py_s": time.time() - t0, "shapes": SHAPES.get(sl.nops, []) if sl.mode == "multi" else []}


# ------------------------------------------------------------------------------------------------
# binding self-test: corrupt ONE expected value of ONE exported case; the comparator must reject exactly it
def _mismatch_set(recs: list[dict]) -> set[int]:
    return {i for i, r in enumerate(recs) if check_case(r)}


def _corrupt(rec: dict) -> str | None:
    """Alter one expected value in place; returns a description, or None when rec has nothing to alter."""
    o, kind = rec["out"], rec["c"]["kind"]
    if kind == "single" and o["combos"]:
        c = o["combos"][-1]
        k = sorted(c)[0]
        c[k] += 1
        return f"single: combos[-1][{k!r}] + 1"
    if kind == "multi" and len(o["product"]) >= 1:
        o["product"].pop()
        return "multi: last combination of the product dropped"
    if kind == "filter" and o["filtered"]:
        c = o["filtered"][0]
        k = sorted(c)[0]
        c[k] += 1
        return f"filter: filtered[0][{k!r}] + 1"
    if kind == "count" and any(d["tab"] for d in o["counts"]):
        d = next(d for d in o["counts"] if d["tab"])
        d["tab"][0]["n"] += 1
        return "count: one count + 1"
    if kind in ("hist", "phist") and rec["c"]["ops"] and o["objs"][-1]["combos"]:
        o["objs"][-1]["combos"].pop()
        return f"{kind}: last combination of the newest object dropped"
    return None


def selftest_binding(ctx: Ctx, kept: dict[str, list[dict]]) -> None:
    for mode, recs in sorted(kept.items()):
        recs = recs[:90]
        base = _mismatch_set(recs)
        done = False
        for victim in range(len(recs) // 2, len(recs)):
            if victim in base:
                continue
            mut = copy.deepcopy(recs)
            what = _corrupt(mut[victim])
            if what is None:
                continue
            got = _mismatch_set(mut)
            ctx.selftest(f"expected-value corruption ({what})", got == base | {victim},
                         f"case {victim} of {len(recs)}: rejected={sorted(got)} expected={sorted(base | {victim})}")
            done = True
            break
        if not done:  # fatal on a tree without violations; inconclusive when the tree already breaks these cases
            ctx.selftest(f"expected-value corruption ({mode})", False,
                         f"no {mode} case among {len(recs)} that is accepted as exported and can be corrupted")
    # a second field of the single cases: the expected length
    recs = kept.get("single", [])[:90]
    base = _mismatch_set(recs)
    for victim, r in enumerate(recs):
        if victim not in base and not r["out"]["err"]:
            mut = copy.deepcopy(recs)
            mut[victim]["out"]["len"] += 1
            got = _mismatch_set(mut)
            ctx.selftest("expected-value corruption (single: len + 1)", got == base | {victim},
                         f"case {victim}: rejected={sorted(got)} expected={sorted(base | {victim})}")
            break
    # add_derivers: the list required of the add_derivers spelling of a single case
    for victim, r in enumerate(recs):
        if victim not in base and r["out"]["added"]:
            mut = copy.deepcopy(recs)
            c = mut[victim]["out"]["added"][0]
            c[sorted(c)[-1]] += 1
            got = _mismatch_set(mut)
            ctx.selftest("expected-value corruption (single: added[0], one value + 1)", got == base | {victim},
                         f"case {victim}: rejected={sorted(got)} expected={sorted(base | {victim})}")
            break
    # sums: the expected concatenation of a multi case; the expected list of an EARLIER object of a history
    recs = kept.get("multi", [])[:90]
    base = _mismatch_set(recs)
    for victim, r in enumerate(recs):
        if victim not in base and len(r["out"]["concat"]) >= 2 and r["out"]["ordered"]:
            mut = copy.deepcopy(recs)
            mut[victim]["out"]["concat"].reverse()
            got = _mismatch_set(mut)
            ctx.selftest("expected-value corruption (multi: concat reversed)", got == base | {victim},
                         f"case {victim}: rejected={sorted(got)} expected={sorted(base | {victim})}")
            break
    recs = kept.get("hist", [])[:90]
    base = _mismatch_set(recs)
    for victim, r in enumerate(recs):
        if victim not in base and len(r["c"]["ops"]) >= 2 and r["out"]["objs"][3]["combos"]:
            mut = copy.deepcopy(recs)
            mut[victim]["out"]["objs"][3]["len"] += 1
            got = _mismatch_set(mut)
            ctx.selftest("expected-value corruption (hist: len of the first result + 1)", got == base | {victim},
                         f"case {victim}: rejected={sorted(got)} expected={sorted(base | {victim})}")
            break
    # products / add_derivers over time: the expected list of an OPERAND after it was used in a product
    recs = kept.get("phist", [])[:90]
    base = _mismatch_set(recs)
    for victim, r in enumerate(recs):
        ops = r["c"]["ops"]
        if victim not in base and ops and ops[0]["f"] == "product" and r["out"]["objs"][ops[0]["a"][0] - 1]["combos"]:
            mut = copy.deepcopy(recs)
            ob = mut[victim]["out"]["objs"][ops[0]["a"][0] - 1]
            ob["combos"][0] = dict(ob["combos"][0], x9=7)  # as if the operand had picked up a foreign constant
            got = _mismatch_set(mut)
            ctx.selftest("expected-value corruption (phist: a constant added to the receiver of the first product)",
                         got == base | {victim}, f"case {victim}: rejected={sorted(got)} expected={sorted(base | {victim})}")
            break


# ------------------------------------------------------------------------------------------------
def run(ctx: Ctx) -> None:
    quick = ctx.tier == "quick"
    slices = QUICK if quick else QUICK + THOROUGH
    ctx.rule = ("case = one exported state of MC_Sweep: a sweep description (items, dims, constants, derivers, "
                "exclude) [single], 2-3 such sweeps with disjoint keys [multi: product, +, MultiSweep, combine], a sweep and "
                "a key set [filter], a sweep and a pipeline [count], three sweeps and a history of <= 3 sums over them and "
                "over earlier results, every object re-observed after every step [hist], three sweeps carrying constants / "
                "derivers and a history of <= 3 steps product / add_derivers / + over them and over earlier results, every "
                "object re-observed [phist]; every single case with derivers is also built through add_derivers; every multi case is also "
                "evaluated through every exported sum expression (nestings/spellings of +, combine, MultiSweep); the "
                "universe is every value of the TLA+ set (hist: every reachable state) for the slice constants listed under `slices`; non-trivial = the required list (combinations / product / "
                "projections) has >= 2 elements, for count: some dependency counts >= 2 combinations")
    ctx.assumptions = [
        "TLC and its Json module are trusted",
        "derivers / excludes are restricted to the named family interpreted in Sweep.tla (Derive, Excluded) and c17.py",
        "key and value names are interchangeable: keys come from a fixed pool in item order, values are 10*pos+1..; "
        "Lists=canon keeps one value list per renaming of the values of a key (sweep.py never inspects a value)",
        "dims are ordered set partitions of the item keys (plus None); a group lists its keys in item order",
        "sum expressions: nesting depth <= 2 over the 2-3 operands in order (pairs: every mixture of spellings and unary "
        "MultiSweep(x) nodes; triples: one spelling per expression); histories: <= 3 steps (x + y | x.combine(y) per "
        "history, MultiSweep of 0..2 objects) over one fixed operand triple (two in the thorough tier), from the second "
        "step on a step takes at least one earlier result; sweeps are values: a step may change no existing object",
        "product / add_derivers histories: <= 3 steps over two fixed operand triples (constants on every operand; derivers "
        "on every operand; thorough: a third with a two-key zipped operand), products of 2-3 single sweeps with disjoint "
        "keys, add_derivers with one deriver (of two item keys, or reading a constant) on a single sweep without derivers",
        "don't-care (no claim): add_derivers on a sweep that already has derivers (the code replaces them); order when dims is not in item order; product with a Sweep({}) operand; len() of a sweep "
        "whose zipped lists differ in length; filtered_sweep with keys outside the sweep or an empty key set; products/sums "
        "of sweeps whose enumeration raises",
    ]
    jobs = []
    for sl in slices:
        for sh in range(sl.nshards):
            jobs.append((sl, sh, str(ctx.workdir(f"{sl.name}_{sh}")), 90 if sh == 0 else 0))
    # deterministic order of consumption: results are gathered, then processed by (slice, shard)
    results: dict[tuple[str, int], dict] = {}
    nproc = min(16, os.cpu_count() or 4)
    with ProcessPoolExecutor(nproc, mp_context=mp.get_context("fork")) as pool:
        futs = [pool.submit(_shard, j) for j in jobs]
        for f in as_completed(futs):
            r = f.result()
            results[(r["slice"], r["shard"])] = r
    per_slice: dict[str, int] = {}
    py_s = 0.0
    py_by_slice: dict[str, float] = {}
    kept: dict[str, list[dict]] = {}
    mismatch_counts: Counter = Counter()
    for sl in slices:
        for sh in range(sl.nshards):
            r = results[(sl.name, sh)]
            ctx.add_tlc(r["tlc"], f"MC_Sweep {sl.name} shard {sh}/{sl.nshards}")
            per_slice[sl.name] = per_slice.get(sl.name, 0) + r["n"]
            ctx.traces_validated += r["n"]
            py_s += r["py_s"]
            py_by_slice[sl.name] = round(py_by_slice.get(sl.name, 0.0) + r["py_s"], 1)
            for dg, nt in r["cases"]:
                ctx.case(dg, nontrivial=nt)
            _add_shapes(r["shapes"])
            for k, v in r["counts"].items():
                mismatch_counts[k] += v
            for sig, what, wit in r["viol"]:
                ctx.violation(sig, what, wit)
            if r["kept"]:
                kept.setdefault(sl.mode, []).extend(r["kept"])
                ctx.sample(r["kept"][len(r["kept"]) // 2], limit=8)
        if per_slice.get(sl.name, 0) == 0:
            raise MachineryError(f"slice {sl.name} exported no case")
    ctx.exhaustive = True
    ctx.extra["slices"] = [dict(dataclasses.asdict(sl), cases=per_slice[sl.name]) for sl in slices]
    ctx.extra["replay_cpu_s"] = round(py_s, 1)
    ctx.extra["replay_cpu_s_by_slice"] = py_by_slice
    ctx.extra["mismatches_by_signature"] = [{"sig": json.loads(k), "count": v} for k, v in sorted(mismatch_counts.items())]
    ctx.extra["dont_care"] = ["order of the list when dims is given and not in item order (compared as a multiset)",
                              "product with an operand Sweep({}) (not compared)",
                              "len() of a sweep whose zipped value lists differ in length (not compared)"]
    selftest_binding(ctx, kept)


# ------------------------------------------------------------------------------------------------
# replay: TLC recomputes the expectation for the single witness case (and re-checks the laws on it),
# the real code is run again and compared.
def _tla(v: Any) -> str:
    if isinstance(v, bool):
        return "TRUE" if v else "FALSE"
    if isinstance(v, int):
        return str(v)
    if isinstance(v, str):
        return json.dumps(v)
    if isinstance(v, list):
        return "<<" + ", ".join(_tla(x) for x in v) + ">>"
    if isinstance(v, dict):
        return "[" + ", ".join(f"{k} |-> {_tla(x)}" for k, x in v.items()) + "]"
    raise MachineryError(f"cannot write {v!r} as a TLA+ value")


def tlc_expectation(ctx: Ctx, case: dict) -> dict:
    wd = ctx.workdir("replay")
    (wd / "MC_SweepReplay.tla").write_text(
        "---- MODULE MC_SweepReplay ----\nEXTENDS MC_Sweep\n"
        f"ReplayCase == {_tla(case)}\n"
        "RSpec == Set(ReplayCase) /\\ [][Next]_vars\n====\n")
    sl = Slice("replay", case["kind"], 0, 4, nops=len(case.get("ss", [0, 0])), nshards=1, maxsteps=len(case.get("ops", [])))
    r = run_tlc("MC_SweepReplay", sl.cfg(0, spec="RSpec"), wd, workers=1, heap="1g", allow_violation=False)
    _register_shapes(r.prints)
    recs = [p for t, p in parse_prints(r.prints) if t == "CASE"]
    if not recs:
        raise MachineryError("replay: TLC exported nothing")
    return recs[0]


def replay(rep: dict) -> int:
    w = rep["witness"]
    ctx = Ctx(PROPERTY, "quick", 0)
    try:
        rec = tlc_expectation(ctx, w["rec"]["c"])
    finally:
        ctx.cleanup()
    print("case:    ", json.dumps(rec["c"]))
    print("required:", json.dumps(rec["out"]))
    found = check_case(rec, w.get("pandas", False))
    want = {k: rep["sig"][k] for k in ("check", "api") if k in rep["sig"]}
    hit = [m for m in found if all(m[0].get(k) == v for k, v in want.items())]
    for sig, what, _ in found:
        print("observed:", what)
    print("replay:", "VIOLATION reproduced" if hit else "case accepted")
    return 1 if hit else 0
