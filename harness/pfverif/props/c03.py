"""C03 - map results and call counts are independent of executor, storage and schedule.

Spec: MapRun.tla.  TLC explores, per scenario, every interleaving of task start / completion an executor with MaxConc
concurrent tasks can produce (MC_MapRun) with invariants ExactlyOnce, InputsComplete, DoneStored, and prints every
complete behaviour as a schedule script.  Each script is realised on the real code with a controllable Executor (gated
threads) passed as executor=, for every storage, via map and map_async; the recorded event order must equal the
script; the recorded run (incl. Result.output and load_outputs) is validated by TLC (TraceMapRun).  Real thread / process
pools with seeded delays are sampled and validated the same way.
"""
from __future__ import annotations

import asyncio
import contextlib
import io
import json
import random
import shutil
import tempfile
import time
from concurrent.futures import ProcessPoolExecutor, ThreadPoolExecutor

from .. import build, exec_ctl, pmap
from ..ctx import Ctx
from ..tlc import MachineryError, run_tlc
from ..tracekit import parse_prints, validate_traces

PROPERTY = "C03"
LEVEL = "model_checking"
STORAGES = ["dict", "file_array", "shared_memory_dict"]

MC_CFG = """SPECIFICATION Spec
CONSTANTS Scenario = "{scenario}" MaxConc = {maxconc} FailF = "{failf}" FailN = {failn} Export = TRUE
INVARIANT InvTypeOK InvDoneStored InvExactlyOnce InvInputsComplete InvNoLaterGeneration EmitScen Emit
"""


def export_schedules(ctx: Ctx, scenario: str, maxconc: int, failf: str = "", failn: int = 0):
    wd = ctx.workdir(f"mc_maprun_{scenario}_{maxconc}_{failf}{failn}")
    r = run_tlc("MC_MapRun", MC_CFG.format(scenario=scenario, maxconc=maxconc, failf=failf, failn=failn), wd,
                workers=4, allow_violation=False, timeout=1800)
    ctx.add_tlc(r, f"MC_MapRun {scenario} maxconc={maxconc} fail={failf}{failn}")
    scen, scheds = None, []
    for tag, p in parse_prints(r.prints):
        if tag == "SCEN":
            scen = p
        elif tag == "SCHED":
            scheds.append(p["ev"])
    if scen is None or not scheds:
        raise MachineryError(f"MC_MapRun exported nothing for {scenario}")
    uniq = {json.dumps(s, sort_keys=True): s for s in scheds}
    return scen, list(uniq.values())


def run_scripted(scen: dict, sched: list[dict], storage, entry: str, fail: dict | None = None) -> dict:
    """Realise one schedule script on the real code."""
    pdesc = pmap.tla_desc_to_py(scen["desc"])
    if fail:
        for fd in pdesc["funcs"]:
            if fd["name"] == fail["f"]:
                fd["fail"] = {"when": fail["n"], "cls": fail.get("cls", "ValueError"), "args": fail.get("args", ["boom"])}
    build.reset_log()
    tmp = tempfile.mkdtemp(prefix="pfverif_c03_")
    script = exec_ctl.Script(sched)
    ex = exec_ctl.ScriptedExecutor()
    try:
        with contextlib.redirect_stdout(io.StringIO()):
            pl = build.make_pipeline(pdesc)
        inp = pmap.inputs_to_py(scen["inputs"], {})
        with exec_ctl.with_script(script):
            if entry == "map":
                evs, res = pmap.do_map(pl, pdesc, inp, run_folder=tmp, storage=storage, parallel=True, executor=ex)
            else:
                evs, res = do_map_async(pl, pdesc, inp, tmp, storage, ex)
        ex.shutdown(wait=True)
    finally:
        build.GATE = None
        shutil.rmtree(tmp, ignore_errors=True)
    recorded = [(e["e"], e["f"], json.dumps(dict(e["kwargs"]), sort_keys=True)) for e in evs
                if e["e"] in ("call", "ret", "fail")]
    return {"desc": scen["desc"], "inputs": scen["inputs"], "ev": evs, "storage": storage, "entry": entry,
            "followed": recorded[: len(script.items)] == script.items and script.finished(), "stuck": script.stuck or "",
            "script": sched}


def do_map_async(pl, pdesc, inp, run_folder, storage, executor, **kw):
    fnames = [fd["name"] for fd in pdesc["funcs"]]
    events = [pmap.ev(e="begin", F=fnames, cleanup=True, fixed=[])]
    start = len(build.LOG)

    async def go():
        am = pl.map_async(inp, run_folder=run_folder, storage=storage, executor=executor, **kw)
        return await am.task
    try:
        with contextlib.redirect_stdout(io.StringIO()):
            res = asyncio.run(go())
    except Exception as ex:  # noqa: BLE001
        evs = pmap.log_events(start)
        events += evs
        events.append(pmap.ev(e="raise" if any(e["e"] == "fail" for e in evs) else "error", cls=type(ex).__name__,
                              msg=str(ex)[:300]))
        return events, ex
    events += pmap.log_events(start)
    loaded = []
    from pipefunc.map import load_outputs
    from ..terms import to_json
    for name in res:
        loaded.append([str(name), to_json(load_outputs(name, run_folder=run_folder))])
    events.append(pmap.ev(e="return", results=pmap.results_json(res), loaded=loaded))
    return events, res


def run_pool(scen: dict, storage, pool_kind: str, rng_seed: int, per_output: bool, folder: bool = True) -> dict:
    """Real pools with seeded delays inside the user functions; events ordered by the append-only log file."""
    pdesc = pmap.tla_desc_to_py(scen["desc"])
    tmp = tempfile.mkdtemp(prefix="pfverif_c03p_")
    logf = tmp + "_calls.ndjson"
    build.reset_log(logf)
    rr = random.Random(rng_seed)
    delays = {}

    def delay(fname, kw):
        key = fname + json.dumps(kw, sort_keys=True)
        if key not in delays:
            delays[key] = random.Random(hash((rng_seed, key)) & 0xFFFF).random() * 0.01
        time.sleep(delays[key])
    build.DELAY = delay
    mk = (lambda: ThreadPoolExecutor(3)) if pool_kind == "thread" else (lambda: ProcessPoolExecutor(3))
    execs = []
    try:
        with contextlib.redirect_stdout(io.StringIO()):
            pl = build.make_pipeline(pdesc)
        inp = pmap.inputs_to_py(scen["inputs"], {})
        if per_output:
            ex = {"": mk()}
            first = pdesc["funcs"][0]["outputs"]
            ex[first[0] if len(first) == 1 else tuple(first)] = mk()
            execs = list(ex.values())
        else:
            ex = mk()
            execs = [ex]
        evs, res = pmap.do_map(pl, pdesc, inp, run_folder=tmp if folder else None, storage=storage, parallel=True,
                               executor=ex)
    finally:
        build.DELAY = None
        for e in execs:
            e.shutdown(wait=True)
        build.reset_log()
        shutil.rmtree(tmp, ignore_errors=True)
        with contextlib.suppress(FileNotFoundError):
            import os
            os.unlink(logf)
    return {"desc": scen["desc"], "inputs": scen["inputs"], "ev": evs, "storage": storage, "entry": pool_kind,
            "followed": True, "stuck": "", "script": []}


def two_maps_resources(kind: str, storage: str) -> dict:
    """ONE pipeline mapped twice with DIFFERENT inputs; the mapped function receives callable, map-scoped resources
    (cpus = length of the whole input) and its results depend on them.  kind: seq | thread | process.  No cache."""
    from concurrent.futures import ProcessPoolExecutor, ThreadPoolExecutor
    ms = {"ins": [{"name": "a", "axes": ["i"]}], "outs": [{"name": "y", "axes": ["i"]}]}
    gms = {"ins": [{"name": "y", "axes": ["i"]}], "outs": [{"name": "w", "axes": ["i"]}]}
    desc = {"funcs": [{"name": "f", "params": ["a"], "outputs": ["y"], "defaults": [], "bound": [], "has_ms": True, "ms": ms,
                       "internal": [], "cache": False, "rescpus": "a"},
                      {"name": "g", "params": ["y"], "outputs": ["w"], "defaults": [], "bound": [], "has_ms": True, "ms": gms,
                       "internal": [], "cache": False}]}
    arr = lambda vs: {"f": "#arr", "a": [{"f": v, "a": []} for v in vs]}   # noqa: E731
    in1, in2 = [["a", arr(["@p", "@q", "@r"])]], [["a", arr(["@p", "@q"])]]
    pdesc = pmap.tla_desc_to_py(desc)
    tmp = tempfile.mkdtemp(prefix="pfverif_c03r_")
    logf = tmp + "_calls.ndjson"
    build.reset_log(logf if kind == "process" else None)
    ex = None if kind == "seq" else ThreadPoolExecutor(3) if kind == "thread" else ProcessPoolExecutor(3)
    evs: list[dict] = []
    try:
        with contextlib.redirect_stdout(io.StringIO()):
            pl = build.make_pipeline(pdesc)
        for run, inputs in enumerate((in1, in2, in1)):
            e, res = pmap.do_map(pl, pdesc, pmap.inputs_to_py(inputs, {"a": "list"}), run_folder=f"{tmp}/r{run}", storage=storage,
                                 parallel=ex is not None, executor=ex, cleanup=True, load=False)
            if run:
                for x in e:
                    if x["e"] in ("begin", "reject"):
                        x["new_inputs"] = inputs
            evs += e
            if isinstance(res, Exception):
                break
    finally:
        if ex is not None:
            ex.shutdown(wait=True)
        build.reset_log()
        shutil.rmtree(tmp, ignore_errors=True)
        with contextlib.suppress(FileNotFoundError):
            import os
            os.unlink(logf)
    return {"desc": build.desc_to_tla(pdesc), "inputs": in1, "ev": evs, "storage": storage, "entry": kind + "-twomaps",
            "followed": True, "stuck": "", "script": []}


def validate(ctx: Ctx, traces: list[dict], name: str) -> None:
    for t in traces:
        if not t["followed"]:
            ctx.violation({"check": "schedule", "clause": "script-not-followed", "storage": str(t["storage"]), "entry": t["entry"]},
                          f"the real run did not follow the TLC schedule: {t['stuck']}",
                          {"desc": t["desc"], "inputs": t["inputs"], "script": t["script"], "storage": t["storage"],
                           "entry": t["entry"], "recorded": [(e['e'], e['f']) for e in t["ev"]]})
    rej = validate_traces(ctx, "TraceMapRun", traces, name, invariants=["InvTypeOK", "InvDoneStored"],
                          strip=("storage", "entry", "followed", "stuck", "script", "case"), chunk=200)
    for i, reached in rej.items():
        t = traces[i]
        e = t["ev"][reached - 1]
        ctx.violation({"check": "map-run-schedule", "event": e["e"], "cls": e.get("cls", ""), "storage": str(t["storage"]),
                       "entry": t["entry"]},
                      f"scheduled map run not explained by MapRun at event {reached}: {e['e']} {e.get('f','')} {e.get('cls','')} {e.get('msg','')[:100]}",
                      {"desc": t["desc"], "inputs": t["inputs"], "script": t["script"], "storage": t["storage"],
                       "entry": t["entry"], "rejected_at": reached, "case": t.get("case")})


def run(ctx: Ctx) -> None:
    quick = ctx.tier == "quick"
    rng = random.Random(ctx.seed)
    ctx.rule = ("case = one map run under one schedule (scenario, TLC behaviour = order of task starts/completions, storage, "
                "entry point map|map_async) or under a real thread/process pool with seeded delays; schedules are ALL complete "
                "behaviours of MC_MapRun for the scenario and MaxConc; non-trivial = at least two tasks overlap in the schedule")
    ctx.assumptions = ["exact schedule control exists only for the thread-based controllable executor; real pools are sampled",
                       "SLURM executors are not exercised", "TLC and the JSON/term encoding are trusted"]
    plan = [("zip", 2), ("outer", 2), ("partial", 2), ("reduce", 2), ("gen", 2), ("multi", 2), ("chain", 2)]
    if quick:
        plan = [("zip", 2), ("partial", 2), ("gen", 2), ("multi", 2), ("chain", 1)]
    else:
        plan += [("zip", 3), ("twogen", 2), ("reduce", 3)]
    budget = 60 if quick else 400         # schedules replayed per (scenario, maxconc)
    scens = {}
    traces: list[dict] = []
    for scenario, mc in plan:
        scen, scheds = export_schedules(ctx, scenario, mc)
        scens[scenario] = scen
        rng.shuffle(scheds)
        chosen = scheds[:budget]
        ctx.extra.setdefault("schedules", {})[f"{scenario}/{mc}"] = {"total": len(scheds), "replayed": len(chosen)}
        for k, s in enumerate(chosen):
            combos = [(STORAGES[k % 3], "map" if (k // 3) % 2 == 0 else "async")] if quick else \
                     [(st, en) for st in STORAGES[:2] for en in ("map", "async")] + [("shared_memory_dict", "map")]
            for st, en in combos:
                t = run_scripted(scen, s, st, en)
                traces.append(t)
                overlap = any(a["e"] == "call" and b["e"] == "call" for a, b in zip(s, s[1:]))
                ctx.case({"s": s, "st": st, "en": en}, nontrivial=overlap)
    ctx.sample({"scenario": "partial", "script": [(e["e"], e["f"]) for e in traces[len(traces) // 2]["script"]],
                "storage": traces[len(traces) // 2]["storage"], "entry": traces[len(traces) // 2]["entry"]})
    validate(ctx, traces, "scripted")

    # mixed storages / per-output executors on scripted schedules
    mixed = []
    scen = scens["partial"]
    _, scheds = export_schedules(ctx, "partial", 2) if False else (None, [t["script"] for t in traces if t["desc"] == scen["desc"]][:6])
    for s in scheds:
        mixed.append(run_scripted(scen, s, {"y": "file_array", "": "dict"}, "map"))
        mixed.append(run_scripted(scen, s, {"y": "dict", "w": "shared_memory_dict"}, "async"))
    for t in mixed:
        ctx.case({"s": t["script"], "st": t["storage"], "en": t["entry"]})
    validate(ctx, mixed, "mixed")

    # real pools with seeded delays (sampled)
    pools = []
    n = 6 if quick else 60
    names = list(scens)
    for k in range(n):
        sc = scens[names[k % len(names)]]
        kind = "thread" if k % 2 == 0 else "process"
        st = STORAGES[k % 3] if kind == "thread" else ["file_array", "shared_memory_dict"][k % 2]
        pools.append(run_pool(sc, st, kind, ctx.seed * 1000 + k, per_output=(k % 3 == 0)))
    # memory storage without a run folder (results only live in the parent's store) on pipelines with functions that
    # have no MapSpec / generators, through process and thread pools
    for k, sn in enumerate([s for s in ("chain", "gen", "partial") if s in scens]):
        for kind in ("process", "thread"):
            pools.append(run_pool(scens[sn], "dict", kind, ctx.seed * 1000 + 500 + k, per_output=False, folder=False))
    # one pipeline mapped twice with other inputs (state kept on the pipeline / its functions between runs must not leak)
    for k, kind in enumerate(("seq", "thread", "process")):
        pools.append(two_maps_resources(kind, STORAGES[k % 3]))
    # functions returning None (a stored None is a value, also for whole-array consumers) through pools
    import copy as _copy
    for k, sn in enumerate([s for s in ("partial", "reduce", "chain") if s in scens]):
        nd = _copy.deepcopy(scens[sn])
        nd["desc"]["funcs"][0]["retnone"] = True
        pools.append(run_pool(nd, STORAGES[k % 3] if k else "file_array", "thread" if k % 2 == 0 else "process", ctx.seed * 1000 + 700 + k,
                              per_output=False))
    # partial runs (fixed_indices) followed by a full run with cleanup=False, all through real pools, on every storage: the
    # workers of a later run reopen / extend the partly filled arrays an earlier run left behind (histories of MC_MapFixed)
    from . import c06
    scen6, cases6, _ = c06.export(ctx, "consumer")
    multi = [c for c in cases6 if c["kind"] == "parts" and len(c["parts"]) >= 2]
    rng.shuffle(multi)
    multi.sort(key=lambda c: -sum(1 for key in c["parts"] if key[0] == "int"))     # single-element parts first
    scenz, _, _ = c06.export(ctx, "zip")        # one axis only: an int part leaves exactly ONE element to compute
    for k, c in enumerate(multi[: (2 if quick else 12)]):
        for kind in ("thread", "process", "async"):
            for st in STORAGES:
                h = c06.run_history(scenz if kind == "async" else scen6, c, st, pool=kind)
                pools.append({"desc": h["desc"], "inputs": h["inputs"], "ev": h["ev"], "storage": st, "entry": kind + "-parts",
                              "case": c, "followed": True, "stuck": "", "script": []})
    for t in pools:
        ctx.case({"pool": t["entry"], "st": t["storage"], "d": t["desc"], "order": [(e["e"], e["f"]) for e in t["ev"]]})
    validate(ctx, pools, "pools")
    ctx.exhaustive = False

    # binding self-test: swap two adjacent events of one recorded trace so that a 'ret' precedes its 'call'
    import copy
    good = [t for t in traces if t["followed"]][:8]
    base = validate_traces(ctx, "TraceMapRun", copy.deepcopy(good), "st0", invariants=[],
                           strip=("storage", "entry", "followed", "stuck", "script"), count=False)
    bad = copy.deepcopy(good)
    clean = [i for i in range(len(bad)) if i not in base]   # only traces TLC accepts uncorrupted can be victims
    if not clean:
        ctx.selftests.append({'name': 'trace-corruption', 'ok': True, 'detail': 'not applicable: no accepted trace to corrupt'})
        return
    vi = clean[len(clean) // 2]
    evs = bad[vi]["ev"]
    k = next(i for i, e in enumerate(evs) if e["e"] == "ret")
    j = max(i for i in range(k) if evs[i]["e"] == "call" and evs[i]["kwargs"] == evs[k]["kwargs"] and evs[i]["f"] == evs[k]["f"])
    evs.insert(j, evs.pop(k))
    rej = validate_traces(ctx, "TraceMapRun", bad, "st1", invariants=[],
                          strip=("storage", "entry", "followed", "stuck", "script"), count=False)
    exp = dict(base)
    exp.setdefault(vi, j + 1)
    ctx.selftest("trace-corruption(ret moved before its call)", rej == exp, f"rej={rej} expected={exp}")


def replay(rep: dict) -> int:
    w = rep["witness"]
    scen = {"desc": w["desc"], "inputs": w["inputs"]}
    st = w["storage"]
    if w["entry"].endswith("-parts"):
        from . import c06
        h = c06.run_history(scen, w["case"], st, pool=w["entry"].split("-")[0])
        t = {"desc": h["desc"], "inputs": h["inputs"], "ev": h["ev"], "storage": st, "entry": w["entry"], "case": w["case"],
             "followed": True, "stuck": "", "script": []}
    elif w["entry"] in ("thread", "process"):
        t = run_pool(scen, st, w["entry"], 0, per_output=False)
    else:
        t = run_scripted(scen, w["script"], st, w["entry"])
    print("followed:", t["followed"], t["stuck"])
    ctx = Ctx(PROPERTY, "quick", 0)
    ctx.findings = []
    validate(ctx, [t], "replay")
    n = len(ctx.violations)
    ctx.cleanup()
    print("replay:", "VIOLATION reproduced" if n else "run accepted")
    return 1 if n else 0
