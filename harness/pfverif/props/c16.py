"""C16 - type-annotation validation agrees with subtype compatibility (spec/TypeCompat.tla).

Mechanism A (universe export), everything decided by TLC:

1. MC_TypeCompat, Part = "pairs": TLC enumerates every ordered pair of the annotation universe (quick: depth <= 1,
   thorough: depth <= 2), checks the laws of the reference relation as invariants on every pair and prints the
   expected verdict yes / no / either (+ the don't-care classes responsible for an "either").  The thorough
   universe also holds a handful of depth-3 nestings of Annotated / Array / unions.
2. The harness materialises every annotation the way pipefunc obtains it -- a function `def p(a: <ann>) -> <ann>`
   is exec'd in a harness "user" module and read back through PipeFunc.output_annotation / parameter_annotations
   (safe_get_type_hints) -- in several source styles (typing.Union, PEP 604 + `from __future__ import annotations`,
   string Annotated metadata) and calls pipefunc.typing.is_type_compatible on every exported pair.
3. MC_TypeCompat, Part = "pipes": TLC enumerates 2-3 function pipelines wiring a pair directly / through an
   element-wise map / through a (partial) reduction / through unchecked edges, flag on and off, and prints the
   expected outcome; the harness builds real annotated functions and compares Pipeline([...]) (TypeError vs success).
   NAMED shapes: TLC derives the edges from declared output names, rename steps and the MapSpecs of both functions.
   SIBLING shapes (TypeCompat section 7): the consumer takes TWO array inputs (outputs of two mapped producers, two
   outputs of one producer, or an output next to a pipeline input) in every writable combination of access modes
   (`m[i, j]` / `m[:, j]` / `m[i, :]` / `m[:, :]` / no entry  x  `w[j]` / `w[:]` / no entry, ...); each edge has to be
   judged by ITS OWN MapSpec entry.
   SUPPLY shapes (TypeCompat section 8): the consumer parameter under test and/or its sibling also has a default (in the
   Python signature, PipeFunc(defaults=), update_defaults, Pipeline.update_defaults) or a bound value (bound=,
   update_bound), over direct / element-wise / reduced / partially reduced / two-output edges: a default never cuts an
   edge (the edge is validated as ever), a bound value cuts its own edge only.
   METADATA cases (TypeCompat section 1 "metadata", LawMetadataSilent*): the metadata of an Annotated is an arbitrary
   Python OBJECT -- the universe holds Annotated with a list / dict / set / plain-dataclass instance (all without a hash)
   and a frozen-dataclass instance as metadata, at the top and inside a union / generic / Array; they are written into
   the signatures as literals (two places = two equal objects), compared pairwise like every other annotation and wired
   through the checked 2-3 function shapes (direct, element-wise, reduction, partial reduction, fan, own MapSpec).
   TLC prints which kinds have no hash (META line); the harness verifies that its objects realise exactly that.
4. Calibration: every `assert [not] is_type_compatible(X, Y)` of tests/test_typing.py whose operands fall in the
   grammar is translated to records and sent to TLC (a generated ad-hoc module over TypeCompat); the reference must
   agree with all of them, otherwise the check is a machinery failure (exit 2).
5. Seeded random pairs of depth <= 3 go through the same ad-hoc module.
"""
from __future__ import annotations

import ast
import contextlib
import dataclasses
import io
import json
import multiprocessing as mp
import os
import random
import sys
import types
import typing
import warnings
from concurrent.futures import ProcessPoolExecutor, ThreadPoolExecutor
from pathlib import Path
from typing import Any

from .. import bootstrap
from ..ctx import Ctx
from ..tlc import MachineryError, run_tlc
from ..tracekit import parse_prints

PROPERTY = "C16"
LEVEL = "model_checking"

ATOMS = {"int": "int", "bool": "bool", "float": "float", "str": "str", "bytes": "bytes", "None": "None", "Any": "Any"}
STYLES = ("typing", "pep604")            # how the source text of an annotation is written
VNAME = {0: "no", 1: "yes", 2: "either"}
# kinds of Annotated record = kinds of metadata object (TypeCompat section 1) -> the source text of the metadata
META_SRC = {"ann": "META", "annlist": '["a", "list"]', "anndict": '{"doc": "text"}', "annset": '{"a", "set"}',
            "anndata": 'Unit("m")', "annfrozen": 'FrozenUnit("m")'}
ANN_KINDS = tuple(META_SRC)
WNAME = {1: "tv", 2: "bare", 4: "num"}


# ------------------------------------------------------------------------------------------------
# records <-> text
def rec(k: str, *a: dict) -> dict:
    return {"k": k, "a": list(a)}


def show(r: dict) -> str:
    """Readable form of an annotation record (for messages only)."""
    k, a = r["k"], r["a"]
    if not a:
        return {"tvar": "T", "NoAnn": "<none>"}.get(k, k)
    inner = ", ".join(show(x) for x in a)
    if k == "vtuple":
        return f"tuple[{inner}, ...]"
    names = {"union": "Union", "opt": "Optional", "ann": "Annotated", "array": "Array", "tvbound": "TypeVar(bound=",
             "tvcons": "TypeVar(cons="}
    if k in ("tvbound", "tvcons"):
        return f"{names[k]}{inner})"
    if k in ANN_KINDS:
        return f"Annotated[{inner}, {'m' if k == 'ann' else '<' + k[3:] + '>'}]"
    return f"{names.get(k, k)}[{inner}]"


def tla(r: dict) -> str:
    """TLA+ literal of an annotation record."""
    return '[k |-> "%s", a |-> <<%s>>]' % (r["k"], ", ".join(tla(x) for x in r["a"]))


def depth(r: dict) -> int:
    return 0 if not r["a"] else 1 + max(depth(x) for x in r["a"])


def contains(r: dict, kinds: tuple[str, ...]) -> bool:
    return r["k"] in kinds or any(contains(x, kinds) for x in r["a"])


# ------------------------------------------------------------------------------------------------
# the harness "user module": annotations are written as source text and exec'd here
class Meta:
    """Opaque, non-string Annotated metadata."""

    def __repr__(self) -> str:
        return "META"


@dataclasses.dataclass
class Unit:
    """Annotated metadata as libraries write it: a plain dataclass (eq=True, not frozen => `__hash__ is None`)."""

    name: str


@dataclasses.dataclass(frozen=True)
class FrozenUnit:
    """The same, frozen: equal and hashable by value."""

    name: str


def meta_kind(m: Any) -> str:
    """The kind of Annotated record a metadata object stands for (any other non-string object: an opaque one)."""
    for t, k in ((list, "annlist"), (dict, "anndict"), (set, "annset"), (Unit, "anndata"), (FrozenUnit, "annfrozen")):
        if isinstance(m, t):
            return k
    return "ann"


class Userland:
    """A module in which annotated functions are defined with exec, as a user of pipefunc would write them."""

    def __init__(self) -> None:
        from pipefunc.typing import Array

        self.mod = types.ModuleType("pfverif_c16_userland")
        sys.modules[self.mod.__name__] = self.mod
        self.ns = self.mod.__dict__
        self.ns.update({"Annotated": typing.Annotated, "Any": typing.Any, "Optional": typing.Optional,
                        "Union": typing.Union, "TypeVar": typing.TypeVar, "Array": Array, "META": Meta(),
                        "Unit": Unit, "FrozenUnit": FrozenUnit})
        self._tv: dict[str, str] = {}
        self._objs: dict[tuple[str, str], tuple[Any, Any]] = {}

    # --- source text of an annotation
    def expr(self, r: dict, style: str) -> str:
        k, a = r["k"], r["a"]
        if k in ATOMS:
            return ATOMS[k]
        if k == "NoAnn":
            raise ValueError("NoAnn has no source text")
        e = [self.expr(x, style) for x in a]
        if k in ("list", "set", "dict", "tuple"):
            return k if not a else f"{k}[{', '.join(e)}]"
        if k == "vtuple":
            return f"tuple[{e[0]}, ...]"
        if k == "union":
            return " | ".join(f"({x})" for x in e) if style == "pep604" else f"Union[{', '.join(e)}]"
        if k == "opt":
            return f"({e[0]}) | None" if style == "pep604" else f"Optional[{e[0]}]"
        if k == "ann" and style.startswith("strmeta"):
            return f'Annotated[{e[0]}, "text"]'
        if k in ANN_KINDS:          # the metadata is written out where the annotation is used: equal, not identical objects
            return f"Annotated[{e[0]}, {META_SRC[k]}]"
        if k == "array":
            return f"Array[{e[0]}]"
        if k in ("tvar", "tvbound", "tvcons"):
            return self.typevar(r)
        raise ValueError(k)

    def typevar(self, r: dict) -> str:
        """Name of THE TypeVar object of this record (equal records = same object), declared at module level."""
        key = json.dumps(r, sort_keys=True)
        if key not in self._tv:
            name = {"tvar": "T_free", "tvbound": f"TB{len(self._tv)}", "tvcons": f"TC{len(self._tv)}"}[r["k"]]
            args = [self.expr(x, "typing") for x in r["a"]]
            if r["k"] == "tvbound":
                b = "type(None)" if args[0] == "None" else args[0]      # bound=None would mean "no bound"
                decl = f'{name} = TypeVar("{name}", bound={b})'
            elif r["k"] == "tvcons":
                decl = f'{name} = TypeVar("{name}", {", ".join("type(None)" if x == "None" else x for x in args)})'
            else:
                decl = f'{name} = TypeVar("{name}")'
            exec(decl, self.ns)  # noqa: S102
            self._tv[key] = name
        return self._tv[key]

    # --- functions
    def define(self, src: str, name: str, future: bool):
        code = ("from __future__ import annotations\n" if future else "") + src
        exec(compile(code, f"<c16 {name}>", "exec"), self.ns)  # noqa: S102
        return self.ns[name]

    def objects(self, r: dict, style: str) -> tuple[Any, Any]:
        """(as an output annotation, as a parameter annotation) of the record, obtained through PipeFunc."""
        from pipefunc import PipeFunc
        from pipefunc.typing import NoAnnotation, Unresolvable

        key = (json.dumps(r, sort_keys=True), style)
        if key in self._objs:
            return self._objs[key]
        if r["k"] == "NoAnn":
            f = self.define("def p(a):\n    return a\n", "p", False)
            out = PipeFunc(f, "o").output_annotation["o"]
            if out is not NoAnnotation:
                raise MachineryError(f"unannotated function yields {out!r}")
            res = (out, out)
        else:
            e = self.expr(r, style)
            f = self.define(f"def p(a: {e}) -> {e}:\n    return a\n", "p", future=style in ("pep604", "strmeta_hints"))
            if style == "strmeta_raw":      # the raw typing object, not pipefunc's reading of it
                h = typing.get_type_hints(f, include_extras=True)
                res = (h["return"], h["a"])
            else:
                pf = PipeFunc(f, "o")
                res = (pf.output_annotation["o"], pf.parameter_annotations["a"])
                if not style.startswith("strmeta") and any(isinstance(x, Unresolvable) for x in res):
                    raise MachineryError(f"source text {e!r} ({style}) is not a resolvable annotation: {res[0]!r}")
        self._objs[key] = res
        return res


# Python object -> record (calibration set, round-trip self-test)
def to_record(o: Any) -> dict | None:
    import numpy as np
    from pipefunc.typing import ArrayElementType, NoAnnotation

    if o is NoAnnotation:
        return rec("NoAnn")
    if o is typing.Any:
        return rec("Any")
    if o is None or o is type(None):
        return rec("None")
    for t, k in ((int, "int"), (bool, "bool"), (float, "float"), (str, "str"), (bytes, "bytes"),
                 (list, "list"), (set, "set"), (dict, "dict"), (tuple, "tuple")):
        if o is t:
            return rec(k)
    if isinstance(o, typing.TypeVar):
        if o.__constraints__:
            cs = [to_record(c) for c in o.__constraints__]
            return rec("tvcons", *cs) if len(cs) == 2 and all(cs) else None
        if o.__bound__ is not None:
            b = to_record(o.__bound__)
            return rec("tvbound", b) if b else None
        return rec("tvar")
    origin, args = typing.get_origin(o), typing.get_args(o)
    if origin is typing.Annotated:
        base, *meta = args          # nested Annotated are flattened by typing: Annotated[Array[T], m] has two metadata
        if meta and typing.get_origin(meta[0]) is ArrayElementType:
            if base != np.ndarray[Any, np.dtype[np.object_]]:
                return None
            el = to_record(typing.get_args(meta[0])[0])
            r = rec("array", el) if el else None
            meta = meta[1:]
        else:
            r = to_record(base)
        if any(isinstance(m, str) or typing.get_origin(m) is ArrayElementType for m in meta):
            return None
        for m in meta:
            r = rec(meta_kind(m), r) if r else None
        return r
    if origin is typing.Union or isinstance(o, types.UnionType):
        ms = [to_record(x) for x in args]
        return rec("union", *ms) if all(ms) else None
    if origin in (list, set, dict):
        ms = [to_record(x) for x in args]
        ok = all(ms) and len(ms) == (2 if origin is dict else 1)
        return rec(origin.__name__, *ms) if ok else None
    if origin is tuple:
        if len(args) == 2 and args[1] is Ellipsis:
            el = to_record(args[0])
            return rec("vtuple", el) if el else None
        ms = [to_record(x) for x in args]
        return rec("tuple", *ms) if ms and all(ms) and Ellipsis not in args else None
    return None


# ------------------------------------------------------------------------------------------------
# classification of a disagreement by INPUT FEATURES (no oracle): an aligned walk over the two records
def none_in_builtin(r: dict) -> bool:
    """`None` written directly as an argument of list/set/dict/tuple (stays the object None, not NoneType)."""
    here = r["k"] in ("list", "set", "dict", "tuple", "vtuple") and any(x["k"] == "None" for x in r["a"])
    return here or any(none_in_builtin(x) for x in r["a"])


def plain_ann(r: dict) -> dict:
    """The record with every kind of Annotated written as the opaque one (the kind of metadata is a feature of its own)."""
    return rec("ann" if r["k"] in ANN_KINDS else r["k"], *[plain_ann(x) for x in r["a"]])


UNHASHABLE_KINDS = ("annlist", "anndict", "annset", "anndata")     # cross-checked with the META line of TLC on every run


def features(a: dict, b: dict) -> dict:
    unhashable = contains(a, UNHASHABLE_KINDS) or contains(b, UNHASHABLE_KINDS)
    a, b = plain_ann(a), plain_ann(b)
    f = {"unhashable_metadata": unhashable, "tuple_arity_differs": False, "tuple_fixed_to_variadic": False, "required_annotated_source_not": False,
         "source_typevar": False, "source_annotated_union": False, "array_source_required_annotated": False,
         "none_arg_of_builtin_generic": none_in_builtin(a) or none_in_builtin(b)}
    unions = ("union", "opt")

    def strip(x: dict) -> dict:
        return strip(x["a"][0]) if x["k"] == "ann" else x

    def walk(x: dict, y: dict) -> None:
        if strip(x)["k"] == "array" and y["k"] == "ann" and y["a"][0]["k"] != "array":
            f["array_source_required_annotated"] = True      # Array[T] (maybe annotated further) against a merely
            walk(strip(x), y["a"][0])                        # annotated type
            return
        if x["k"] == "ann" and y["k"] != "ann":       # Annotated on the source side only: it is stripped
            if strip(x)["k"] in unions:
                f["source_annotated_union"] = True
            walk(x["a"][0], y)
            return
        if x["k"] in ("union", "opt"):
            for m in x["a"] + ([rec("None")] if x["k"] == "opt" else []):
                walk(m, y)
            return
        if y["k"] in ("union", "opt"):
            for m in y["a"] + ([rec("None")] if y["k"] == "opt" else []):
                walk(x, m)
            return
        if x["k"] in ("tvar", "tvbound", "tvcons"):
            f["source_typevar"] = True
            return
        if y["k"] in ("tvbound", "tvcons"):
            for m in y["a"]:
                walk(x, m)
            return
        wrapped_x, wrapped_y = x["k"] in ("ann", "array"), y["k"] in ("ann", "array")
        if wrapped_y and not wrapped_x:
            f["required_annotated_source_not"] = True
            if y["k"] == "ann":
                walk(x, y["a"][0])
            return
        if x["k"] == "array" and y["k"] == "ann":     # Array[S] against Annotated[Array[T], ..]
            walk(x, y["a"][0])
            return
        if x["k"] == "ann":
            walk(x["a"][0], y["a"][0] if y["k"] == "ann" else y)
            return
        if x["k"] == "array" and y["k"] == "array":
            walk(x["a"][0], y["a"][0])
            return
        tup = ("tuple", "vtuple")
        if x["k"] in tup and y["k"] in tup and x["a"] and y["a"]:
            if x["k"] == "tuple" and y["k"] == "tuple" and len(x["a"]) != len(y["a"]):
                f["tuple_arity_differs"] = True
            if x["k"] == "vtuple" and y["k"] == "tuple":
                f["tuple_arity_differs"] = True
            if x["k"] == "tuple" and y["k"] == "vtuple":
                f["tuple_fixed_to_variadic"] = True
                for m in x["a"]:
                    walk(m, y["a"][0])
                return
            for m, n in zip(x["a"], y["a"]):
                walk(m, n)
            return
        if x["k"] == y["k"] and x["k"] in ("list", "set", "dict"):
            for m, n in zip(x["a"], y["a"]):
                walk(m, n)

    if a["k"] != "NoAnn" and b["k"] != "NoAnn":
        walk(a, b)
    return f


# ------------------------------------------------------------------------------------------------
# TLC side
MC_CFG = """SPECIFICATION Spec
CONSTANTS Part = "{part}" Tier = "{tier}" Shard = {shard} NShards = {n}
INVARIANT {invs}
"""
PAIR_INVS = "InvVerdictDomain InvReflexive InvAnyTop InvUnion InvCovariant InvTransitive InvMetadata Emit"
PIPE_INVS = "InvPipeDomain InvPipeEdges InvMeta InvNamed InvSib InvSup Emit"

ADHOC = """---- MODULE MC_TypeCompatAdhoc ----
(* generated by pfverif/props/c16.py: verdicts of TypeCompat for explicitly listed pairs / pipelines *)
EXTENDS TypeCompat, Json, TLC
VARIABLES case
PairSeq == <<{pairs}>>
PipeSeq == <<{pipes}>>
ASSUME \\A i \\in DOMAIN PairSeq : PrintT(<<"CAL", i, CASE Verdict(PairSeq[i][1], PairSeq[i][2]) = "no" -> 0
        [] Verdict(PairSeq[i][1], PairSeq[i][2]) = "yes" -> 1 [] OTHER -> 2>>)
ASSUME \\A i \\in DOMAIN PipeSeq : PrintT(<<"CPIPE", ToJson([i |-> i, expect |-> Construct(PipeSeq[i].edges, PipeSeq[i].validate)])>>)
Init == case = 0
Next == UNCHANGED case
Spec == Init /\\ [][Next]_case
LawsOnListed == \\A i \\in DOMAIN PairSeq : LET A == PairSeq[i][1]  B == PairSeq[i][2] IN
                   LawMonotone(A, B) /\\ LawReflexive(A) /\\ LawReflexive(B) /\\ LawAnyTop(A) /\\ LawCovariant(A, B, Strict)
                   /\\ LawCovariant(A, B, Lenient) /\\ LawMetadataSilent(A, B, Strict) /\\ LawMetadataSilent(A, B, Lenient)
                   /\\ ((~HasNoAnn(A) /\\ ~HasNoAnn(B)) => LawUnion(A, B, StrT, Strict))
====
"""


def adhoc_verdicts(ctx: Ctx, name: str, pairs: list[tuple[dict, dict]], pipes: list[dict] | None = None
                   ) -> tuple[list[str], list[str]]:
    """Ask TLC (TypeCompat operators) for the verdict of listed pairs and the outcome of listed pipelines."""
    pipes = pipes or []
    wd = ctx.workdir(f"adhoc_{name}")

    def edge(e: dict) -> str:
        return '[p |-> %s, c |-> %s, via |-> "%s"]' % (tla(e["p"]), tla(e["c"]), e["via"])

    ptxt = ",\n  ".join("<<%s, %s>>" % (tla(a), tla(b)) for a, b in pairs)
    qtxt = ",\n  ".join("[edges |-> <<%s>>, validate |-> %s]" % (", ".join(edge(e) for e in p["edges"]),
                                                              "TRUE" if p["validate"] else "FALSE") for p in pipes)
    from ..tlc import prepare_workdir
    prepare_workdir(wd)
    (wd / "MC_TypeCompatAdhoc.tla").write_text(ADHOC.format(pairs=ptxt, pipes=qtxt))
    r = run_tlc("MC_TypeCompatAdhoc", "SPECIFICATION Spec\nINVARIANT LawsOnListed\n", wd, workers=1, heap="2g",
                allow_violation=False)
    ctx.add_tlc(r, f"MC_TypeCompatAdhoc {name}: {len(pairs)} pairs, {len(pipes)} pipelines")
    pv: dict[int, str] = {}
    qv: dict[int, str] = {}
    for tag, payload in parse_prints(r.prints):
        if tag == "CAL":
            pv[payload[0]] = VNAME[payload[1]]
        elif tag == "CPIPE":
            qv[payload["i"]] = payload["expect"]
    if len(pv) != len(pairs) or len(qv) != len(pipes):
        raise MachineryError(f"adhoc {name}: {len(pv)}/{len(pairs)} pair verdicts, {len(qv)}/{len(pipes)} pipelines")
    return [pv[i + 1] for i in range(len(pairs))], [qv[i + 1] for i in range(len(pipes))]


def export_universe(ctx: Ctx, tier: str, pair_procs: int, pipe_procs: int):
    """Run MC_TypeCompat (pairs and pipes parts, concurrently); return (annotations by index, pairs, pipelines)."""
    ncpu = os.cpu_count() or 4
    pipe_workers = max(1, ncpu // 4 // pipe_procs)
    pair_workers = max(1, (ncpu - pipe_workers * pipe_procs) // pair_procs)
    jobs = [("pairs", s, pair_procs, pair_workers) for s in range(pair_procs)] + \
           [("pipes", s, pipe_procs, pipe_workers) for s in range(pipe_procs)]

    def one(job):
        part, s, n, workers = job
        wd = ctx.workdir(f"mc_{part}_{s}")
        cfg = MC_CFG.format(part=part, tier=tier, shard=s, n=n, invs=PAIR_INVS if part == "pairs" else PIPE_INVS)
        return job, run_tlc("MC_TypeCompat", cfg, wd, workers=workers, heap="3g", allow_violation=False, timeout=1500)

    anns: dict[int, dict] = {}
    meta: list[dict] = []
    pairs: list[tuple[int, int, int, int]] = []
    pipes: list[dict] = []
    with ThreadPoolExecutor(max_workers=len(jobs)) as ex:
        results = list(ex.map(one, jobs))
    for (part, s, n, _w), r in results:
        ctx.add_tlc(r, f"MC_TypeCompat {part} tier={tier} shard {s}/{n}")
        got = rows = 0
        for tag, payload in parse_prints(r.prints):
            if tag == "ANN":
                if anns.setdefault(payload["i"], payload["t"]) != payload["t"]:
                    raise MachineryError("shards disagree on the order of the universe")
            elif tag == "META":
                meta.append({k: sorted(v) for k, v in payload.items()})
            elif tag == "PAIR":
                pairs.append(tuple(payload))
                got += 1
            elif tag == "PIPE":
                pipes.append(payload)
                got += 1
        rows = r.distinct - got         # one "row" state per first/producer annotation
        if got == 0 or rows <= 0 or rows > len(anns):
            raise MachineryError(f"{part} shard {s}: {got} exported cases, {r.distinct} distinct states")
    n = len(anns)
    if sorted(anns) != list(range(1, n + 1)) or len(pairs) != n * n or len({(p[0], p[1]) for p in pairs}) != n * n:
        raise MachineryError(f"universe export incomplete: {n} annotations, {len(pairs)} pairs")
    if len({json.dumps(p, sort_keys=True) for p in pipes}) != len(pipes):
        raise MachineryError("duplicate pipeline cases exported")
    pairs.sort()
    pipes.sort(key=lambda p: (p["shape"], p["p"], p["c"], p["validate"]))
    if not meta or any(m != meta[0] for m in meta):
        raise MachineryError(f"kinds of Annotated metadata not exported (or shards disagree): {meta[:2]}")
    return anns, pairs, pipes, meta[0]


def metadata_realised(u: Userland, meta: dict) -> list[str]:
    """The metadata objects the harness writes are what TypeCompat says they are: one kind of Annotated record per kind
    of the specification, its metadata object hashable exactly when the specification says so, equal (and, without a
    hash, never identical) between two places it is written in, and read back as the same kind.  Returns what is wrong."""
    wrong = []
    if sorted(meta["kinds"]) != sorted(ANN_KINDS) or sorted(meta["unhashable"]) != sorted(UNHASHABLE_KINDS):
        return [f"TypeCompat has kinds {meta['kinds']} / unhashable {meta['unhashable']}, the harness {ANN_KINDS} / {UNHASHABLE_KINDS}"]
    for k in ANN_KINDS:
        for style in STYLES:
            out, par = u.objects(rec(k, rec("int")), style)
            (m1,), (m2,) = out.__metadata__, par.__metadata__
            try:
                hash(m1)
                hashable = True
            except TypeError:
                hashable = False
            if hashable != (k not in meta["unhashable"]):
                wrong.append(f"{k} [{style}]: metadata {m1!r} hashable={hashable}")
            if m1 != m2 or (not hashable and m1 is m2):      # (typing caches subscriptions with hashable arguments)
                wrong.append(f"{k} [{style}]: the two written metadata objects are not equal" + " but distinct" * (not hashable))
            if meta_kind(m1) != k:
                wrong.append(f"{k} [{style}]: metadata {m1!r} is read back as {meta_kind(m1)}")
    return wrong


# ------------------------------------------------------------------------------------------------
# implementation side: pairs
def call_compat(src: Any, req: Any) -> tuple[str, int]:
    """('True' | 'False' | exception class name, number of warnings) of is_type_compatible."""
    from pipefunc.typing import is_type_compatible

    with warnings.catch_warnings(record=True) as w:
        warnings.simplefilter("always")
        try:
            res = is_type_compatible(src, req)
            out = "True" if res is True else "False" if res is False else f"non-bool:{res!r}"
        except Exception as e:  # noqa: BLE001
            out = type(e).__name__
    return out, len(w)


def agrees(observed: str, verdict: str) -> bool:
    if observed not in ("True", "False"):
        return False            # an exception (or a non-bool) is never an allowed answer
    return verdict == "either" or (verdict == "yes") == (observed == "True")


def pair_sig(a: dict, b: dict, style: str, observed: str, verdict: str) -> dict:
    return {"check": "pair", "style": style, "observed": observed, "required": verdict, **features(a, b)}


# ------------------------------------------------------------------------------------------------
# implementation side: pipelines
_U: dict[str, Userland] = {}


def userland() -> Userland:
    if "u" not in _U:
        _U["u"] = Userland()
    return _U["u"]


SUPPLIED_VALUE = 0      # the value of every default / bound value the harness attaches (annotations are not enforced)


def _fn(u: Userland, name: str, params: list[tuple[str, dict]], ret: dict | None, style: str,
        sig_defaults: tuple[str, ...] = ()):
    """def name(p1: A1, ...) -> R  with the annotations written as source text (NoAnn = nothing written).
    Parameters in `sig_defaults` get `= 0` in the signature (keyword-only then, so that any order can be written)."""
    dflt = lambda p: f" = {SUPPLIED_VALUE!r}" if p in sig_defaults else ""  # noqa: E731
    ps = ", ".join((p if r["k"] == "NoAnn" else f"{p}: {u.expr(r, style)}") + dflt(p) for p, r in params)
    if sig_defaults:
        ps = "*, " + ps
    rt = "" if ret is None or ret["k"] == "NoAnn" else f" -> {u.expr(ret, style)}"
    return u.define(f"def {name}({ps}){rt}:\n    return None\n", name, future=style == "pep604")


def build_functions(u: Userland, shape: str, edges: list[dict], style: str) -> list:
    """Real PipeFuncs for a pipeline description; the annotations come from the exported edges."""
    from pipefunc import PipeFunc

    none, intr, strr = rec("NoAnn"), rec("int"), rec("str")
    e0 = edges[0]
    P, C = e0["p"], e0["c"]
    if shape in ("direct2", "emap2", "reduce2", "preduce2", "generated2", "internal2"):
        ms_f, ms_g = {"direct2": (None, None), "emap2": ("x[i] -> y[i]", "y[i] -> z[i]"),
                      "reduce2": ("x[i] -> y[i]", None), "preduce2": ("x[i, j] -> y[i, j]", "y[i, :] -> z[i]"),
                      "generated2": (None, "y[i] -> z[i]"), "internal2": ("... -> y[i]", None)}[shape]
        f = PipeFunc(_fn(u, "f", [("x", none)], P, style), "y", mapspec=ms_f)
        g = PipeFunc(_fn(u, "g", [("y", C)], none, style), "z", mapspec=ms_g)
        return [f, g]
    if shape in ("fan3", "fan3b"):
        e1 = edges[1]
        f = PipeFunc(_fn(u, "f", [("x", none)], P, style), "y", mapspec="x[i] -> y[i]")
        g = PipeFunc(_fn(u, "g", [("y", C)], none, style), "z", mapspec="y[i] -> z[i]")
        h = PipeFunc(_fn(u, "h", [("y", e1["c"])], none, style), "w")
        return [f, g, h]
    if shape == "chain3a":
        e1 = edges[1]
        f = PipeFunc(_fn(u, "f", [("x", none)], intr, style), "y")
        g = PipeFunc(_fn(u, "g", [("y", intr)], e1["p"], style), "z")
        h = PipeFunc(_fn(u, "h", [("z", e1["c"])], none, style), "w")
        return [f, g, h]
    if shape == "chain3b":
        f = PipeFunc(_fn(u, "f", [("x", none)], P, style), "y")
        g = PipeFunc(_fn(u, "g", [("y", C)], intr, style), "z")
        h = PipeFunc(_fn(u, "h", [("z", intr)], none, style), "w")
        return [f, g, h]
    if shape in ("multi2", "multi2x"):
        f = PipeFunc(_fn(u, "f", [("x", none)], rec("tuple", P, intr), style), ("y1", "y2"))
        g = PipeFunc(_fn(u, "g", [("y1", C), ("y2", intr if shape == "multi2" else strr)], none, style), "z")
        return [f, g]
    raise MachineryError(f"unknown shape {shape}")


def _ms_text(ms: dict) -> str | None:
    if not ms["has"]:
        return None
    side = lambda arrs: ", ".join(f"{a['n']}[{', '.join(a['ax'])}]" for a in arrs) or "..."  # noqa: E731
    return f"{side(ms['ins'])} -> {side(ms['outs'])}"


def _producer(u: Userland, prod: dict, fname: str, style: str):
    """The real PipeFunc of a producer description [outs, anns, steps, hows, ms] (TypeCompat section 6b)."""
    from pipefunc import PipeFunc

    none = rec("NoAnn")
    outs, anns = prod["outs"], prod["anns"]
    ret = anns[0] if len(outs) == 1 else rec("tuple", *anns)
    roots = [a["n"] for a in prod["ms"]["ins"]] or ["x"]
    steps = [dict(map(tuple, st)) for st in prod["steps"]]
    hows = list(prod["hows"])
    ctor: dict = {}
    if hows and hows[0] == "ctor":
        ctor, steps, hows = steps[0], steps[1:], hows[1:]
    f = PipeFunc(_fn(u, fname, [(n, none) for n in roots], ret, style), outs[0] if len(outs) == 1 else tuple(outs),
                 renames=ctor or None, mapspec=_ms_text(prod["ms"]))
    for how, st in zip(hows, steps):
        if how == "update":
            f.update_renames(st)
        elif how == "scope":
            scopes = {v.split(".", 1)[0] for v in st.values()}
            if len(scopes) != 1 or any(v != f"{next(iter(scopes))}.{k}" for k, v in st.items()):
                raise MachineryError(f"not a scope step: {st}")
            f.update_scope(next(iter(scopes)), outputs=set(st))
        else:
            raise MachineryError(f"unknown rename step kind {how}")
    return f


def _consumer(u: Userland, cons: dict, out: str, style: str):
    """The real PipeFunc of a consumer description [params, ms]."""
    from pipefunc import PipeFunc

    params, scoped = [], {}
    hows: dict[str, list[str]] = {}        # how a default / bound value is attached (TypeCompat section 8) -> parameters
    for q in cons["params"]:
        py = q["n"]
        if "." in py:                      # a scoped name: the function has the bare parameter, the scope is added
            sc, py = py.split(".", 1)
            scoped.setdefault(sc, set()).add(py)
        params.append((py, q["t"]))
        hows.setdefault(q.get("how", "none"), []).append(py)
    if set(hows) - {"none", "sig", "ctor", "update", "pipe", "bctor", "bupdate"}:
        raise MachineryError(f"unknown way of attaching a value: {sorted(hows)}")
    val = lambda how: {n: SUPPLIED_VALUE for n in hows.get(how, [])}  # noqa: E731
    g = PipeFunc(_fn(u, "g", params, rec("NoAnn"), style, sig_defaults=tuple(hows.get("sig", ()))), out,
                 mapspec=_ms_text(cons["ms"]), defaults=val("ctor") or None, bound=val("bctor") or None)
    if val("update"):
        g.update_defaults(val("update"))
    if val("bupdate"):
        g.update_bound(val("bupdate"))
    for sc, names in scoped.items():
        g.update_scope(sc, inputs=names)
    return g                               # how = "pipe" is applied by construct (it needs the pipeline)


def _supply_realised(g, cons: dict) -> str | None:
    """The consumer the code holds has the defaults / bound values the specification wrote (None = yes)."""
    for q in cons["params"]:
        sup, n = q.get("sup", "none"), q["n"]
        if (n in g.bound) != (sup == "bound") or (n in g.defaults) != (sup in ("sig", "default")) \
                or (n in g._defaults) != (sup == "default"):
            return f"parameter {n}: sup={sup} how={q.get('how')} but bound={g.bound} defaults={g.defaults}"
    return None


def build_named(u: Userland, desc: dict, style: str) -> list:
    """Real PipeFuncs for a NAMED description (TypeCompat section 6): declared output names, one return annotation per
    position, rename steps (renames= / update_renames / update_scope) and user-written MapSpecs on both functions.
    A SIBLING description (section 7) has several producers (`prods`) feeding one consumer."""
    net = "prods" in desc
    prods = desc["prods"] if net else [desc["prod"]]
    cons = desc["cons"]
    fs = [_producer(u, prod, "f" if len(prods) == 1 else f"f{k}", style) for k, prod in enumerate(prods)]
    outs = cons["ms"]["outs"]
    g = _consumer(u, cons, outs[0]["n"] if outs else "z", style)
    produced = [n for f in fs for n in (f.output_name if isinstance(f.output_name, tuple) else (f.output_name,))]
    cut = {q["n"] for q in cons["params"] if q.get("sup") == "bound"}       # no edge into a bound parameter (section 8)
    connected = [n for n in g.parameters if n in produced and n not in cut]
    realised = sorted(connected) == sorted(e["n"] for e in desc["edges"]) if net else len(connected) == len(desc["edges"])
    if not realised or [q["n"] for q in cons["params"]] != list(g.parameters) or len(set(produced)) != len(produced):
        raise MachineryError(f"named description not realised: outputs {produced}, parameters {g.parameters}, "
                             f"{len(desc['edges'])} edges expected")
    if net:     # the MapSpecs the code holds are the ones the specification wrote
        for f, prod in zip(fs, prods):
            if (str(f.mapspec) if f.mapspec else None) != _ms_text(prod["ms"]):
                raise MachineryError(f"producer MapSpec {f.mapspec} is not {_ms_text(prod['ms'])}")
        if (str(g.mapspec) if g.mapspec else None) != _ms_text(cons["ms"]):
            raise MachineryError(f"consumer MapSpec {g.mapspec} is not {_ms_text(cons['ms'])}")
    return [*fs, g]


def construct(desc: dict, style: str = "typing") -> tuple[str, str]:
    """Outcome of Pipeline([...]) for a description: 'accept' | 'TypeError' | other exception class name."""
    from pipefunc import Pipeline

    u = userland()
    if "prod" in desc or "prods" in desc:
        funcs = build_named(u, desc, style)
    else:
        funcs = build_functions(u, desc["shape"], desc["edges"], style)
    if (desc.get("p", 0) + desc.get("c", 0)) % 2:      # listing order must not matter
        funcs = funcs[::-1]
    cons = desc.get("cons", {"params": []})
    via_pipeline = {q["n"]: SUPPLIED_VALUE for q in cons["params"] if q.get("how") == "pipe"}
    buf = io.StringIO()
    with warnings.catch_warnings(record=True) as w, contextlib.redirect_stdout(buf):
        warnings.simplefilter("always")
        if via_pipeline:        # Pipeline.update_defaults on an unvalidated pipeline; its functions are then used
            p0 = Pipeline(funcs, validate_type_annotations=False)
            p0.update_defaults(via_pipeline)
            funcs = list(p0.functions)
        if any("sup" in q for q in cons["params"]):
            wrong = _supply_realised(next(f for f in funcs if f.__name__ == "g"), cons)
            if wrong:
                raise MachineryError(f"supply not realised ({desc['shape']}): {wrong}")
        try:
            # how the pipeline comes to hold its functions must not matter: every third case adds them one by one
            import zlib
            if zlib.crc32(repr((desc.get("shape"), desc.get("p", 0), desc.get("c", 0))).encode()) % 3 == 0:
                pl = Pipeline([], validate_type_annotations=desc["validate"])
                for f_ in funcs:
                    pl.add(f_)
            else:
                Pipeline(funcs, validate_type_annotations=desc["validate"])
            out, msg = "accept", ""
        except TypeError as e:
            msg = str(e)
            out = "TypeError" if "Inconsistent type annotations" in msg else "TypeError(other)"
        except Exception as e:  # noqa: BLE001
            out, msg = type(e).__name__, str(e)
    if w and out == "accept":
        msg = f"{len(w)} warning(s): {w[0].message}"
    return out, msg[:300]


def _pipe_worker(args) -> tuple[str, str]:
    desc, style = args
    return construct(desc, style)


def pipe_agrees(observed: str, expect: str) -> bool:
    if observed not in ("accept", "TypeError"):
        return False
    return expect == "either" or observed == expect


def pipe_sig(desc: dict, style: str, observed: str, expect: str) -> dict:
    f: dict = {}
    for e in desc["edges"]:
        if e["via"] in ("generated", "internal"):
            continue
        src = e["p"]
        if e["via"] in ("reduce", "preduce") and src["k"] != "NoAnn":
            src = rec("array", src)
        for k, v in features(src, e["c"]).items():
            f[k] = f.get(k, False) or v
        if (desc["shape"] in ("multi2", "multi2x") or desc["shape"].startswith(("ren_", "sib2_", "supm_"))) and e["p"]["k"] == "None":  # tuple[None, int]
            f["none_arg_of_builtin_generic"] = True
    reduced_annotated = any(e["via"] in ("reduce", "preduce") and e["p"]["k"] in ANN_KINDS for e in desc["edges"])
    # supply shapes (TypeCompat section 8): what else can give the parameter under test / the other one a value, and how
    sup = [(q.get("sup", "none"), q.get("how", "none")) for q in desc["cons"]["params"]] if "cons" in desc else []
    supplied = desc["shape"].startswith("sup") and len(sup) == 2
    return {"check": "pipeline", "style": style, "shape": desc["shape"], "validate": desc["validate"],
            "observed": observed, "required": expect, "reduced_producer_annotated": reduced_annotated,
            "renamed_outputs": desc["shape"].startswith("ren_"), "consumer_own_mapspec": desc["shape"].endswith("_other2"),
            # sibling shapes: the consumer's MapSpec has several entries; how each produced input is taken
            "consumer_array_inputs": len(desc["cons"]["ms"]["ins"]) if "prods" in desc else -1,
            "vias": "+".join(sorted(e["via"] for e in desc["edges"])),
            "supply_under_test": sup[0][0] if supplied else "none", "how_under_test": sup[0][1] if supplied else "none",
            "supply_other": sup[1][0] if supplied else "none",
            "supply_family": desc["shape"].split("_")[0] if supplied else "",
            **f}


# ------------------------------------------------------------------------------------------------
# calibration set: the literal triples of tests/test_typing.py that fall in the grammar
def calibration_triples() -> tuple[list[tuple[dict, dict, bool, str]], int]:
    import numpy as np
    import numpy.typing as npt
    import pipefunc.typing as pt

    path = bootstrap.REPO / "tests" / "test_typing.py"
    tree = ast.parse(path.read_text())
    base: dict[str, Any] = {k: getattr(typing, k) for k in ("Annotated", "Any", "Optional", "Union", "TypeVar", "Generic",
                                                            "Literal", "ForwardRef", "TypeAlias")}
    import collections.abc as cabc
    import numbers
    base.update({"np": np, "npt": npt, "Sequence": cabc.Sequence, "Mapping": cabc.Mapping, "Callable": cabc.Callable,
                 "Number": numbers.Number, "NoneType": type(None)})
    base.update({k: getattr(pt, k) for k in ("Array", "ArrayElementType", "NoAnnotation", "Unresolvable")})
    out, total = [], 0
    for fn in [n for n in tree.body if isinstance(n, ast.FunctionDef) and n.name.startswith("test_")]:
        ns = dict(base)
        for st in ast.walk(fn):
            if isinstance(st, ast.Assign) and isinstance(st.value, ast.Call) and getattr(st.value.func, "id", "") == "TypeVar":
                with contextlib.suppress(Exception):
                    exec(compile(ast.Module([st], []), "<calib>", "exec"), ns)  # noqa: S102
        for st in ast.walk(fn):
            if not isinstance(st, ast.Assert):
                continue
            t, want = st.test, True
            if isinstance(t, ast.UnaryOp) and isinstance(t.op, ast.Not):
                t, want = t.operand, False
            if not (isinstance(t, ast.Call) and getattr(t.func, "id", "") == "is_type_compatible" and len(t.args) == 2
                    and not t.keywords):
                continue
            total += 1
            try:
                a, b = (eval(compile(ast.Expression(x), "<calib>", "eval"), ns) for x in t.args)  # noqa: S307
            except Exception:  # noqa: BLE001, S112
                continue
            if isinstance(a, str) or isinstance(b, str):
                continue
            ra, rb = to_record(a), to_record(b)
            if ra and rb:
                out.append((ra, rb, want, ast.unparse(st)))
    return out, total


# ------------------------------------------------------------------------------------------------
# seeded random annotations of depth <= 3 (sampled part; verdicts still come from TLC)
def random_ann(rng: random.Random, d: int) -> dict:
    atoms = ["int", "bool", "float", "str", "bytes", "None", "Any"]
    if d == 0 or rng.random() < 0.25:
        x = rng.random()
        if x < 0.75:
            return rec(rng.choice(atoms))
        if x < 0.85:
            return rec("tvar")
        return rec(rng.choice(["list", "set", "dict", "tuple"]))
    k = rng.choice(["list", "set", "dict", "tuple", "tuple", "vtuple", "union", "opt", "ann", "array", "tvbound", "tvcons"])
    sub = lambda: random_ann(rng, d - 1)  # noqa: E731
    if k in ("list", "set", "vtuple", "opt", "ann", "array"):
        return rec(k, sub())
    if k == "dict":
        return rec(k, rec(rng.choice(["int", "str", "Any"])), sub())
    if k == "tuple":
        return rec(k, *[sub() for _ in range(rng.randint(1, 3))])
    if k == "union":
        return rec(k, *[sub() for _ in range(rng.randint(2, 3))])
    if k == "tvbound":
        b = sub()
        return rec(k, b) if not contains(b, ("tvar", "tvbound", "tvcons")) and b["k"] != "None" else rec("tvar")
    c1, c2 = rec(rng.choice(atoms[:5])), rec(rng.choice(atoms[:5]))
    return rec(k, c1, c2) if c1 != c2 else rec("tvar")


def rekind(rng: random.Random, r: dict) -> dict:
    """The same annotation with another kind of object as the metadata of each of its Annotated."""
    return rec(rng.choice(ANN_KINDS) if r["k"] == "ann" else r["k"], *[rekind(rng, x) for x in r["a"]])


def mutate(rng: random.Random, r: dict, d: int) -> dict:
    """A related annotation: widen / narrow / rewrap one position."""
    x = rng.random()
    if not r["a"] or x < 0.2:
        y = rng.random()
        if y < 0.3:
            return rec("union", r, rec(rng.choice(["str", "None", "float"])))
        if y < 0.45:
            return rec("ann", r)
        if y < 0.6:
            return {"bool": rec("int"), "int": rec("bool")}.get(r["k"], rec("Any"))
        if y < 0.7 and r["k"] == "tuple" and r["a"]:
            z = rng.random()
            if z < 0.4:
                return rec("vtuple", r["a"][0])
            return rec("tuple", *r["a"], r["a"][0]) if z < 0.7 or len(r["a"]) == 1 else rec("tuple", *r["a"][:-1])
        return random_ann(rng, d)
    i = rng.randrange(len(r["a"]))
    a = list(r["a"])
    a[i] = mutate(rng, a[i], max(d - 1, 0))
    if r["k"] in ("tvbound", "tvcons"):
        return rec("tvar")
    return rec(r["k"], *a)


# ------------------------------------------------------------------------------------------------
def check_pairs(ctx: Ctx, u: Userland, items: list[tuple[dict, dict, str, int]], styles: tuple[str, ...], origin: str,
                corrupt: int | None = None) -> list[int]:
    """Compare is_type_compatible with the exported verdicts. Returns the indices of disagreeing items."""
    bad: list[int] = []
    for n, (a, b, verdict, why) in enumerate(items):
        v = verdict
        if corrupt is not None and n == corrupt:
            v = {"yes": "no", "no": "yes", "either": "either"}[v]
        for style in styles:
            if style.startswith("strmeta") and not (contains(a, ("ann",)) or contains(b, ("ann",))):
                continue
            try:
                src, req = u.objects(a, style)[0], u.objects(b, style)[1]
            except MachineryError:
                raise
            except Exception as e:  # noqa: BLE001
                raise MachineryError(f"cannot materialise {show(a)} / {show(b)} in style {style}: {e!r}") from e
            observed, _nwarn = call_compat(src, req)
            if corrupt is None:
                trivial = a == b or a["k"] == "NoAnn" or b["k"] in ("NoAnn", "Any")
                ctx.case({"a": a, "b": b, "style": style}, nontrivial=not trivial)
            if not agrees(observed, v):
                bad.append(n)
                if corrupt is None:
                    ctx.violation(pair_sig(a, b, style, observed, v),
                                  f"is_type_compatible({show(a)}, {show(b)}) [{style}] = {observed}; TypeCompat says {v}",
                                  {"kind": "pair", "a": a, "b": b, "style": style, "observed": observed, "required": v,
                                   "origin": origin, "src_obj": repr(src), "req_obj": repr(req)})
    return bad


def check_pipes(ctx: Ctx, descs: list[dict], corrupt: int | None = None, parallel: bool = True) -> list[int]:
    jobs = []
    for d in descs:
        jobs.append((d, "typing"))
        if any(contains(e["p"], ("union", "opt")) or contains(e["c"], ("union", "opt")) for e in d["edges"]):
            jobs.append((d, "pep604"))
        if any(contains(e["p"], ("ann",)) or contains(e["c"], ("ann",)) for e in d["edges"]) and d["validate"]:
            jobs.append((d, "strmeta"))         # string Annotated metadata (probe, F26)
    userland()      # created before the fork: workers share the TypeVar declarations
    if parallel and len(jobs) > 200:
        with ProcessPoolExecutor(min(16, os.cpu_count() or 4), mp_context=mp.get_context("fork")) as pool:
            res = list(pool.map(_pipe_worker, jobs, chunksize=max(1, len(jobs) // 128)))
    else:
        res = [_pipe_worker(j) for j in jobs]
    bad: list[int] = []
    index = {id(d): i for i, d in enumerate(descs)}
    for (d, style), (observed, msg) in zip(jobs, res):
        i = index[id(d)]
        expect = d["expect"]
        if corrupt is not None and i == corrupt:
            expect = {"accept": "TypeError", "TypeError": "accept", "either": "either"}[expect]
        if corrupt is None:
            nontrivial = d["validate"] and any(e["via"] not in ("generated", "internal") and e["p"]["k"] != "NoAnn"
                                               and e["c"]["k"] != "NoAnn" and e["p"] != e["c"] for e in d["edges"])
            ctx.case({"shape": d["shape"], "edges": d["edges"], "validate": d["validate"], "style": style},
                     nontrivial=nontrivial)
        if not pipe_agrees(observed, expect):
            bad.append(i)
            if corrupt is None:
                es = "; ".join(f"{show(e['p'])} -{e['via']}-> {show(e['c'])}" for e in d["edges"])
                ctx.violation(pipe_sig(d, style, observed, expect),
                              f"Pipeline {d['shape']} [{es}] validate={d['validate']} [{style}]: {observed}; "
                              f"TypeCompat says {expect} ({msg})",
                              {"kind": "pipe", "shape": d["shape"], "edges": d["edges"], "validate": d["validate"],
                               **({"prod": d["prod"], "cons": d["cons"]} if "prod" in d else {}),
                               **({"prods": d["prods"], "cons": d["cons"]} if "prods" in d else {}),
                               "p": d.get("p", 0), "c": d.get("c", 0), "style": style, "observed": observed,
                               "required": expect, "message": msg})
    return bad


def run(ctx: Ctx) -> None:
    quick = ctx.tier == "quick"
    tier = "quick" if quick else "thorough"
    rng = random.Random(ctx.seed)
    u = userland()
    ctx.rule = ("pair case = (source annotation, required annotation, source style); ALL ordered pairs of the TLA+-defined "
                "universe (quick: depth <= 1, thorough: depth <= 2 plus six depth-3 nestings; both: 9 annotations of depth <= 2 whose "
                "Annotated metadata is a list / dict / set / dataclass instance [no hash] / frozen dataclass instance) exported by TLC from MC_TypeCompat with the verdict "
                "yes/no/either, plus seeded random pairs of depth <= 3 decided by TLC through a generated ad-hoc module; "
                "non-trivial = the two annotations differ, both exist and the required one is not Any. "
                "pipeline case = (shape, annotations on its edges, validate flag, style) for 120 shapes of 2-3 functions (12 with "
                "listed edges, 8 NAMED ones whose edges TLC derives from declared output names + rename steps [renames=, "
                "update_renames, update_scope, swap] and from the user-written MapSpecs of both functions, 43 SIBLING ones "
                "whose consumer takes two array inputs -- outputs of two mapped producers, two outputs of one producer, an "
                "output next to a pipeline input -- in every writable combination of access modes [indexed / sliced on either "
                "axis / fully sliced / no entry], the pair under test on either input; 57 SUPPLY ones whose consumer parameter "
                "under test [7 ways: nothing / signature default / defaults= / update_defaults / Pipeline.update_defaults / "
                "bound= / update_bound] and/or other parameter [nothing / defaults= / bound=] can get a value otherwise, over a "
                "direct / element-wise / reduced / partially reduced / two-output edge); plus METADATA cases: the 9 annotations "
                "with the other kinds of Annotated metadata as producer and/or consumer annotation [partners: 11 plain ones and "
                "each other] over the 6 shapes direct2 / emap2 / reduce2 / preduce2 / fan3b / reduce_other2; "
                "non-trivial = validation on and some checked edge joins two different explicit annotations")
    ctx.assumptions = [
        "TLC and the record <-> source-text translation of annotations are trusted (round-trip self-test on every run)",
        "annotation objects are read back through PipeFunc.output_annotation / parameter_annotations of exec'd functions",
        "every default / bound value the harness attaches is the int 0 (annotations are not enforced at attachment)",
        "Annotated metadata objects: one representative per kind (a list, a dict, a set, an eq-dataclass instance, a frozen "
        "dataclass instance, an instance of a plain class), written as a literal wherever the annotation is used; metadata "
        "whose == raises or is not a bool (numpy arrays) is outside the grammar",
        "don't-care (verdict 'either'): source TypeVar; bare generic against a parametrised one of the same origin; "
        "int/bool -> float; at pipeline level a reduced producer that is itself annotated Array[...]",
        "forward references, numpy dtypes, user generics, ABCs (Sequence/Mapping) are outside the grammar",
    ]

    # 1. TLC: universe, laws, expected verdicts
    anns, pairs, pipes, meta = export_universe(ctx, tier, pair_procs=1 if quick else 2, pipe_procs=1)
    n = len(anns)
    wrong_meta = metadata_realised(u, meta)
    ctx.selftest("Annotated metadata objects realise the kinds of the specification (hashable exactly where it says so)",
                 not wrong_meta, f"kinds {meta['kinds']}, without a hash {meta['unhashable']}; wrong: {wrong_meta[:3]}")
    if wrong_meta:
        raise MachineryError("Annotated metadata not realised: " + "; ".join(wrong_meta[:3]))
    ctx.extra["universe"] = {"annotations": n, "ordered_pairs": len(pairs), "pipelines": len(pipes),
                             "max_depth": max(depth(a) for a in anns.values())}
    verdict_count = {v: 0 for v in VNAME.values()}
    why_count = {w: 0 for w in WNAME.values()}
    for _i, _j, v, w in pairs:
        verdict_count[VNAME[v]] += 1
        for bit, name in WNAME.items():
            if w & bit:
                why_count[name] += 1
    ctx.extra["verdicts"] = verdict_count
    ctx.extra["dont_care_by_class"] = why_count

    # 2. calibration against the repository's literal examples (reference vs tests; exit 2 on disagreement)
    triples, total_asserts = calibration_triples()
    if len(triples) < 40:
        raise MachineryError(f"calibration: only {len(triples)} of {total_asserts} literal triples fall in the grammar")
    cal_verdicts, _ = adhoc_verdicts(ctx, "calibration", [(a, b) for a, b, _w, _s in triples])
    wrong = [(s, v) for (a, b, want, s), v in zip(triples, cal_verdicts) if v != "either" and (v == "yes") != want]
    ctx.extra["calibration"] = {"asserts_in_test_typing": total_asserts, "in_grammar": len(triples),
                                "decided_by_dont_care": sum(v == "either" for v in cal_verdicts)}
    if wrong:
        raise MachineryError("TypeCompat disagrees with tests/test_typing.py on: " + "; ".join(f"{s} -> {v}" for s, v in wrong[:5]))

    # 3. binding self-tests
    #    (a) record -> source text -> object -> record -> object round trip on the whole universe
    broken = []
    for i, r in anns.items():
        for style in STYLES:
            o = u.objects(r, style)[0]
            r2 = to_record(o)
            if r2 is None or u.objects(r2, "typing")[0] != o:
                broken.append((show(r), style, repr(o)))
    ctx.selftest("materialisation round trip (record -> exec'd signature -> object -> record -> object)", not broken,
                 f"{n} annotations x {len(STYLES)} styles; broken: {broken[:3]}")

    # 4. pairs
    items = [(anns[i], anns[j], VNAME[v], w) for i, j, v, w in pairs]
    bad = check_pairs(ctx, u, items, STYLES, "universe")
    ctx.traces_validated += len(items) - len(set(bad))
    #    string Annotated metadata: a separate probe on the pairs that mention Annotated (depth <= 1 sides)
    sm = [(a, b, v, w) for a, b, v, w in items if (contains(a, ("ann",)) or contains(b, ("ann",)))
          and depth(a) <= 1 and depth(b) <= 1]
    bad_sm = check_pairs(ctx, u, sm, ("strmeta_raw", "strmeta_hints"), "string-metadata probe")
    ctx.traces_validated += len(sm) - len(set(bad_sm))
    ctx.extra["string_metadata_probe_pairs"] = len(sm)
    #    (b) corrupt one expected verdict: exactly that pair must be reported
    good = [k for k in range(len(items)) if items[k][2] != "either" and k not in set(bad) and items[k][0] != items[k][1]]
    if good:
        victim = good[len(good) // 2]
        lo = max(0, victim - 50)
        window = items[lo: victim + 50]
        got = check_pairs(ctx, u, window, ("typing",), "selftest", corrupt=victim - lo)
        base = check_pairs(ctx, u, window, ("typing",), "selftest", corrupt=10**9)
        ctx.selftest("pair verdict corruption (one exported verdict flipped)", sorted(set(got) - set(base)) == [victim - lo],
                     f"victim={show(items[victim][0])} -> {show(items[victim][1])} reported={sorted(set(got) - set(base))}")
    for k in (len(items) // 3, len(items) // 2):
        a, b, v, _ = items[k]
        ctx.sample({"a": show(a), "b": show(b), "verdict": v})

    # 5. pipelines
    badp = check_pipes(ctx, pipes)
    ctx.traces_validated += len(pipes) - len(set(badp))
    goodp = [k for k in range(len(pipes)) if pipes[k]["expect"] != "either" and k not in set(badp) and pipes[k]["validate"]]
    goodp = [k for k in goodp if pipes[k]["shape"] == "reduce2" and pipes[k]["edges"][0]["p"]["k"] != "NoAnn"
             and pipes[k]["edges"][0]["c"]["k"] != "NoAnn"] or goodp       # prefer a checked, Array-wrapped edge
    if goodp:
        victim = goodp[len(goodp) // 2]
        lo = max(0, victim - 20)
        window = pipes[lo: victim + 20]
        got = check_pipes(ctx, window, corrupt=victim - lo, parallel=False)
        base = check_pipes(ctx, window, corrupt=10**9, parallel=False)
        ctx.selftest("pipeline outcome corruption (one exported outcome flipped)",
                     sorted(set(got) - set(base)) == [victim - lo],
                     f"victim={pipes[victim]['shape']} {show(pipes[victim]['edges'][0]['p'])} -> "
                     f"{show(pipes[victim]['edges'][0]['c'])} expect={pipes[victim]['expect']} "
                     f"reported={sorted(set(got) - set(base))}")
    #    the same on a SIBLING shape whose edge under test is element-wise next to a sliced sibling entry
    sibp = [k for k in range(len(pipes)) if "prods" in pipes[k] and pipes[k]["validate"] and pipes[k]["expect"] != "either"
            and k not in set(badp) and sorted(e["via"] for e in pipes[k]["edges"]) == ["emap", "preduce"]
            and all(e["p"]["k"] != "NoAnn" and e["c"]["k"] != "NoAnn" for e in pipes[k]["edges"])]
    if sibp:
        victim = sibp[len(sibp) // 2]
        lo = max(0, victim - 20)
        window = pipes[lo: victim + 20]
        got = check_pipes(ctx, window, corrupt=victim - lo, parallel=False)
        base = check_pipes(ctx, window, corrupt=10**9, parallel=False)
        ctx.selftest("sibling pipeline outcome corruption (one exported outcome flipped)",
                     sorted(set(got) - set(base)) == [victim - lo],
                     f"victim={pipes[victim]['shape']} "
                     + "; ".join(f"{show(e['p'])} -{e['via']}-> {show(e['c'])}" for e in pipes[victim]["edges"])
                     + f" expect={pipes[victim]['expect']} reported={sorted(set(got) - set(base))}")
    #    and on a SUPPLY shape: an incompatible edge into a parameter that has a PipeFunc-level default
    supk = [k for k in range(len(pipes)) if pipes[k]["shape"].startswith("sup") and pipes[k]["validate"]
            and pipes[k]["expect"] == "TypeError" and k not in set(badp)
            and pipes[k]["cons"]["params"][0].get("sup") == "default"]
    if supk:
        victim = supk[len(supk) // 2]
        lo = max(0, victim - 20)
        window = pipes[lo: victim + 20]
        got = check_pipes(ctx, window, corrupt=victim - lo, parallel=False)
        base = check_pipes(ctx, window, corrupt=10**9, parallel=False)
        q = pipes[victim]["cons"]["params"][0]
        ctx.selftest("supply pipeline outcome corruption (one exported outcome flipped)",
                     sorted(set(got) - set(base)) == [victim - lo],
                     f"victim={pipes[victim]['shape']} parameter {q['n']} sup={q['sup']} how={q['how']} "
                     + "; ".join(f"{show(e['p'])} -{e['via']}-> {show(e['c'])}" for e in pipes[victim]["edges"])
                     + f" expect={pipes[victim]['expect']} reported={sorted(set(got) - set(base))}")
    #    and on a METADATA case: a compatible (partial) reduction of a producer whose Annotated metadata has no hash
    new_kinds = tuple(k for k in ANN_KINDS if k != "ann")
    on_edge = lambda d, kinds: any(contains(e["p"], kinds) or contains(e["c"], kinds) for e in d["edges"])  # noqa: E731
    metak = [k for k in range(len(pipes)) if pipes[k]["validate"] and pipes[k]["expect"] == "accept" and k not in set(badp)
             and pipes[k]["shape"] in ("reduce2", "preduce2") and contains(pipes[k]["edges"][0]["p"], UNHASHABLE_KINDS)
             and pipes[k]["edges"][0]["c"]["k"] == "array"]
    if metak:
        victim = metak[len(metak) // 2]
        lo = max(0, victim - 20)
        window = pipes[lo: victim + 20]
        got = check_pipes(ctx, window, corrupt=victim - lo, parallel=False)
        base = check_pipes(ctx, window, corrupt=10**9, parallel=False)
        ctx.selftest("metadata pipeline outcome corruption (one exported outcome flipped)",
                     sorted(set(got) - set(base)) == [victim - lo],
                     f"victim={pipes[victim]['shape']} "
                     + "; ".join(f"{show(e['p'])} -{e['via']}-> {show(e['c'])}" for e in pipes[victim]["edges"])
                     + f" expect={pipes[victim]['expect']} reported={sorted(set(got) - set(base))}")
    elif not badp:
        raise MachineryError("no compatible reduction of a producer with unhashable Annotated metadata was exported")
    meta_pipes = [d for d in pipes if on_edge(d, new_kinds)]
    ctx.extra["metadata_cases"] = {
        "annotations": sum(1 for a in anns.values() if contains(a, new_kinds)),
        "without_hash": sum(1 for a in anns.values() if contains(a, UNHASHABLE_KINDS)),
        "pipelines": len(meta_pipes), "shapes": sorted({d["shape"] for d in meta_pipes}),
        "through_a_reduction": sum(1 for d in meta_pipes if any(e["via"] in ("reduce", "preduce") for e in d["edges"])),
        "rejected": sum(1 for d in meta_pipes if d["expect"] == "TypeError")}
    sup_pipes = [d for d in pipes if d["shape"].startswith("sup")]
    ctx.extra["supply_shapes"] = {"shapes": len({d["shape"] for d in sup_pipes}), "pipelines": len(sup_pipes),
                                  "edge_cut_by_bound": sum(1 for d in sup_pipes if d["cons"]["params"][0]["sup"] == "bound"),
                                  "rejected_despite_default": sum(1 for d in sup_pipes if d["expect"] == "TypeError" and
                                                                  d["cons"]["params"][0]["sup"] in ("sig", "default"))}
    ctx.extra["sibling_shapes"] = {"shapes": len({d["shape"] for d in pipes if d["shape"].startswith("sib")}),
                                   "pipelines": sum(1 for d in pipes if d["shape"].startswith("sib"))}
    for k in (len(pipes) // 3, 2 * len(pipes) // 3):
        d = pipes[k]
        ctx.sample({"shape": d["shape"], "validate": d["validate"], "expect": d["expect"],
                    "edges": [f"{show(e['p'])} -{e['via']}-> {show(e['c'])}" for e in d["edges"]]})

    # 6. sampled pairs of depth <= 3 (verdicts from TLC through the ad-hoc module)
    nrand = 400 if quick else 6000
    rpairs = []
    skipped = 0
    for _ in range(nrand):
        a = random_ann(rng, 3)
        b = mutate(rng, a, 2) if rng.random() < 0.7 else random_ann(rng, 3)
        if rng.random() < 0.3:
            a, b = b, a
        if depth(a) > 3 or depth(b) > 3:
            continue
        try:        # e.g. `None | None` cannot be written in PEP 604 syntax: not an annotation a user could have
            for r in (a, b):
                for style in STYLES:
                    u.objects(r, style)
        except MachineryError:
            skipped += 1
            continue
        rpairs.append((a, b))
    #    ... and every sampled pair that mentions Annotated once more with other kinds of metadata object (a generator of
    #    its own: the pairs above do not depend on it); an Annotated without a hash cannot be written inside a Union
    rng_meta = random.Random(ctx.seed * 7919 + 16)
    nplain = len(rpairs)
    for a, b in rpairs[:nplain]:
        if not (contains(a, ("ann",)) or contains(b, ("ann",))):
            continue
        a2, b2 = rekind(rng_meta, a), rekind(rng_meta, b)
        if (a2, b2) == (a, b):
            continue
        try:
            for r in (a2, b2):
                for style in STYLES:
                    u.objects(r, style)
        except (MachineryError, TypeError):     # TypeError: Python itself cannot write it (typing.Union hashes its members,
            skipped += 1                         # also inside a TypeVar bound / constraint)
            continue
        rpairs.append((a2, b2))
    chunks = [rpairs[i: i + 1500] for i in range(0, len(rpairs), 1500)]
    with ThreadPoolExecutor(max_workers=8) as ex:
        rv = list(ex.map(lambda ic: adhoc_verdicts(ctx, f"random_{ic[0]}", ic[1])[0], enumerate(chunks)))
    ritems = [(a, b, v, 0) for ch, vs in zip(chunks, rv) for (a, b), v in zip(ch, vs)]
    badr = check_pairs(ctx, u, ritems, STYLES, "random depth<=3")
    ctx.traces_validated += len(ritems) - len(set(badr))
    ctx.extra["random_pairs_depth3"] = {"n": len(ritems), "with_other_metadata_kinds": len(rpairs) - nplain, "not_expressible_skipped": skipped, "verdicts": {v: sum(1 for x in ritems if x[2] == v)
                                                                       for v in ("yes", "no", "either")}}
    classes: dict[str, int] = {}
    for v in ctx.violations:
        sig = {k: x for k, x in v["sig"].items() if k not in ("shape", "validate")}
        sig["style"] = "string-metadata" if sig["style"].startswith("strmeta") else "typing/pep604"
        key = json.dumps(sig, sort_keys=True)
        classes[key] = classes.get(key, 0) + 1
    ctx.extra["violation_classes"] = [{"n": n, **json.loads(k)} for k, n in sorted(classes.items(), key=lambda kv: -kv[1])]
    ctx.exhaustive = True      # the whole TLA+-defined universe of this tier was consumed (the random part is extra)


# ------------------------------------------------------------------------------------------------
def replay(rep: dict) -> int:
    w = rep["witness"]
    ctx = Ctx(PROPERTY, "quick", 0)
    ctx.findings = []
    try:
        u = userland()
        if w["kind"] == "pair":
            v = adhoc_verdicts(ctx, "replay", [(w["a"], w["b"])])[0][0]
            src, req = u.objects(w["a"], w["style"])[0], u.objects(w["b"], w["style"])[1]
            observed, nwarn = call_compat(src, req)
            print(f"is_type_compatible({src!r}, {req!r}) -> {observed} ({nwarn} warnings); TypeCompat verdict: {v}")
            ok = agrees(observed, v)
        else:
            desc = {"shape": w["shape"], "edges": w["edges"], "validate": w["validate"], "p": w.get("p", 0), "c": w.get("c", 0)}
            if "prod" in w:
                desc.update(prod=w["prod"], cons=w["cons"])
            if "prods" in w:
                desc.update(prods=w["prods"], cons=w["cons"])
            v = adhoc_verdicts(ctx, "replay", [], [desc])[1][0]
            observed, msg = construct(desc, w["style"])
            es = "; ".join(f"{show(e['p'])} -{e['via']}-> {show(e['c'])}" for e in w["edges"])
            print(f"Pipeline {w['shape']} [{es}] validate={w['validate']} -> {observed} {msg!r}; TypeCompat says: {v}")
            ok = pipe_agrees(observed, v)
    finally:
        ctx.cleanup()
    print("replay:", "agrees with TypeCompat" if ok else "VIOLATION reproduced")
    return 0 if ok else 1
