"""C18 - lazy pipelines evaluate to the eager result, at most once per node.

Spec: PipelineLazy.tla (extends PipelineCall/PipelineStatic): LBegin/Build (deferred handle, nothing executed),
EvalBegin/LCall/EvalReturn (first evaluate: the Call steps of PipelineCall), ReEvaluate (no Call at all, same value),
Graph(g) with TaskGraphOK (recorded task graph, picker nodes contracted = dependency edges of the evaluation, acyclic).
1. TLC explores every behaviour of the lazy state machine over the TLA+-defined description universe of
   MC_PipelineCall (MC_PipelineLazy, LBSpec, deadlock checking on; invariants nothing-before-evaluate, at-most-once,
   exactly-once-needed, value = Eval, graph OK, single-step graph corruptions rejected) and exports every description
   with its valid cuts (LUSpec).
2. For every exported description, in every listing order, for every output and valid cut the harness builds a real
   Pipeline(lazy=True) and an eager twin from the same description and records: the eager call (begin/call/return),
   lbegin, build (handle kind, calls logged while building), [graph], evalbegin, call*, evaluate(value), call*,
   reevaluate(value), [graph], lend - without and with an active construct_dag() (evaluation inside / after the block),
   through pipeline(), run(), func(), full_output; plus surplus-keyword and missing-argument variants.
3. TLC validates every recorded history (TracePipelineLazy); eager and lazy values meet only in the spec (both = Eval).
4. Random larger DAGs (c02.random_desc, up to 6 functions) go through 2-3.
5. Faults (LCallFail / EvalRaise, ECallFail / ERaise; fault plan flt/eflt, desc.faults): every exported description in every
   order, and every random DAG, additionally with user functions that raise on their first invocation only (transient) or on
   every invocation (persistent): three successive eager calls next to three successive evaluate() calls on ONE handle;
   a handle abandoned after an evaluate() that raised followed by further handles of the same construct_dag() block that
   share its nodes; the same through a user cache.  TLC (MC_PipelineLazy with FaultsOn, EBSpec for the eager twin) explores
   the fault behaviours of the model, TracePipelineLazy validates the recorded ones.
6. Blocks left through an exception (BlockLeft; LBeginObs / EagerBeginObs): every exported description in every order, and every
   random DAG, additionally in a history whose construct_dag() block is left by an exception - of a call refused inside it (a
   needed keyword dropped / the output supplied / a surplus keyword), of a user function that evaluate() let through (fault plan),
   or of the body itself, with the handle evaluated, unevaluated or dropped - after which the program goes on outside any block:
   eager twin, the same call again on the same or on a freshly built lazy pipeline, a new block, the other outputs.  Every
   begin/lbegin carries what lazy.task_graph() reports when the call is made, every block exit (`bleft`) what it reports afterwards.
8. Assembled pipelines (PipelineLazy: assembly; d.asm / d.easm, PipelineIsLazy guarding LBegin): TLC checks the laws of the flag
   operators on the assembly universe (parts joined by Pipeline.join or `|`, bare PipeFuncs, .copy() / .copy(lazy=...)), checks for
   every description x assembly that a deferred handle is to be had exactly from a pipeline assembled lazy, and exports the lazy
   assemblies with their eager twins.  Every exported description (in one listing order, alternating) additionally in a history on a
   pipeline PUT TOGETHER as one of these assemblies (rotating), the cache / fault / abort histories on assembled pipelines in every other position, the
   random DAGs (up to 6 functions, up to three parts) likewise.
7. User caches of every in-memory kind (simple / lru / hybrid) in the before-the-block / inside-the-block histories: only the kind
   the block itself keeps (OwnCacheInBlock) may contribute nodes created before the block to the recorded graph.
"""
from __future__ import annotations

import contextlib
import copy
import functools
import io
import itertools
import json
import math
import multiprocessing
import operator
import random
import warnings
from concurrent.futures import ThreadPoolExecutor
from typing import Iterable, Iterator

from .. import build, pcall
from ..ctx import Ctx
from ..terms import Term, from_json, to_json
from ..tlc import MachineryError, run_tlc
from ..tracekit import TRACE_CFG, parse_prints
from . import c02

PROPERTY = "C18"
LEVEL = "model_checking"

INVS = ("InvNothingBeforeEvaluate InvAtMostOncePerNode InvExactlyOnceNeeded InvCountIsDone InvValueIsEval InvGraphIsOK "
        "InvLazyTypeOK InvLDoneOnlyNeeded InvNoCallAfterEvaluate InvBuiltDefined InvMutantsRejected InvReusedNeedNoCall "
        "InvOldNodesOnlySources InvFailuresAccounted InvNoValueFromFailure InvFailedEvaluateOnlyRaises "
        "InvRetryIsAFirstEvaluate InvEagerReturnNoFault InvMutantsRejectedNoOld InvForeignCacheNeverOld")
BCFG = """SPECIFICATION {spec}
CONSTANTS N = {n} Rich = {rich} Shard = {shard} NShards = {nshards} MaxEv = {maxev} AllKw = {allkw} MaxHandles = {maxh}
  Modes = {modes} UserCacheOn = {ucache} FaultsOn = {faults} MaxFailEv = {maxfail} CacheKinds = {ckinds} AsmOn = FALSE AsmMaxN = 0
INVARIANT """ + INVS + "\n"
UCFG = """SPECIFICATION LUSpec
CONSTANTS N = {n} Rich = {rich} Shard = 0 NShards = 1 MaxEv = 2 AllKw = FALSE MaxHandles = 1 Modes = {{"call", "full"}} UserCacheOn = FALSE
  FaultsOn = FALSE MaxFailEv = 0 CacheKinds = {{"simple"}} AsmOn = FALSE AsmMaxN = 0
INVARIANT InvRefGraphOK InvDepEdgesStatic LEmit
"""
# the ways a pipeline object is put together: laws of the flag operators on AsmUniverse(1..AsmMaxN) (ASSUME), the lazy assemblies
# with their eager twins exported (ASMS), and every description of the shard x every assembly: a handle exactly from a lazy one
ACFG = """SPECIFICATION LUSpec
CONSTANTS N = {n} Rich = {rich} Shard = {shard} NShards = {nshards} MaxEv = 2 AllKw = FALSE MaxHandles = 1 Modes = {{"call", "full"}}
  UserCacheOn = FALSE FaultsOn = FALSE MaxFailEv = 0 CacheKinds = {{"simple"}} AsmOn = TRUE AsmMaxN = {maxn}
INVARIANT InvLazyExactlyWhenAssembledLazy
"""
ASM_MAXN = 6                        # random DAGs have up to 6 functions
# invariants re-checked on the states TLC reaches while explaining real behaviour (the action guards decide acceptance)
TRACE_INVS = ["InvNothingBeforeEvaluate", "InvAtMostOncePerNode", "InvExactlyOnceNeeded", "InvValueIsEval", "InvGraphIsOK",
              "InvDoneOnlyNeeded", "InvFailuresAccounted", "InvNoValueFromFailure"]
TRACE_INVS_LIGHT = ["InvNothingBeforeEvaluate", "InvAtMostOncePerNode", "InvDoneOnlyNeeded"]

MODES = ["call", "run", "func", "full"]
DAGVARS = ["off", "in", "out"]
# fields the trace specification reads, per event (a field keeps one encoding wherever it occurs)
FIELDS = {"begin": ("out", "kw", "mode", "active"), "call": ("f", "kwargs"), "callfail": ("f", "kwargs"), "return": ("val",),
          "returnfull": ("pairs",), "raise": ("cls", "val")}
STRIP = ("order", "cached", "fault", "abort")     # harness-side annotations of a history (not read by the trace specification)
FAULT_CLS = "HarnessError"          # what a harness function with a fault plan raises (TracePipelineLazy: FaultCls / FaultMsg)
CACHE_KINDS = ["simple", "lru", "simple", "hybrid"]     # in-memory user caches (rotation of the before/inside-the-block histories)


class BodyError(Exception):
    """What the body of a `with construct_dag()` block raises when the history asks for an exceptional exit and nothing else raised."""


def block_active() -> bool:
    """Cheap observation: does the library see an active construct_dag() block right now?"""
    from pipefunc.lazy import task_graph

    return task_graph() is not None


def slim(events: list[dict]) -> list[dict]:
    """Events of pcall.do_call / pcall.call_events reduced to the fields their action reads."""
    return [{"e": e["e"], **{k: e[k] for k in FIELDS[e["e"]]}} for e in events]


def lev(**kw) -> dict:
    return kw


def call_events(log_start: int) -> list[dict]:
    """pcall.call_events, with the invocations that raised: build.invoke logs `call` and then, when the function's fault plan
    strikes, `fail` - the pair becomes one `callfail` event."""
    out: list[dict] = []
    for rec in build.LOG[log_start:]:
        if rec["e"] == "call":
            fd = build.REG[rec["fid"]]
            out.append(pcall.ev(e="call", f=rec["f"], kwargs=[[p, rec["kwargs"][p]] for p in fd["params"]]))
            out[-1]["_fid"] = rec["fid"]
        elif rec["e"] == "fail":
            if not out or out[-1].get("_fid") != rec["fid"] or out[-1]["e"] != "call":
                raise MachineryError("call log: `fail` record without its `call`")
            out[-1]["e"] = "callfail"
    for e in out:
        del e["_fid"]
    return out


def eager_call(pipeline, out: str, kw_pairs: list[list], mode: str) -> list[dict]:
    """pcall.do_call (one eager top-level call -> begin, call*, return | returnfull | raise) with `callfail` events; `begin`
    carries what lazy.task_graph() reports when the call is made (`active`)."""
    events = [pcall.ev(e="begin", out=out, kw=kw_pairs, mode="full" if mode == "full" else "call", active=block_active())]
    kwargs = {n: from_json(v) for n, v in kw_pairs}
    start = len(build.LOG)
    try:
        with contextlib.redirect_stdout(io.StringIO()):
            if mode == "call":
                r = pipeline(out, **kwargs)
            elif mode == "run":
                r = pipeline.run(out, kwargs=kwargs)
            elif mode == "func":
                r = pipeline.func(out)(**kwargs)
            else:
                r = pipeline.run(out, full_output=True, kwargs=kwargs)
    except Exception as ex:  # noqa: BLE001
        return slim(events + call_events(start)) + [_raise_event(ex)]
    events += call_events(start)
    if mode == "full":
        events.append(pcall.ev(e="returnfull", pairs=[[str(k), to_json(v)] for k, v in r.items()]))
    else:
        events.append(pcall.ev(e="return", val=to_json(r)))
    return slim(events)


# ---- observing the real objects ----------------------------------------------------------------------
def observe_graph(pl, tg) -> tuple[list[dict], list[list[int]]]:
    """TaskGraph -> (nodes, edges); a node is identified by the harness function its deferred call wraps, or by the
    output picker (of which pipeline function, picking which name) it applies."""
    ids = sorted(tg.graph.nodes)
    ren = {x: k + 1 for k, x in enumerate(ids)}
    nodes = []
    known = getattr(pl, "_c18_known", {})
    for x in ids:
        # a node created before the block (cached by the pipeline) enters the graph as a bare edge endpoint: identify it
        # through the handles this pipeline returned earlier
        lf = tg.graph.nodes[x].get("lazy_func") or known.get(x)
        fn = getattr(lf, "func", None)
        kind, f, pick = "other", type(fn).__name__, ""
        for pf in pl.functions:
            inner = getattr(fn, "func", None)
            if fn is pf or (inner is not None and inner is pf.func):
                kind, f = "func", pf.func.__name__
                break
            if isinstance(pf.output_name, tuple) and fn is pf.output_picker:
                kind, f = "picker", pf.func.__name__
                args = getattr(lf, "args", ())
                pick = args[1] if len(args) > 1 and isinstance(args[1], str) else "?"
                break
        nodes.append({"id": ren[x], "kind": kind, "f": f, "pick": pick})
    edges = sorted([ren[a], ren[b]] for a, b in tg.graph.edges)
    return nodes, edges


def remember_nodes(pl, h) -> None:
    """Register every deferred node reachable from a handle under its id (harness-side book-keeping on the pipeline)."""
    from pipefunc.lazy import _LazyFunction

    known = pl.__dict__.setdefault("_c18_known", {})
    stack = [h]
    while stack:
        x = stack.pop()
        if isinstance(x, _LazyFunction):
            if known.get(x._id) is x:
                continue
            known[x._id] = x
            stack.extend(x.args)
            stack.extend(x.kwargs.values())
        elif isinstance(x, dict):
            stack.extend(x.values())
        elif isinstance(x, (list, tuple, set)):
            stack.extend(x)


def handle_kind(h, mode: str, kwargs: dict) -> str:
    from pipefunc.lazy import _LazyFunction

    if mode == "full":
        if isinstance(h, dict) and all(isinstance(v, _LazyFunction) for k, v in h.items() if k not in kwargs):
            return "deferred"
        return f"value:{type(h).__name__}"
    return "deferred" if isinstance(h, _LazyFunction) else f"value:{type(h).__name__}"


def _raise_event(ex: BaseException) -> dict:
    return lev(e="raise", cls=type(ex).__name__, val=to_json(Term("#msg:" + str(ex)[:200])))


def block_history(pl, items: list[tuple], dagvar: str, k: int = 0, leave: str = "normal") -> list[dict]:
    """Lazy calls on the real pipeline, each: build the handle, evaluate it twice; task graph before/after (first handle).
    items: [(out, kw_pairs, mode)] or [(out, kw_pairs, mode, attempts)]: with `attempts` evaluate() is called that many times
    whether or not it raises (fault histories; an evaluate() is reported as evalbegin .. evaluate while none has returned yet
    and as reevaluate afterwards), without it the history ends at the first exception.  dagvar: "off" (no construct_dag; one item) | "in" (everything inside ONE
    construct_dag block, handle after handle) | "out" (one item; built inside the block, evaluated after leaving it).
    leave: how the with construct_dag() statement is left: "normal" (an exception of a call / an evaluate() is caught inside the
    block) | "exc" (through an exception: the first one that a call or an evaluate() inside the block raises is let through and
    caught outside; if none is raised the body raises BodyError at its end - "out": right after the handle was built).
    Every block exit is reported (`bleft`: exc, and what task_graph() reports afterwards); a handle that is alive when an exception
    leaves the block is dropped afterwards (`lend`), except the unevaluated one of "out", which is evaluated after the block as usual."""
    from pipefunc.lazy import construct_dag, evaluate_lazy

    n = len(items)
    if n != 1 and dagvar != "in":
        raise ValueError("several handles need one enclosing construct_dag block")
    evs: list[dict] = []
    buf = io.StringIO()
    pending: list[BaseException] = []       # the exception the last recorded `raise` event reports (if it is the last event)

    def build_one(idx: int):
        out, kw_pairs, mode = items[idx][:3]
        evs.append(lev(e="lbegin", out=out, kw=kw_pairs, mode="full" if mode == "full" else "call", dag=dagvar != "off",
                       active=block_active(), blk=idx,
                       how=f"{mode}/{dagvar}/{k}/{items[idx][3] if len(items[idx]) > 3 else 0}/{leave}"))
        kwargs = {a: from_json(v) for a, v in kw_pairs}
        start = len(build.LOG)
        pending.clear()
        try:
            with contextlib.redirect_stdout(buf):
                if mode == "call":
                    h = pl(out, **kwargs)
                elif mode == "run":
                    h = pl.run(out, kwargs=kwargs)
                elif mode == "func":
                    h = pl.func(out)(**kwargs)
                elif (k + idx) % 2 == 0:
                    h = pl.run(out, full_output=True, kwargs=kwargs)
                else:
                    h = pl.func(out).call_full_output(**kwargs)
        except Exception as ex:  # noqa: BLE001
            evs.extend(slim(call_events(start)))
            evs.append(_raise_event(ex))
            pending.append(ex)
            return None
        pre = slim(call_events(start))
        evs.extend(pre)
        evs.append(lev(e="build", cls=handle_kind(h, mode, kwargs), n=len(pre)))
        remember_nodes(pl, h)
        return (h,)

    def graph_event(tg) -> None:
        nodes, edges = observe_graph(pl, tg)
        evs.append(lev(e="graph", nodes=nodes, edges=edges))

    def evaluate(idx: int, h, which: int, again: bool) -> bool:
        """One evaluate() call (the which-th on this handle; again: an earlier one returned)."""
        full = items[idx][2] == "full"
        start = len(build.LOG)
        pending.clear()
        try:
            with contextlib.redirect_stdout(buf):
                if full or (which + k) % 2:
                    v = evaluate_lazy(h)
                else:
                    v = h.evaluate()
        except Exception as ex:  # noqa: BLE001
            evs.extend(slim(call_events(start)))
            evs.append(_raise_event(ex))
            pending.append(ex)
            return False
        calls = slim(call_events(start))
        evs.extend(calls)
        name = ("reevaluate" if again else "evaluate") + ("full" if full else "")
        if full:
            if not isinstance(v, dict):
                evs.append(lev(e=name, pairs=[["#notadict", to_json(v)]], n=len(calls)))
                return False
            evs.append(lev(e=name, pairs=[[str(a), to_json(b)] for a, b in v.items()], n=len(calls)))
        else:
            evs.append(lev(e=name, val=to_json(v), n=len(calls)))
        return True

    def evaluates(idx: int, h, through: bool = False) -> bool:
        """The evaluate() calls of one handle.  through: the first exception is not absorbed (it is about to leave the block)."""
        if len(items[idx]) <= 3:
            evs.append(lev(e="evalbegin"))
            return evaluate(idx, h, 0, False) and evaluate(idx, h, 1, True)
        returned = False
        for which in range(items[idx][3]):
            if not returned:
                evs.append(lev(e="evalbegin"))
            ok = evaluate(idx, h, which, returned)
            if not ok and (through or returned or evs[-1].get("cls") != FAULT_CLS):
                return False                 # not the exception of a fault plan, or raised by a handle that had returned
            returned = returned or ok
        return True

    if dagvar == "off":
        hb = build_one(0)
        if hb is None or not evaluates(0, hb[0]):
            return evs
        evs.append(lev(e="lend"))
        return evs

    exc = leave == "exc"
    alive: list = []                        # the handle that is alive when the block is left
    tgs: list = []

    def body(tg) -> bool:
        """The body of the with statement; False: the history ends here (something was raised or is about to be rejected)."""
        for idx in range(n):
            hb = build_one(idx)
            if hb is None:
                if exc and pending:
                    raise pending[0]                     # the refused call's exception leaves the block
                return False
            if idx == 0:
                graph_event(tg)
            if dagvar == "out":
                alive.append(hb[0])
                return True
            if not evaluates(idx, hb[0], through=exc):
                if exc and pending:
                    alive.append(hb[0])
                    raise pending[0]                     # evaluate() let a user function's exception through, and so does the body
                return False
            if idx == 0:
                graph_event(tg)
            # (before an exceptional exit of the body's own the last handle is dropped with the block still open in every other history)
            evs.append(lev(e="ldrop" if idx < n - 1 or (exc and k % 2 == 0) else "lend"))
        return True

    left_by_exc = False
    cont = False
    try:
        with construct_dag() as tg:
            tgs.append(tg)
            cont = body(tg)
            if exc and cont:
                raise BodyError("raised by the body of the with construct_dag() block")
    except Exception as ex:  # noqa: BLE001
        if not exc or not (isinstance(ex, BodyError) or (pending and ex is pending[0])):
            raise
        left_by_exc = True
        cont = isinstance(ex, BodyError)
    evs.append(lev(e="bleft", exc=left_by_exc, active=block_active()))
    if dagvar == "out":
        if not cont or not alive or not evaluates(0, alive[0]):
            return evs
        graph_event(tgs[0])
        evs.append(lev(e="lend"))
    elif left_by_exc and alive:
        evs.append(lev(e="lend"))            # the handle whose evaluate() raised is dropped after the block
    return evs


def lazy_history(pl, out: str, kw_pairs: list[list], mode: str, dagvar: str, k: int = 0) -> list[dict]:
    return block_history(pl, [(out, kw_pairs, mode)], dagvar, k)


def assemble(funcs: list[dict], asm: dict, tag: str, cache_type: str | None = None):
    """The real pipeline put together as the assembly says (PipelineLazy.tla, assembly): the listing cut into parts - Pipeline(part,
    lazy=flag) or a bare PipeFunc -, the parts joined by Pipeline.join / `|`, then the copies.  A user cache is a setting of the
    receiver (the first part).  Nothing here looks at the resulting pipeline's `lazy` attribute: the recorded history is judged."""
    parts, pos = [], 0
    for j, part in enumerate(asm["parts"]):
        fds = funcs[pos:pos + part["n"]]
        pos += part["n"]
        if part["kind"] == "func":
            parts.append(build.make_pipefunc(fds[0], tag))
        else:
            # (the receiver's cache is stated to be an unshared one - what a lazy pipeline's is anyway -, a setting every
            # derivation hands on: no pipeline of the assembly starts a manager process, whatever its lazy flag turns out to be)
            extra = ({"cache_type": cache_type, "cache_kwargs": {"shared": False} if cache_type in ("lru", "hybrid") else {}}
                     if cache_type and j == 0 else {})
            parts.append(build.make_pipeline({"funcs": fds, "lazy": part["lazy"], **extra}, tag=tag))
    if pos != len(funcs) or (asm["op"] == "direct") != (len(parts) == 1):
        raise MachineryError(f"assembly does not fit the description: {asm}")
    if asm["op"] == "direct":
        pl = parts[0]
    elif asm["op"] == "join":
        pl = parts[0].join(*parts[1:])
    else:
        pl = functools.reduce(operator.or_, parts)
    for upd in asm["post"]:
        pl = pl.copy() if upd == "copy" else pl.copy(lazy=upd == "copy_lazy")
    return pl


def with_asm(tdesc_ordered: dict, asm: dict | None) -> dict:
    """The description of a trace, with how its two pipelines were put together (asm: an exported {asm, twin} pair)."""
    return tdesc_ordered if asm is None else {**tdesc_ordered, "asm": asm["asm"], "easm": asm["twin"]}


def cache_asm(asm: dict | None) -> dict | None:
    """The assembly of a history WITH a user cache: only assemblies all of whose pipeline parts are lazy (the cache is the receiver's
    setting; an EAGER pipeline with a cache - given, or pipefunc's default for cache=True functions - keeps a shared one, run by a
    manager process, and an eager receiver turned lazy by .copy(lazy=True) would hand that setting on); otherwise the pipeline is
    constructed directly as before."""
    return asm if asm is not None and all(p["lazy"] or p["kind"] == "func" for p in asm["asm"]["parts"]) else None


def make_pair(pdesc_ordered: dict, cache_type: str | None = None, asm: dict | None = None):
    """The lazy pipeline and its eager twin, built from the same description (separate function objects).  A user cache
    (cache_type + the functions' cache flags) is given to the lazy pipeline only.  asm: an exported {asm, twin} pair: the two
    pipelines are put together as it says instead of being constructed directly."""
    with contextlib.redirect_stdout(io.StringIO()), warnings.catch_warnings():
        warnings.simplefilter("ignore")
        if asm is not None:
            return (assemble(pdesc_ordered["funcs"], asm["asm"], "L:", cache_type),
                    assemble([{**f, "cache": False} for f in pdesc_ordered["funcs"]], asm["twin"], "E:"))
        extra = {"cache_type": cache_type, "cache_kwargs": {}} if cache_type else {}
        lpl = build.make_pipeline({**pdesc_ordered, "lazy": True, **extra}, tag="L:")
        # (cache=True functions would give the twin pipefunc's default shared LRU cache: the twin stays cache-free)
        epl = build.make_pipeline({"funcs": [{**f, "cache": False} for f in pdesc_ordered["funcs"]], "lazy": False}, tag="E:")
    if not lpl.lazy or epl.lazy:
        raise MachineryError("build.make_pipeline did not honour desc['lazy']")
    return lpl, epl


def assembled_history(tdesc: dict, order: tuple, asm: dict, cuts: dict, k: int) -> dict:
    """A lazy pipeline that was PUT TOGETHER (asm: an exported assembly that yields a lazy pipeline, with its eager twin): every
    (output, valid cut) by one lazy history (calling convention and dag variant rotating), the eager twin in every other position,
    then one cut of every output as successive handles of one construct_dag() block."""
    pd = pcall.tla_desc_to_py(tdesc)
    lpl, epl = make_pair({"funcs": [pd["funcs"][i] for i in order]}, asm=asm)
    evs: list[dict] = []
    ci = 0
    for o in sorted(cuts):
        for c in cuts[o]:
            kw = [[x, pcall.kv(x)] for x in c]
            kk = k + ci
            if kk % 2 == 0:
                evs += eager_call(epl, o, kw, MODES[(kk // 2) % 4])
            evs += lazy_history(lpl, o, kw, MODES[kk % 4], DAGVARS[(kk + kk // 4) % 3], kk)
            ci += 1
    outs_with = [o for o in sorted(cuts) if cuts[o]]
    if len(outs_with) > 1:
        seq = outs_with if k % 2 == 0 else outs_with[::-1]
        evs += block_history(lpl, [(o, [[x, pcall.kv(x)] for x in cuts[o][(k // 2) % len(cuts[o])]], MODES[(k + j) % 4])
                                   for j, o in enumerate(seq)], "in", k)
    return {"desc": with_asm({"funcs": [tdesc["funcs"][i] for i in order]}, asm), "ev": evs, "order": list(order)}


def histories_for_case(case: dict, rng: random.Random, scheme: str, idx: int = 0, asms: list | None = None) -> list[dict]:
    """One history per listing order of the description.
    scheme "full": every (output, valid cut) in every order: eager twin, lazy without dag, lazy under construct_dag.
    scheme "lean": every (output, valid cut) in every order by one lazy history (calling convention and dag variant rotate
    with the order, so over the six orders of three functions every cut meets every dag variant twice), its eager twin
    and the surplus/missing variants in every third position."""
    tdesc = case["desc"]
    pdesc = pcall.tla_desc_to_py(tdesc)
    cuts = {o: sorted(tuple(sorted(c)) for c in cs) for o, cs in case["cuts"].items()}
    n = len(pdesc["funcs"])
    names = sorted({p for f in pdesc["funcs"] for p in f["params"]} | {o for f in pdesc["funcs"] for o in f["outputs"]})
    traces = []
    asms = asms or []

    def asm_for(slot: int, oi: int):
        """The assembly of a secondary history (every other position; rotating through the exported lazy assemblies)."""
        if not asms or (idx + oi + slot) % 2 == 0:
            return None
        return asms[(5 * idx + 3 * oi + 7 * slot) % len(asms)]

    for oi, order in enumerate(itertools.permutations(range(n))):
        d2 = {"funcs": [pdesc["funcs"][i] for i in order]}
        t2 = {"funcs": [tdesc["funcs"][i] for i in order]}
        lpl, epl = make_pair(d2)
        evs: list[dict] = []
        ci = 0                                   # running index of (output, cut) blocks; k = variant index
        for o in sorted(cuts):
            for c in cuts[o]:
                kw = [[x, pcall.kv(x)] for x in c]
                k = ci + oi
                if scheme == "full":
                    m = MODES[k % 4]
                    evs += eager_call(epl, o, kw, m)                      # eager twin
                    evs += lazy_history(lpl, o, kw, m, "off", k)                    # no construct_dag
                    evs += lazy_history(lpl, o, kw, MODES[(k + 1) % 4], "in" if (k // 4) % 2 == 0 else "out", k)
                else:
                    if k % 3 == 0:
                        evs += eager_call(epl, o, kw, MODES[(k // 3) % 4])
                    evs += lazy_history(lpl, o, kw, MODES[(k + oi // 4) % 4], DAGVARS[k % 3], k)
                ci += 1
            if cuts[o] and (scheme == "full" or (ci + oi) % 3 == 1):
                k = ci + oi
                c = rng.choice(cuts[o])
                kw = [[x, pcall.kv(x)] for x in c]
                extra = [x for x in names if x not in c and x != o]
                if extra:
                    x = rng.choice(extra)
                    evs += lazy_history(lpl, o, kw + [[x, pcall.kv(x)]], MODES[k % 4], ["off", "in"][k % 2], k)
                if c:
                    drop = rng.randrange(len(c))
                    evs += lazy_history(lpl, o, [p for i, p in enumerate(kw) if i != drop], MODES[(k + 2) % 4],
                                        ["in", "off"][k % 2], k)
            # all cuts of this output one after the other inside ONE construct_dag block (shared block cache)
            if len(cuts[o]) > 1 and (scheme == "full" or (ci + oi) % 3 == 2):
                cs = cuts[o] if oi % 2 == 0 else cuts[o][::-1]
                evs += block_history(lpl, [(o, [[x, pcall.kv(x)] for x in c], MODES[(ci + oi + j) % 4])
                                           for j, c in enumerate(cs)], "in", ci + oi)
            ci += 1
        # one block across the outputs (first cut each): later handles may reuse nodes of earlier ones
        outs_with = [o for o in sorted(cuts) if cuts[o]]
        if len(outs_with) > 1 and (scheme == "full" or oi % 3 == 0):
            seq = outs_with if oi % 2 == 0 else outs_with[::-1]
            evs += block_history(lpl, [(o, [[x, pcall.kv(x)] for x in cuts[o][(oi // 2) % len(cuts[o])]], MODES[(oi + j) % 4])
                                       for j, o in enumerate(seq)], "in", oi)
        traces.append({"desc": t2, "ev": evs, "order": list(order)})
        # the same description as a lazy pipeline that was put together from parts (join / | / copy) instead of constructed
        # (one listing order per description, alternating with the case index; the assemblies rotate with it)
        if asms and oi == (idx + 1) % math.factorial(n):
            traces.append(assembled_history(tdesc, order, asms[(idx + idx // len(asms)) % len(asms)], cuts, idx + oi))
        # the same description as a pipeline with a user cache: called before and then inside a construct_dag() block
        if scheme == "full" or oi % 3 == 0:
            v = oi + len(names)
            tc = with_cache(tdesc, ["first", "all", "last"][v % 3], CACHE_KINDS[(idx + oi // 3 + v // 3) % 4])
            traces.append(cached_history(tc, order, [(o, [[x, pcall.kv(x)] for x in root_cut(tdesc, cuts[o])])
                                                     for o in sorted(cuts) if cuts[o]], v, asm=asm_for(0, oi)))
        # the same description with a fault plan on its user functions.  Plan, variant and cuts rotate with the case index and
        # the order: over the universe every plan meets every variant and every dag variant / calling convention many times
        # (scheme "full": one per order; "lean": one in every third order)
        if scheme == "full" or oi % 3 == 1:
            plans = fault_plans(n)
            outs_c = [o for o in sorted(cuts) if cuts[o]]
            for vi, variant in enumerate([FAULT_VARIANTS[(idx + oi + oi // 3) % 3]]):
                v = idx // 3 + oi + vi
                plan = plans[(idx // 3 + 2 * oi) % len(plans)]
                seq = outs_c[::-1] if (variant == "share") == (v % 4 != 3) else outs_c      # share: mostly consumers first
                items = [(o, [[x, pcall.kv(x)] for x in
                              (root_cut(tdesc, cuts[o]) if variant == "cached" or (v + j) % 2 == 0 else cuts[o][(v + j) % len(cuts[o])])])
                         for j, o in enumerate(seq)]
                traces.append(fault_history(tdesc, order, plan, variant, items, v, asm=asm_for(1, oi)))
        # the same description in a history whose construct_dag() block is left through an exception, followed by calls outside
        # any block (variant, calling convention and cuts rotate with the case index; the listing order alternates with it)
        if oi == idx % math.factorial(n):
            outs_c = [o for o in sorted(cuts) if cuts[o]]
            if outs_c:
                v = idx + oi
                seq = outs_c[v % len(outs_c):] + outs_c[:v % len(outs_c)]
                items = [(o, [[x, pcall.kv(x)] for x in cuts[o][(v // 2 + j) % len(cuts[o])]]) for j, o in enumerate(seq)]
                traces.append(abort_history(tdesc, order, ABORT_VARIANTS[(idx // 2 + oi) % len(ABORT_VARIANTS)], items, v,
                                            asm=asm_for(2, oi)))
    return traces


def with_cache(tdesc: dict, which: str, cache_type: str) -> dict:
    """The description as a pipeline with a user cache: `which` functions (first | last | all, in the description's order) have
    cache=True."""
    n = len(tdesc["funcs"])
    sel = {"first": {0}, "last": {n - 1}, "all": set(range(n))}[which]
    return {"funcs": [{**f, "cache": i in sel} for i, f in enumerate(tdesc["funcs"])], "cache_type": cache_type}


def cached_history(tdesc_c: dict, order: tuple, items: list[tuple], k: int, asm: dict | None = None) -> dict:
    """A lazy pipeline WITH a user cache: every (out, kw) is called once outside any construct_dag() block (or inside an
    earlier block of its own), which leaves cached deferred nodes behind, and then again with the same inputs inside
    `with construct_dag()`: the recorded graph then mixes nodes created before the block with new ones."""
    pd = pcall.tla_desc_to_py(tdesc_c)
    asm = cache_asm(asm)
    d2 = {"funcs": [pd["funcs"][i] for i in order]}
    t2 = with_asm({"funcs": [tdesc_c["funcs"][i] for i in order], "cache_type": tdesc_c["cache_type"]}, asm)
    lpl, _ = make_pair(d2, cache_type=tdesc_c["cache_type"], asm=asm)
    evs: list[dict] = []
    for j, (o, kw) in enumerate(items):
        kk = k + j
        evs += block_history(lpl, [(o, kw, MODES[kk % 4])], "in" if kk % 3 == 2 else "off", kk)
        evs += block_history(lpl, [(o, kw, MODES[(kk + kk // 4) % 4])], "in" if kk % 2 == 0 else "out", kk)
    return {"desc": t2, "ev": evs, "order": list(order), "cached": True}


FAULT_VARIANTS = ["retry", "share", "cached"]


def fault_plans(n: int) -> list[dict]:
    """The fault plans of MC_PipelineLazy!FaultChoice on n functions (index -> 1: the first invocation raises, -1: every one)."""
    return [{i: 1} for i in range(n)] + [{i: -1} for i in range(n)] + [{i: 1 for i in range(n)}]


def fault_history(tdesc: dict, order: tuple, plan: dict, variant: str, items: list[tuple], k: int, asm: dict | None = None) -> dict:
    """One history on a fresh lazy pipeline / eager twin pair whose user functions follow a fault plan.
    plan: {index into tdesc.funcs: 1 (the first invocation raises) | -1 (every invocation raises)}; items: [(out, kw_pairs)].
    retry : per item three evaluate() calls on ONE handle (first item: next to three eager calls of the twin)
    share : the items as successive handles of ONE construct_dag() block, the first abandoned after a single evaluate()
            (the later ones share its nodes, the one that raised included), then the first item again outside any block
    cached: the pipeline has a user cache (every function cached); per item a handle abandoned after a single evaluate(), then a handle for the same
            inputs (which finds the earlier handle's nodes in the cache) evaluated twice"""
    n = len(tdesc["funcs"])
    # (every function cached: a cached consumer of an uncached producer keeps a producer node of its own, next to the one a
    # later full_output call creates - lazy x partial user cache is C09's subject, see the assumptions)
    tc = with_cache(tdesc, "all", "lru" if k % 5 == 4 else "simple") if variant == "cached" else tdesc
    asm = cache_asm(asm) if variant == "cached" else asm
    pd = pcall.tla_desc_to_py(tc)
    for i, kind in plan.items():
        pd["funcs"][i]["fail"] = {"when": 0 if kind == 1 else "*", "cls": FAULT_CLS, "args": ["fault in " + pd["funcs"][i]["name"]]}
    t2 = with_asm({"funcs": [tc["funcs"][i] for i in order], "faults": [plan.get(i, 0) for i in order]}, asm)
    if variant == "cached":
        t2["cache_type"] = tc["cache_type"]
    lpl, epl = make_pair({"funcs": [pd["funcs"][i] for i in order]}, cache_type=tc.get("cache_type"), asm=asm)
    evs: list[dict] = []
    if variant == "retry":
        for j, (o, kw) in enumerate(items):
            if j == 0:
                for a in range(3):
                    evs += eager_call(epl, o, kw, MODES[(k + a) % 4])
            evs += block_history(lpl, [(o, kw, MODES[(k + j) % 4], 3)], DAGVARS[(k + j) % 3], k + j)
    elif variant == "share":
        evs += block_history(lpl, [(o, kw, MODES[(k + j) % 4], 1 if j == 0 else 2) for j, (o, kw) in enumerate(items)], "in", k)
        o, kw = items[0]
        evs += block_history(lpl, [(o, kw, MODES[(k + 1) % 4], 2)], "off", k)
    else:
        for j, (o, kw) in enumerate(items):
            kk = k + j
            # (no construct_dag() here: which nodes of a recorded graph may be old is stated in terms of completed
            # invocations - memo - and the cache also holds the nodes of a handle that never completed)
            evs += block_history(lpl, [(o, kw, MODES[kk % 4], 1)], "off", kk)
            evs += block_history(lpl, [(o, kw, MODES[(kk + kk // 4) % 4], 2)], "off", kk)
    return {"desc": t2, "ev": evs, "order": list(order), "cached": variant == "cached", "fault": variant}


ABORT_VARIANTS = ["refused", "body", "fault", "unevaluated"]


def abort_history(tdesc: dict, order: tuple, variant: str, items: list[tuple], k: int, asm: dict | None = None) -> dict:
    """A construct_dag() block that is left through an exception, and what the program does afterwards outside any block.
    items: [(out, kw_pairs)], the first one is the main call.
    refused    : inside the block the main call (evaluated twice), then a call that is refused - a needed keyword dropped | the
                 requested output supplied | a surplus keyword - whose exception leaves the block
    body       : inside the block the main call (evaluated twice, dropped); the body then raises an exception of its own
    fault      : the function producing the requested output raises on its first invocation: evaluate() inside the block raises
                 and the exception leaves the block; the handle is dropped afterwards
    unevaluated: the handle is built inside the block, the body raises, the handle is evaluated afterwards
    afterwards : the eager twin; the main call again, without a block, on the same lazy pipeline or on one freshly built from the
                 same description (every needed function is invoked, exactly once: nothing of the block is left); then the main
                 call in a new block (its graph is recorded completely) or the second item without a block."""
    n = len(tdesc["funcs"])
    pd = pcall.tla_desc_to_py(tdesc)
    o0, kw0 = items[0]
    t2: dict = with_asm({"funcs": [tdesc["funcs"][i] for i in order]}, asm)
    if variant == "fault":
        i = next(j for j in range(n) if o0 in pd["funcs"][j]["outputs"])
        pd["funcs"][i]["fail"] = {"when": 0, "cls": FAULT_CLS, "args": ["fault in " + pd["funcs"][i]["name"]]}
        t2["faults"] = [1 if j == i else 0 for j in order]
    d2 = {"funcs": [pd["funcs"][i] for i in order]}
    lpl, epl = make_pair(d2, asm=asm)
    m = [MODES[(k + j) % 4] for j in range(4)]
    if variant == "refused":
        names = sorted({p for f in pd["funcs"] for p in f["params"]} | {o for f in pd["funcs"] for o in f["outputs"]})
        how = k % 3 if kw0 else 1 + k % 2
        if how == 0:
            bad = [p for j, p in enumerate(kw0) if j != (k // 3) % len(kw0)]
        elif how == 1:
            bad = kw0 + [[o0, pcall.kv(o0)]]
        else:
            extra = [x for x in names if x != o0 and all(x != a for a, _ in kw0)]
            bad = kw0 + [[extra[(k // 3) % len(extra)], pcall.kv(extra[(k // 3) % len(extra)])]] if extra else kw0 + [[o0, pcall.kv(o0)]]
        evs = block_history(lpl, [(o0, kw0, m[0]), (o0, bad, m[1])], "in", k, leave="exc")
    elif variant == "body":
        evs = block_history(lpl, [(o0, kw0, m[0])], "in", k, leave="exc")
    elif variant == "fault":
        evs = block_history(lpl, [(o0, kw0, m[0], 1)], "in", k, leave="exc")
    else:
        evs = block_history(lpl, [(o0, kw0, m[0])], "out", k, leave="exc")
    # afterwards: no block is active; nothing of the block is left
    evs += eager_call(epl, o0, kw0, m[1])
    if variant == "fault":
        evs += eager_call(epl, o0, kw0, m[2])            # (the twin's first call raised: its plan is its own)
        after = lpl                                       # (a freshly built pipeline would come with a fresh fault plan)
    else:
        after = make_pair(d2, asm=asm)[0] if k % 2 else lpl
    evs += block_history(after, [(o0, kw0, m[2], 2)], "off", k + 1)
    if k % 2 == 0:
        evs += block_history(lpl, [(o0, kw0, m[3])], "in" if k % 4 < 2 else "out", k + 2)
    elif len(items) > 1:
        evs += block_history(after, [(items[1][0], items[1][1], m[3])], "off", k + 3)
    tr = {"desc": t2, "ev": evs, "order": list(order), "abort": variant}
    if variant == "fault":
        tr["fault"] = "abort"
    return tr


def root_cut(tdesc: dict, cs: list) -> tuple:
    """A cut made of root names only, if there is one (the cache is not used when an intermediate is supplied)."""
    outs = {o for f in tdesc["funcs"] for o in f["outputs"]}
    return next((c for c in cs if not set(c) & outs), cs[0])


def random_history(rng: random.Random, tdesc: dict, asm: dict | None = None) -> dict:
    pdesc = pcall.tla_desc_to_py(tdesc)
    order = list(range(len(pdesc["funcs"])))
    rng.shuffle(order)
    lpl, epl = make_pair({"funcs": [pdesc["funcs"][i] for i in order]}, asm=asm)
    outs = [o for f in pdesc["funcs"] for o in f["outputs"]]
    evs: list[dict] = []
    for k in range(6):
        o = rng.choice(outs)
        combos = sorted(epl.arg_combinations(o))
        c = list(rng.choice(combos))
        r = rng.random()
        if r < 0.1 and c:
            c.pop(rng.randrange(len(c)))
        elif r < 0.2:
            extra = [x for x in outs + ["x", "y", "z", "w"] if x not in c and x != o]
            if extra:
                c.append(rng.choice(extra))
        kw = [[x, pcall.kv(x)] for x in c]
        evs += eager_call(epl, o, kw, rng.choice(MODES))
        evs += lazy_history(lpl, o, kw, rng.choice(MODES), rng.choice(DAGVARS), k)
    # a few calls inside one construct_dag block: valid combinations of one or two outputs
    items = []
    o1 = rng.choice(outs)
    for _ in range(rng.randint(2, 3)):
        o = o1 if rng.random() < 0.6 else rng.choice(outs)
        c = rng.choice(sorted(epl.arg_combinations(o)))
        items.append((o, [[x, pcall.kv(x)] for x in c], rng.choice(MODES)))
    evs += block_history(lpl, items, "in", 7)
    return {"desc": with_asm({"funcs": [tdesc["funcs"][i] for i in order]}, asm), "ev": evs, "order": order}


def random_cached_history(rng: random.Random, tdesc: dict, asm: dict | None = None) -> dict:
    order = list(range(len(tdesc["funcs"])))
    rng.shuffle(order)
    outs = [o for f in tdesc["funcs"] for o in f["outputs"]]
    roots = sorted({p for f in tdesc["funcs"] for p in f["params"]} - set(outs))
    n = len(tdesc["funcs"])
    sel = set(rng.sample(range(n), rng.randint(1, n)))
    tc = {"funcs": [{**f, "cache": i in sel} for i, f in enumerate(tdesc["funcs"])], "cache_type": rng.choice(["simple", "lru", "hybrid"])}
    with contextlib.redirect_stdout(io.StringIO()):
        probe = build.make_pipeline(pcall.tla_desc_to_py(tdesc), tag="P:")
    items = []
    for o in rng.sample(outs, min(3, len(outs))):
        combos = sorted(probe.arg_combinations(o))
        c = next((c for c in combos if set(c) <= set(roots)), combos[0])
        items.append((o, [[x, pcall.kv(x)] for x in c]))
    return cached_history(tc, tuple(order), items, rng.randrange(12), asm=asm)


def random_fault_history(rng: random.Random, tdesc: dict, asm: dict | None = None) -> dict:
    """A random DAG with a random fault plan (one or two faulty functions, transient or persistent), a random variant, two or
    three requested outputs (the later functions - the consumers - preferred) under valid argument combinations."""
    n = len(tdesc["funcs"])
    order = list(range(n))
    rng.shuffle(order)
    plan = {i: rng.choice([1, 1, -1]) for i in rng.sample(range(n), rng.choice([1, 1, 2]))}
    variant = rng.choice(FAULT_VARIANTS)
    outs = [o for f in tdesc["funcs"] for o in f["outputs"]]
    with contextlib.redirect_stdout(io.StringIO()):
        probe = build.make_pipeline(pcall.tla_desc_to_py(tdesc), tag="P:")
    roots = {p for f in tdesc["funcs"] for p in f["params"]} - set(outs)
    picked = sorted(rng.sample(outs, min(rng.randint(2, 3), len(outs))), key=outs.index, reverse=True)
    items = []
    for o in picked:
        combos = sorted(probe.arg_combinations(o))
        rootc = [c for c in combos if set(c) <= roots]
        c = rng.choice(rootc) if rootc and (variant == "cached" or rng.random() < 0.7) else rng.choice(combos)
        items.append((o, [[x, pcall.kv(x)] for x in c]))
    return fault_history(tdesc, tuple(order), plan, variant, items, rng.randrange(12), asm=asm)


def random_abort_history(rng: random.Random, tdesc: dict, asm: dict | None = None) -> dict:
    """A random DAG in a history whose construct_dag() block is left through an exception (random variant, two or three requested
    outputs under valid argument combinations, the consumers preferred as the main call)."""
    n = len(tdesc["funcs"])
    order = list(range(n))
    rng.shuffle(order)
    outs = [o for f in tdesc["funcs"] for o in f["outputs"]]
    with contextlib.redirect_stdout(io.StringIO()):
        probe = build.make_pipeline(pcall.tla_desc_to_py(tdesc), tag="P:")
    picked = sorted(rng.sample(outs, min(rng.randint(2, 3), len(outs))), key=outs.index, reverse=True)
    items = [(o, [[x, pcall.kv(x)] for x in rng.choice(sorted(probe.arg_combinations(o)))]) for o in picked]
    return abort_history(tdesc, tuple(order), rng.choice(ABORT_VARIANTS), items, rng.randrange(12), asm=asm)


# worker-process entry points (fork pool; every task is seeded by its own index: deterministic for a given --seed)
def _w_case(arg: tuple) -> list[dict]:
    idx, case, seed, scheme, asms = arg
    build.LOG.clear()
    return histories_for_case(case, random.Random(seed * 1_000_003 + idx), scheme, idx, asms)


def random_asm_picks(seed: int, idx: int, asms: dict[int, list]) -> dict[int, list]:
    """Per number of functions of the random DAG (3..6): how each of the four random histories of task idx gets its pipelines: None
    (constructed directly) or one of the exported lazy assemblies (drawn by the main process: the workers' own random streams, and
    with them the random DAGs, are what they were without assemblies)."""
    rng = random.Random(seed * 1_000_003 + 900_000 + idx)
    return {n: [rng.choice(asms[n]) if asms.get(n) and rng.random() < 0.5 else None for _ in range(4)] for n in range(3, 7)}


def _w_random(arg: tuple) -> list[dict]:
    idx, seed, picks = arg
    rng = random.Random(seed * 1_000_003 + 500_000 + idx)
    build.LOG.clear()
    td = c02.random_desc(rng, rng.randint(3, 6))
    a = picks[len(td["funcs"])]
    return [random_history(rng, td, a[0]), random_cached_history(rng, td, a[1]), random_fault_history(rng, td, a[2]),
            random_abort_history(rng, td, a[3])]


# ---- verdicts ------------------------------------------------------------------------------------------
def segment(evs: list[dict], reached: int) -> tuple[int, int]:
    """[start, end) of the top-level call (begin.. / lbegin..lend; a construct_dag block with several handles is one unit)
    containing event `reached` (1-based)."""
    def starts(x: dict) -> bool:
        return x["e"] == "begin" or (x["e"] == "lbegin" and x.get("blk", 0) == 0)
    i = reached - 1
    s = max(k for k in range(i + 1) if starts(evs[k]))
    e = next((k for k in range(i + 1, len(evs)) if starts(evs[k])), len(evs))
    return s, e


def classify(tr: dict, reached: int) -> dict:
    evs = tr["ev"]
    e = evs[reached - 1]
    s0, _ = segment(evs, reached)
    s = max(k for k in range(s0, reached) if evs[k]["e"] in ("begin", "lbegin"))      # this handle's own lbegin
    b = evs[s]
    before = [x["e"] for x in evs[s:reached - 1]]
    if b["e"] == "begin":
        stage = "eager-twin"
    elif "build" not in before:
        stage = "build"
    elif "evalbegin" not in before:
        stage = "built-not-evaluated"
    elif not any(x.startswith("evaluate") for x in before):
        stage = "first-evaluate"
    elif not any(x.startswith("reevaluate") for x in before):
        stage = "re-evaluate"
    else:
        stage = "after-evaluates"
    sig = {"check": "lazy-history", "event": e["e"], "stage": stage, "cls": e.get("cls", ""), "mode": b["mode"],
           "dag": bool(b.get("dag", False)), **c02.features(tr["desc"], b["out"], b["kw"])}
    outs = {o for f in tr["desc"]["funcs"] for o in f["outputs"]}
    # how the pipeline under call was obtained: constructed directly, or put together from parts (join / | / copy)
    asm = tr["desc"].get("asm")
    sig["assembly"] = asm["op"] if asm else "constructor"
    if asm:
        sig["assembly_copies"] = list(asm["post"])
    sig["user_cache"] = bool(tr["desc"].get("cache_type"))
    if sig["user_cache"]:
        sig["cache_type"] = tr["desc"]["cache_type"]
    # fault plan of the pipeline ("none" | "transient" | "persistent" | "mixed"), and whether an evaluate() of THIS handle /
    # an earlier call on the pipeline had raised the fault's exception before the rejected event
    kinds = {x for x in tr["desc"].get("faults", []) if x}
    sig["faults"] = "none" if not kinds else "mixed" if len(kinds) > 1 else "transient" if kinds == {1} else "persistent"
    if kinds:
        sig["fault_variant"] = tr.get("fault", "")
        sig["after_failed_evaluate"] = any(x["e"] == "raise" and x["cls"] == FAULT_CLS for x in evs[s:reached - 1])
        sig["after_failed_call_on_pipeline"] = any(x["e"] == "raise" and x["cls"] == FAULT_CLS for x in evs[:s])
    sig["shared_block"] = b.get("blk", 0) > 0
    # construct_dag() blocks left through an exception: in this history before the rejected event / the rejected exit itself,
    # and what task_graph() reported at the rejected call or exit
    sig["after_block_left_by_exception"] = any(x["e"] == "bleft" and x["exc"] for x in evs[:reached - 1])
    if tr.get("abort"):
        sig["abort_variant"] = tr["abort"]
    if e["e"] == "bleft":
        sig["left_by_exception"] = e["exc"]
    if "active" in e:
        sig["block_reported_active"] = e["active"]
    if sig["shared_block"]:
        # some call of the block so far (this one included) supplies a value for a function output
        sig["block_supplied_intermediate"] = any(x["e"] == "lbegin" and any(nm in outs for nm, _ in x["kw"])
                                                 for x in evs[s0:s + 1])
    if e["e"] == "call":
        sig["repeated_invocation"] = any(x["e"] == "call" and x["f"] == e["f"] for x in evs[s:reached - 1])
    if e["e"] == "build":
        sig["calls_while_building"] = e["n"]
    if e["e"] == "graph":
        sig["node_kinds"] = sorted({n["kind"] for n in e["nodes"]})
    return sig


def report(ctx: Ctx, tr: dict, reached: int) -> None:
    evs = tr["ev"]
    reached = max(1, min(reached, len(evs)))
    sig = classify(tr, reached)
    s, e = segment(evs, reached)
    ctx.violation(sig, f"lazy pipeline history not explained by PipelineLazy.tla at event {reached} "
                       f"({evs[reached - 1]['e']}, stage {sig['stage']}): {json.dumps(evs[reached - 1])[:600]}",
                  {"desc": tr["desc"], "call": evs[s], "events": evs[s:min(e, reached + 2)], "rejected_at": reached - s})


def count_cases(ctx: Ctx, traces: list[dict]) -> None:
    for t in traces:
        evs = t["ev"]
        i = 0
        while i < len(evs):
            j = i + 1
            while j < len(evs) and evs[j]["e"] not in ("begin", "lbegin"):
                j += 1
            if evs[i]["e"] == "lbegin":
                ncalls = sum(1 for e in evs[i:j] if e["e"] == "call")
                ctx.case({"d": t["desc"], "c": evs[i]}, nontrivial=ncalls > 0)
            i = j


# JVM tuning only (no effect on what TLC computes): few GC threads per process - many TLC processes run side by side -, and for
# the short single-worker trace validations the C1 compiler only (their CPU time is otherwise dominated by C2 compilation)
JVM_MC = "-XX:ParallelGCThreads=2"
JVM_TRACE = "-XX:TieredStopAtLevel=1 -XX:ParallelGCThreads=2"


def tlc_job(module: str, cfg: str, workdir, **kw):
    """run_tlc, repeated once when the JVM was killed from outside (exit -9: the kernel's OOM killer on a shared machine)."""
    kw["env"] = {"JDK_JAVA_OPTIONS": JVM_TRACE if module.startswith("Trace") else JVM_MC, **(kw.get("env") or {})}
    try:
        return run_tlc(module, cfg, workdir, **kw)
    except MachineryError as ex:
        if "TLC exit -9" not in str(ex):
            raise
        return run_tlc(module, cfg, workdir, **kw)


def validate_traces(ctx, module: str, traces: list[dict], name: str, *, invariants: list[str], strip: tuple = (),
                    chunk: int = 4000, count: bool = True) -> dict[int, int]:
    """tracekit.validate_traces (same convention, same cfg) with a 1 GB heap per single-worker TLC process - up to 16 run side
    by side - and one retry for a process killed from outside.  Returns {trace index: event index reached} for rejected traces."""
    if not traces:
        return {}
    chunks = [list(range(i, min(i + chunk, len(traces)))) for i in range(0, len(traces), chunk)]
    cfg = TRACE_CFG.format(invs="\n".join(f"INVARIANT {i}" for i in invariants))

    def one(ci: int):
        wd = ctx.workdir(f"tv_{module}_{name}_{ci}")
        f = wd / "traces.ndjson"
        with f.open("w") as fh:
            for i in chunks[ci]:
                fh.write(json.dumps({k: v for k, v in traces[i].items() if k not in strip}, separators=(",", ":")) + "\n")
        return ci, tlc_job(module, cfg, wd, workers=1, env={"TRACE_FILE": str(f)}, timeout=1800, heap="1g")

    rejected: dict[int, int] = {}
    with ThreadPoolExecutor(max_workers=8) as ex:
        for ci, r in ex.map(one, range(len(chunks))):
            if r.violated:
                raise MachineryError(f"{module}: invariant {r.violated} violated during trace validation (the spec itself is "
                                     f"inconsistent):\n{r.stdout[-3000:]}")
            if count:
                ctx.add_tlc(r, f"{module} {name} chunk {ci} ({len(chunks[ci])} traces)")
            for tag, payload in parse_prints(r.prints):
                if tag == "REJECT":
                    rejected[chunks[ci][payload[0] - 1]] = max(payload[1], 1)
            if "Evaluating postcondition" not in r.stdout and "Accepted" not in r.stdout and r.distinct == 0:
                raise MachineryError(f"{module}: no states explored:\n{r.stdout[-2000:]}")
    if count:
        ctx.traces_validated += len(traces) - len(rejected)
    return rejected


def windowed(procs, fn, args: list, window: int) -> Iterator[list[dict]]:
    """Results of fn over args, in order, produced by the worker processes window by window (bounded memory: the workers
    do not run ahead of validation by more than one window)."""
    for i in range(0, len(args), window):
        yield from procs.map(fn, args[i:i + window], chunksize=max(1, min(8, window // 40)))


class _BatchCtx:
    """What tracekit.validate_traces needs from a context, collected per batch and merged by the main thread."""

    def __init__(self, ctx: Ctx) -> None:
        self._ctx = ctx
        self.runs: list = []
        self.traces_validated = 0

    def workdir(self, name: str):
        return self._ctx.workdir(name)

    def add_tlc(self, r, what: str = ""):
        self.runs.append((r, what))
        return r


def stream_validate(ctx: Ctx, name: str, trace_lists: Iterable[list[dict]], *, batch: int, chunk: int, invs: list[str],
                    keep: list[dict] | None = None, keep_n: int = 0) -> dict:
    """Consume generated histories, validate them in batches (two batches in flight, each up to 8 single-worker TLC
    processes) and report rejections in generation order.  Histories are dropped after validation (memory)."""
    vpool = ThreadPoolExecutor(max_workers=2)
    pending: list = []
    stats = {"histories": 0, "events": 0}

    def job(bi: int, trs: list[dict]):
        bctx = _BatchCtx(ctx)
        rej = validate_traces(bctx, "TracePipelineLazy", trs, f"{name}{bi}", invariants=invs, strip=STRIP, chunk=chunk)
        return bctx, [(r, trs[i]) for i, r in sorted(rej.items())]

    def submit(trs: list[dict]) -> None:
        inflight = [f for f in pending if not f.done()]
        if len(inflight) >= 2:
            inflight[0].exception()          # wait; errors surface when the results are merged below
        pending.append(vpool.submit(job, len(pending), trs))

    cur: list[dict] = []
    for trs in trace_lists:
        count_cases(ctx, trs)
        stats["histories"] += len(trs)
        stats["events"] += sum(len(t["ev"]) for t in trs)
        if keep is not None and len(keep) < keep_n:
            keep.extend(trs)
        cur.extend(trs)
        if len(cur) >= batch:
            submit(cur)
            cur = []
    if cur:
        submit(cur)
    for fut in pending:                      # merge in submission order, in this thread (ctx is not thread-safe)
        bctx, rejected = fut.result()
        for r, what in bctx.runs:
            ctx.add_tlc(r, what)
        ctx.traces_validated += bctx.traces_validated
        for reached, tr in rejected:
            report(ctx, tr, reached)
    vpool.shutdown()
    return stats


# ---- main ----------------------------------------------------------------------------------------------
def run(ctx: Ctx) -> None:
    quick = ctx.tier == "quick"
    ctx.rule = ("case = one lazy top-level call (description in a listing order, requested output, keyword set, calling "
                "convention pipeline()/run/func/full_output, construct_dag off / active during evaluation / left before "
                "evaluation) with its eager twin call: build, evaluate, evaluate again, task graph before and after; per output "
                "additionally all its valid cuts, and per order one cut of every output, as successive handles inside ONE "
                "construct_dag block; every description additionally as a pipeline with a user cache (cache_type simple/lru, "
                "first/last/all functions cached) called once before and then again, same inputs, inside a construct_dag block "
                "(the recorded graph mixes nodes created before the block with new ones - cache_type simple only: with lru / "
                "hybrid the block works on its own cache and the graph must be complete); every description additionally in a "
                "history whose construct_dag() block is left through an exception (of a call refused inside it: keyword dropped / "
                "output supplied / surplus keyword | of the body itself, handle evaluated and dropped | of a user function that "
                "evaluate() let through | of the body, handle still unevaluated), followed outside any block by the eager twin, "
                "the same call on the same or a freshly built lazy pipeline, and a new block or another output; every begin / "
                "lbegin / block exit carries what lazy.task_graph() reports; every description in every order "
                "additionally with a fault plan on its user functions (one function raising on its first invocation / on every "
                "invocation, all raising on their first; plan and variant rotate with the case): three successive eager calls "
                "next to three successive evaluate() calls on one handle | a handle abandoned after an evaluate() that raised, "
                "then the other outputs as further handles of the same construct_dag block (sharing its nodes), then the first "
                "again outside | the same through a user cache (all functions cached); every description (one listing order, alternating) "
                "additionally on a lazy pipeline that was PUT TOGETHER instead of constructed - one of the TLC-exported lazy "
                "assemblies, rotating: the listing cut into up to three parts (lazy or eager pipelines, bare PipeFuncs) joined by "
                "Pipeline.join or `|`, then nothing / .copy() / .copy(lazy=...) - with its eager twin put together the same way from "
                "eager parts: every valid cut by one lazy history, one block across the outputs; the cache / fault / abort "
                "histories and the random DAGs on assembled pipelines in every other position; "
                "descriptions are ALL members of the TLA+-defined universe of MC_PipelineCall (2 functions quick / 2 rich + 3 "
                "functions thorough: parameters from 3 roots and earlier outputs, diamonds, tuple outputs, defaults, bound "
                "and shadowing bound values), all listing orders, every valid cut (2 functions: in every order without dag "
                "and under construct_dag, each with its eager twin; 3 functions: in every order one lazy history, calling "
                "convention and dag variant rotating, eager twin every third) plus surplus and missing-argument variants; plus random DAGs up to 6 functions (each also with a random fault plan and variant); non-trivial = at least one user "
                "function executed")
    ctx.assumptions = ["TLC and the JSON encoding are trusted", "user functions are free term constructors (build.py)",
                       "node identity in the task graph is read off _LazyFunction.func (the pipeline's PipeFunc wrapping the "
                       "harness function, or its output_picker)",
                       "user caches only in the before-the-block/inside-the-block histories (same inputs); other lazy x cache "
                       "interaction belongs to C09; in-memory kinds only (simple, lru, hybrid - no disk cache)",
                       "with a user cache of the kind the block itself keeps (simple) tasks created before the block may be "
                       "missing from the recorded graph (stated don't-care, TaskGraphOKFor); with every other kind the graph "
                       "must be complete",
                       "assembled pipelines: a derived pipeline has the settings of the pipeline it is a copy of (join / | : the "
                       "receiver); an eager receiver collecting the functions of lazy pipelines is a stated don't-care (not in "
                       "the assembly universe); a user cache is a setting of the receiver, and histories with a user cache use "
                       "assemblies made of lazy pipelines and bare functions only",
                       "whether a construct_dag() block is active is observed through pipefunc.lazy.task_graph()",
                       "faults: a harness function raises HarnessError('fault in <name>') on its first invocation or on every one "
                       "(build.py failure injection); with a user cache only pipelines whose functions are all cached, outside "
                       "construct_dag() (a cached consumer of an UNCACHED producer keeps its own producer node next to the one a "
                       "later full_output call creates, so that producer runs twice in one evaluate() when the earlier handle "
                       "never completed - lazy x partial user cache, C09's subject; and which nodes of a recorded graph may "
                       "predate the block is stated through completed invocations)",
                       "handles of one construct_dag() block are built and evaluated one after the other (one live handle); "
                       "whether a later handle re-invokes a function already invoked with identical arguments for an earlier "
                       "handle of the block is a stated don't-care (memo/Reused in PipelineLazy.tla)"]
    # worker processes first (fork before any thread exists), then the model-checking runs in background threads
    procs = multiprocessing.get_context("fork").Pool(4 if quick else 10)
    pool = ThreadPoolExecutor(max_workers=8)
    mc_jobs = []
    try:
        both = '{"call", "full"}'

        def mc(what: str, wd: str, workers: int, heap: str = "3g", nshards: int = 1, modes: str = both, ucache: str = "FALSE",
               faults: str = "FALSE", maxfail: int = 0, spec: str = "LBSpec", shards: Iterable[int] | None = None,
               ckinds: str = '{"simple"}', **consts) -> None:
            for sh in (range(nshards) if shards is None else shards):
                label = what + (f" shard {sh + 1}/{nshards}" if nshards > 1 else "") + " (deadlock checking on)"
                mc_jobs.append((label, pool.submit(
                    tlc_job, "MC_PipelineLazy", BCFG.format(shard=sh, nshards=nshards, modes=modes, ucache=ucache, faults=faults,
                                                            maxfail=maxfail, spec=spec, ckinds=ckinds, **consts),
                    ctx.workdir(f"{wd}_{sh}"), workers=workers, deadlock=True, allow_violation=False, timeout=6000, heap=heap)))

        if quick:
            mc("LBSpec N=2, all keyword sets", "b2", 4, n=2, rich="FALSE", maxev=2, allkw="TRUE", maxh=1)
            mc("LBSpec N=2, valid cuts, 2 handles per construct_dag block", "b2s", 3, n=2, rich="FALSE", maxev=2,
               allkw="FALSE", maxh=2)
            # (the longest run: split in two by DescHash so that it does not decide the wall time)
            mc("LBSpec N=2, valid cuts, user cache (first / all functions flagged)", "b2c", 3, nshards=2, modes='{"call"}',
               ucache="TRUE", n=2, rich="FALSE", maxev=2, allkw="FALSE", maxh=1)
            # a user cache of another kind than the one a construct_dag() block keeps (lru): nothing created before the block may
            # take part in its graph, every single-step corruption of the complete graph is rejected however full the cache is;
            # quick: one part in eight of the description universe (as for the fault plans), thorough: all
            mc("LBSpec N=2, valid cuts, user cache of a kind the block replaces (lru)", "b2l", 2, heap="2g", nshards=8, shards=[5],
               modes='{"call"}', ucache="TRUE", ckinds='{"lru"}', n=2, rich="FALSE", maxev=2, allkw="FALSE", maxh=1)
            # fault plans (FaultChoice: each function raising once / always, all raising once): evaluate() calls that raise
            # followed by further ones; quick: one part in eight of the description universe (DescHash = 5 mod 8: a function of
            # two parameters followed by one of one parameter, 36 descriptions x 6 plans), pipeline() convention; thorough: all
            mc("LBSpec N=2, valid cuts, fault plans, up to 2 evaluate() calls that raise per handle", "b2f", 2, heap="2g",
               nshards=8, shards=[5], modes='{"call"}', faults="TRUE", maxfail=2, n=2, rich="FALSE", maxev=2,
               allkw="FALSE", maxh=1)
            mc("EBSpec N=2, valid cuts, fault plans: the eager twin", "e2f", 1, heap="1g", nshards=4, shards=[ctx.seed % 4],
               modes='{"call"}', faults="TRUE", maxfail=2, spec="EBSpec", n=2, rich="FALSE", maxev=2, allkw="FALSE", maxh=1)
            exports = [("LUSpec N=2", dict(n=2, rich="FALSE"), "u2", "3g", "full")]
        else:
            mc("LBSpec N=2 rich, all keyword sets, 3 evaluates", "b2r", 3, n=2, rich="TRUE", maxev=3, allkw="TRUE", maxh=1)
            mc("LBSpec N=2 rich, valid cuts, 2 handles per construct_dag block", "b2s", 3, n=2, rich="TRUE", maxev=2,
               allkw="FALSE", maxh=2)
            mc("LBSpec N=2 rich, valid cuts, user cache (first / all functions flagged)", "b2c", 3, ucache="TRUE",
               n=2, rich="TRUE", maxev=2, allkw="FALSE", maxh=1)
            mc("LBSpec N=2, valid cuts, user cache of a kind the block replaces (lru)", "b2l", 3, ucache="TRUE", ckinds='{"lru"}',
               n=2, rich="FALSE", maxev=2, allkw="FALSE", maxh=1)
            mc("LBSpec N=2, all keyword sets (refused calls), 2 handles per construct_dag block, pipeline() convention", "b2x", 3,
               modes='{"call"}', n=2, rich="FALSE", maxev=2, allkw="TRUE", maxh=2)
            mc("LBSpec N=3, valid cuts, pipeline()/run()/func() convention", "b3", 2, heap="2g", nshards=3, modes='{"call"}',
               n=3, rich="FALSE", maxev=2, allkw="FALSE", maxh=1)
            mc("LBSpec N=2, valid cuts, fault plans, up to 2 evaluate() calls that raise per handle", "b2f", 2, heap="2g",
               nshards=4, faults="TRUE", maxfail=2, n=2, rich="FALSE", maxev=2, allkw="FALSE", maxh=1)
            mc("LBSpec N=2, valid cuts, fault plans, 2 handles per construct_dag block, pipeline() convention", "b2fs", 2,
               heap="2g", nshards=4, modes='{"call"}', faults="TRUE", maxfail=2, n=2, rich="FALSE", maxev=2, allkw="FALSE", maxh=2)
            mc("LBSpec N=2, valid cuts, fault plans, user cache, pipeline() convention", "b2fc", 2, heap="3g", nshards=8,
               shards=[4, 5], modes='{"call"}', ucache="TRUE", faults="TRUE", maxfail=2, n=2, rich="FALSE", maxev=2,
               allkw="FALSE", maxh=1)
            mc("EBSpec N=2 rich, valid cuts, fault plans: the eager twin", "e2f", 2, heap="2g", faults="TRUE", maxfail=2,
               spec="EBSpec", n=2, rich="TRUE", maxev=2, allkw="FALSE", maxh=1)
            exports = [("LUSpec N=2 rich", dict(n=2, rich="TRUE"), "u2r", "3g", "full"),
                       ("LUSpec N=3", dict(n=3, rich="FALSE"), "u3", "3g", "lean")]
        exp_jobs = [(what, scheme, pool.submit(tlc_job, "MC_PipelineLazy", UCFG.format(**consts), ctx.workdir(wd), workers=2,
                                               allow_violation=False, timeout=6000, heap=heap))
                    for what, consts, wd, heap, scheme in exports]
        # the assemblies (laws + export; every description of one shard x every assembly); its result is needed before any history
        r = tlc_job("MC_PipelineLazy", ACFG.format(n=2, rich="FALSE", shard=5 if quick else 0, nshards=8 if quick else 1, maxn=ASM_MAXN),
                    ctx.workdir("asm"), workers=2, allow_violation=False, timeout=6000, heap="2g")
        ctx.add_tlc(r, f"LUSpec N=2{' shard 6/8' if quick else ''} x every assembly (join / | / copy; lazy or not): handle exactly from a lazy pipeline; "
                       f"laws of the flag operators on assemblies of 1..{ASM_MAXN} functions; lazy assemblies exported")
        asms: dict[int, list] = {p["n"]: sorted(p["asms"], key=lambda a: json.dumps(a, sort_keys=True))
                                 for t, p in parse_prints(r.prints) if t == "ASMS"}
        if sorted(asms) != list(range(1, ASM_MAXN + 1)) or not all(asms.values()) or r.distinct == 0:
            raise MachineryError(f"assembly export incomplete: {sorted(asms)} ({r.distinct} states)")
        ctx.extra["lazy_assemblies_exported"] = {str(n): len(v) for n, v in asms.items()}
        kept: list[dict] = []
        ncases = 0
        stats = {}
        for what, scheme, fut in exp_jobs:
            r = fut.result()
            ctx.add_tlc(r, what)
            cases = sorted((p for t, p in parse_prints(r.prints) if t == "CASE"), key=lambda c: json.dumps(c, sort_keys=True))
            if not cases or len(cases) != r.distinct:
                raise MachineryError(f"{what}: {len(cases)} cases printed for {r.distinct} states")
            args = [(ncases + i, c, ctx.seed, scheme, asms.get(len(c["desc"]["funcs"]), [])) for i, c in enumerate(cases)]
            ncases += len(cases)
            stats[what] = stream_validate(ctx, "u" + what.split("=")[1].replace(" ", ""), windowed(procs, _w_case, args, 500),
                                          batch=560 if scheme == "full" else 6000, chunk=70 if scheme == "full" else 750,
                                          invs=TRACE_INVS if scheme == "full" else TRACE_INVS_LIGHT, keep=kept, keep_n=400)
        mid = kept[len(kept) // 2]
        gi = [k for k, x in enumerate(mid["ev"]) if x["e"] == "graph"]
        s, e = segment(mid["ev"], gi[0] + 1) if gi else (0, 10)
        ctx.sample({"desc": mid["desc"], "events": mid["ev"][s:e]})
        ctx.exhaustive = False

        nrand = 150 if quick else 2500
        rkept: list[dict] = []
        stats["random"] = stream_validate(ctx, "rand", windowed(procs, _w_random, [(i, ctx.seed, random_asm_picks(ctx.seed, i, asms)) for i in range(nrand)], 500),
                                          batch=200 if quick else 1250, chunk=50 if quick else 160, invs=TRACE_INVS,
                                          keep=rkept, keep_n=1)
        ctx.sample({"random_desc": rkept[0]["desc"], "events": rkept[0]["ev"][:12]})
        selftest(ctx, kept)
        for what, fut in mc_jobs:
            ctx.add_tlc(fut.result(), what)
    finally:
        procs.terminate()
        pool.shutdown(wait=False, cancel_futures=True)
    ctx.extra["universe_descriptions"] = ncases
    ctx.extra["histories"] = stats


def selftest(ctx: Ctx, traces: list[dict]) -> None:
    """Binding self-test: corrupt exactly one recorded field/event in each of several accepted histories and require TLC to
    reject exactly those, at exactly the corrupted event; the untouched copies must stay accepted."""
    def pick(pred) -> dict:
        for t in traces:
            if pred(t["ev"]):
                return copy.deepcopy(t)
        raise MachineryError("self-test: no suitable history")

    def first(evs, pred, start=0) -> int:
        return next(k for k in range(start, len(evs)) if pred(evs[k]))

    def has_eval_calls(evs) -> bool:
        return any(evs[k]["e"] == "evalbegin" and evs[k + 1]["e"] == "call" for k in range(len(evs) - 1))

    def has_edges(evs) -> bool:
        return any(x["e"] == "graph" and x["edges"] for x in evs)

    def retry_at(evs) -> int:
        """Index of the `callfail` of a lazy evaluate() that raised and whose retry invokes the same function last:
        callfail f | raise | evalbegin | call f | evaluate(full)"""
        for k in range(len(evs) - 4):
            a, b, c, dd, e = evs[k:k + 5]
            if (a["e"] == "callfail" and b["e"] == "raise" and c["e"] == "evalbegin" and dd["e"] == "call" and dd["f"] == a["f"]
                    and e["e"] in ("evaluate", "evaluatefull")):
                return k
        return -1

    def left_by_exc(evs) -> bool:
        """a block left through an exception, followed by an eager and a lazy call outside any block"""
        ks = [k for k, x in enumerate(evs) if x["e"] == "bleft" and x["exc"]]
        return bool(ks) and any(x["e"] == "begin" for x in evs[ks[0]:]) and any(x["e"] == "lbegin" and not x["dag"] for x in evs[ks[0]:])

    def foreign_cache_block(tr) -> int:
        """Index of a graph event with edges recorded for a pipeline whose user cache is of another kind than the block's, after
        an earlier call with the same inputs (-1: none)"""
        if tr["desc"].get("cache_type") not in ("lru", "hybrid"):
            return -1
        evs = tr["ev"]
        for k, x in enumerate(evs):
            if x["e"] == "graph" and len([n for n in x["nodes"] if n["kind"] == "func"]) > 1 and x["edges"]:
                b = max(j for j in range(k) if evs[j]["e"] == "lbegin")
                if any(y["e"] == "lbegin" and y["out"] == evs[b]["out"] and y["kw"] == evs[b]["kw"] for y in evs[:b]):
                    return k
        return -1

    def joined(tr) -> bool:
        """a history on a pipeline joined from several parts (no copy that states the flag) with calls on both pipelines"""
        a = tr["desc"].get("asm")
        return (bool(a) and a["op"] in ("join", "or") and all(u == "copy" for u in a["post"])
                and any(x["e"] == "begin" for x in tr["ev"]) and any(x["e"] == "lbegin" for x in tr["ev"]))

    try:
        good = [pick(has_eval_calls), pick(has_edges), pick(lambda evs: retry_at(evs) >= 0), pick(left_by_exc),
                copy.deepcopy(next((t for t in traces if foreign_cache_block(t) >= 0), None)),
                copy.deepcopy(next((t for t in traces if joined(t)), None))]
        if good[4] is None:
            raise MachineryError("self-test: no history with a user cache of a kind the block replaces")
        if good[5] is None:
            raise MachineryError("self-test: no history on a joined pipeline")
    except MachineryError:
        if not ctx.violations:
            raise
        # the tree under test violates the property in a way that leaves no history of the shape the self-test corrupts
        ctx.selftest("trace-corruption", False, "no suitable history among the recorded ones")
        return
    batch: list[dict] = [copy.deepcopy(g) for g in good]
    expect: dict[int, int] = {}
    names: dict[int, str] = {}

    def add(name: str, tr: dict, at: int) -> None:
        expect[len(batch)] = at + 1
        names[len(batch)] = name
        batch.append(tr)

    # 1. value returned by evaluate() altered
    t = copy.deepcopy(good[0])
    k = first(t["ev"], lambda x: x["e"] in ("evaluate", "evaluatefull"))
    if t["ev"][k]["e"] == "evaluate":
        t["ev"][k]["val"]["f"] += "_corrupt"
    else:
        t["ev"][k]["pairs"][-1][1]["f"] += "_corrupt"
    add("evaluate value altered", t, k)
    # 2. a user function logged twice during the first evaluate (double execution through two consumers)
    t = copy.deepcopy(good[0])
    k = first(t["ev"], lambda x: x["e"] == "evalbegin") + 1
    t["ev"].insert(k + 1, copy.deepcopy(t["ev"][k]))
    add("invocation duplicated in first evaluate", t, k + 1)
    # 3. a user function logged while the handle is built
    t = copy.deepcopy(good[0])
    kb = first(t["ev"], lambda x: x["e"] == "evalbegin")
    call = copy.deepcopy(t["ev"][kb + 1])
    k = max(j for j in range(kb) if t["ev"][j]["e"] == "build")
    t["ev"].insert(k, call)
    add("invocation before the handle is returned", t, k)
    # 4. calls-while-building counter of the build event
    t = copy.deepcopy(good[0])
    k = first(t["ev"], lambda x: x["e"] == "build")
    t["ev"][k]["n"] = 1
    add("build event reports one call", t, k)
    # 5. a user function logged during the second evaluate
    t = copy.deepcopy(good[0])
    kb = first(t["ev"], lambda x: x["e"] == "evalbegin")
    call = copy.deepcopy(t["ev"][kb + 1])
    k = first(t["ev"], lambda x: x["e"].startswith("reevaluate"), kb)
    t["ev"].insert(k, call)
    add("invocation during re-evaluate", t, k)
    # 6. one edge of the recorded task graph dropped / 7. one edge added
    t = copy.deepcopy(good[1])
    k = first(t["ev"], lambda x: x["e"] == "graph" and x["edges"])
    t["ev"][k]["edges"].pop()
    add("task-graph edge dropped", t, k)
    t = copy.deepcopy(good[1])
    k = first(t["ev"], lambda x: x["e"] == "graph" and x["edges"])
    a, b = t["ev"][k]["edges"][0]
    t["ev"][k]["edges"].append([b, a])
    add("task-graph edge added (reverse edge)", t, k)
    # 8.-11. fault histories: an evaluate() that raised, followed by one that returned
    kf = retry_at(good[2]["ev"])
    t = copy.deepcopy(good[2])
    t["ev"][kf]["e"] = "call"
    add("invocation that raised reported as completed", t, kf)
    t = copy.deepcopy(good[2])
    t["ev"][kf + 1] = lev(e="evaluate", val=to_json(None), n=1)
    add("evaluate() reported to return a value after an invocation raised", t, kf + 1)
    t = copy.deepcopy(good[2])
    t["ev"][kf + 1]["val"]["f"] += "_other"
    add("exception message altered", t, kf + 1)
    t = copy.deepcopy(good[2])
    del t["ev"][kf + 3]
    add("evaluate() after one that raised returns without invoking the function that raised", t, kf + 3)
    # 12.-14. a block left through an exception: the block reported as still active at its exit / at the next eager call / at the
    # next lazy call outside any block
    kb = first(good[3]["ev"], lambda x: x["e"] == "bleft" and x["exc"])
    t = copy.deepcopy(good[3])
    t["ev"][kb]["active"] = True
    add("block reported active after it was left through an exception", t, kb)
    t = copy.deepcopy(good[3])
    k = first(t["ev"], lambda x: x["e"] == "begin", kb)
    t["ev"][k]["active"] = True
    add("eager call after the block reported to see an active block", t, k)
    t = copy.deepcopy(good[3])
    k = first(t["ev"], lambda x: x["e"] == "lbegin" and not x["dag"], kb)
    t["ev"][k]["active"] = True
    add("lazy call after the block reported to see an active block", t, k)
    # 15. a pipeline with a user cache of another kind than the block's: a task created before the block reported in the graph
    # as a bare source (its incoming edges and the nodes behind it missing), the shape a "simple" user cache may produce
    t = copy.deepcopy(good[4])
    k = foreign_cache_block(t)
    g = t["ev"][k]
    tgt = next(n["id"] for n in g["nodes"] if n["kind"] == "func" and any(b == n["id"] for _, b in g["edges"]))
    g["edges"] = [e2 for e2 in g["edges"] if e2[1] != tgt]
    add("graph of a block on a foreign-cache pipeline lacks the edges into a task", t, k)
    # 16./17. a joined pipeline: the receiver reported as an eager pipeline (the first call that hands out a handle is rejected) /
    # the twin's receiver reported as a lazy one (the first eager call is rejected)
    t = copy.deepcopy(good[5])
    t["desc"]["asm"]["parts"][0]["lazy"] = False
    add("receiver of the joined pipeline reported eager", t, first(t["ev"], lambda x: x["e"] == "lbegin"))
    t = copy.deepcopy(good[5])
    t["desc"]["easm"]["parts"][0]["lazy"] = True
    add("receiver of the joined eager twin reported lazy", t, first(t["ev"], lambda x: x["e"] == "begin"))
    rej = validate_traces(ctx, "TracePipelineLazy", batch, "selftest", invariants=[], strip=STRIP, count=False)
    ctx.selftest("trace-corruption (17 single corruptions + 6 untouched histories)", rej == expect,
                 f"rejected={rej} expected={expect} ({names})")


def replay(rep: dict) -> int:
    """Re-run the witness call on the real code and let TLC judge the recorded history again."""
    w = rep["witness"]
    tdesc, b = w["desc"], w["call"]
    pdesc = pcall.tla_desc_to_py(tdesc)
    for fd, kind in zip(pdesc["funcs"], tdesc.get("faults", [])):
        if kind:        # (a fresh pair: the fault plan starts over, whatever earlier calls of the original history used up)
            fd["fail"] = {"when": 0 if kind == 1 else "*", "cls": FAULT_CLS, "args": ["fault in " + fd["name"]]}
    lpl, epl = make_pair(pdesc, cache_type=tdesc.get("cache_type"),
                         asm={"asm": tdesc["asm"], "twin": tdesc["easm"]} if "asm" in tdesc else None)
    build.LOG.clear()
    if b["e"] == "begin":
        evs = eager_call(epl, b["out"], b["kw"], "full" if b["mode"] == "full" else "call")
    else:
        begins = [x for x in w["events"] if x["e"] == "lbegin"]
        how0 = begins[0]["how"].split("/")
        dagvar, k = how0[1:3]
        leave = how0[4] if len(how0) > 4 else "normal"

        def item(x: dict) -> tuple:
            how = x["how"].split("/")
            att = int(how[3]) if len(how) > 3 else 0
            return (x["out"], x["kw"], how[0], att) if att else (x["out"], x["kw"], how[0])
        evs = block_history(lpl, [item(x) for x in begins], dagvar, int(k), leave=leave)
    print(json.dumps({"desc": tdesc, "sig": rep.get("sig")}, indent=1)[:3000])
    for e in evs:
        print("  ", json.dumps(e)[:400])
    ctx = Ctx(PROPERTY, "quick", 0)
    try:
        rej = validate_traces(ctx, "TracePipelineLazy", [{"desc": tdesc, "ev": evs}], "replay", invariants=[], count=False)
    finally:
        ctx.cleanup()
    if rej:
        at = max(1, min(rej[0], len(evs)))
        print(f"REPRODUCED: TLC rejects the history at event {at}: {evs[at - 1]['e']}")
        return 1
    print("not reproduced: TLC accepts the re-recorded history")
    return 0
