"""C15 - cache keys identify argument values: equal key iff equal value (spec/HashKey.tla).

Mechanism A (universe export):
1. TLC (MC_HashKey, sharded) enumerates the universe of abstract Python values written in TLA+, checks the
   oracle's sanity (Eq is an equivalence, DontCare symmetric) and the C15 laws for the repaired key scheme,
   and exports per value: the value, its Eq class, its don't-care partners, and what the scheme AS CODED
   does (not total / key classes) together with CODED_COLLISION / CODED_SPLIT lines.
2. Two child interpreters with different PYTHONHASHSEED materialise every value as a real Python object
   (twice, independently; encoder attributes of the abstract value - insertion order, memory layout of an array,
   RangeIndex / materialised Index of a pandas object - are honoured and checked by the round trip), call
   pipefunc.cache.to_hashable, check hashability, serialise the key canonically, compare every key with every key, and drive `memoize`, a cached Pipeline call and a cached
   Pipeline.map with the same values.
3. The parent compares: totality; the observed key-equality pattern with TLC's Eq pattern for ALL ordered
   pairs (up to DontCare); the two interpreters' serialisations (natively handled types); and "a stored
   result is returned only for an Eq argument" for memoize / pipeline / map.
4. The same for CALLS of a memoized function (HashKey section 4, CallSpec in MC_HashKey): TLC enumerates a
   universe of calls f(*args, **kw) for two signatures (`*args, **kwargs` and `p, q=0, *, r=1`) that is closed
   under "packing" (f(*t, **d) and f(t, d) are both members), decides SameArguments / CallDontCare for all
   ordered pairs and exports the pattern; the children issue every ordered pair of calls on ONE memoized
   function per signature and cache class and report which call was answered with which call's result.
TLC's export decides; Python encodes, drives and compares sets of indices.
"""
from __future__ import annotations

import array
import collections
import dataclasses
import json
import os
import subprocess
import sys
import time
from concurrent.futures import ThreadPoolExecutor
from pathlib import Path

PROPERTY = "C15"
LEVEL = "model_checking"

MC_CFG = """SPECIFICATION Spec
CONSTANTS Depth = {depth} Shard = {shard} NShards = {nshards}
{override}INVARIANT InvWellFormed InvEqEquivalence InvDontCareSym InvEqRefinesPy
INVARIANT InvRepairedTotal InvRepairedSound InvRepairedComplete InvLawsAsOperators
INVARIANT Emit
"""

CALL_CFG = """SPECIFICATION CallSpec
CONSTANTS Depth = {depth} Shard = {shard} NShards = {nshards}
{override}INVARIANT InvCallWellFormed InvCallOracle
INVARIANT InvCallTotal InvCallSound InvCallComplete InvCallLawsAsOperators
INVARIANT CallEmit
"""
# per part: cfg text, tag of the exported records, fields that hold sets of indices, constant overridden for replay
_PARTS = {"values": (MC_CFG, "VAL", ("eq", "dc", "mkc", "mkr", "xcoll", "xsplit"), "CONSTANT Universe <- ReplayUniverse\n"),
          "calls": (CALL_CFG, "CALLV", ("eq", "same", "dc", "mk", "bare", "kwvalues"),
                    "CONSTANT CallUniverse <- ReplayCallUniverse\n")}


# ------------------------------------------------------------------------------------------------
# the two importable classes that stand for "arbitrary picklable objects"
@dataclasses.dataclass
class PA:  # __eq__ by fields, no __hash__: keyed through the cloudpickle fallback
    x: object
    y: object


@dataclasses.dataclass(frozen=True)
class PB:  # hashable when its fields are: returned unchanged by to_hashable
    x: object
    y: object


class CallObj:
    """One call f(*args, **kwargs) of a memoized function with signature `sig` (HashKey!Call)."""

    __slots__ = ("sig", "args", "kwargs")

    def __init__(self, sig: str, args: tuple, kwargs: dict) -> None:
        self.sig, self.args, self.kwargs = sig, args, kwargs


_CLASSES = {"PA": PA, "PB": PB}
_FACTORIES = {"int": int, "list": list}


# ------------------------------------------------------------------------------------------------
# value encoder: abstract value (JSON of HashKey!V) -> Python object, and back (trusted base; the
# round trip is checked for every value in the child)
def build(v: dict):
    import numpy as np
    import pandas as pd

    t, a = v["t"], v["a"]
    if t == "Int":
        return int(v["n"])
    if t == "Bool":
        return bool(v["n"])
    if t == "Float":
        return v["n"] / 2
    if t == "Str":
        return str(v["s"])
    if t == "Bytes":
        return v["s"].encode("ascii")
    if t == "Tuple":
        return tuple(build(x) for x in a)
    if t == "List":
        return [build(x) for x in a]
    if t == "Deque":
        return collections.deque([build(x) for x in a], maxlen=v["n"] or None)
    if t == "Set":
        s = set()
        for x in a:
            s.add(build(x))
        return s
    if t == "FrozenSet":
        return frozenset([build(x) for x in a])
    if t in ("Dict", "OrderedDict", "DefaultDict", "Counter"):
        d = ({} if t == "Dict" else collections.OrderedDict() if t == "OrderedDict"
             else collections.defaultdict(_FACTORIES[v["s"]]) if t == "DefaultDict" else collections.Counter())
        for p in a:
            d[build(p["a"][0])] = build(p["a"][1])
        return d
    if t == "ByteArray":
        return bytearray([build(x) for x in a])
    if t == "PyArray":
        return array.array(v["s"], [build(x) for x in a])
    if t == "NdArray":
        shape = tuple(build(x) for x in a[0]["a"])
        data = [build(x) for x in a[1]["a"]]
        if v["s"] == "|O":
            arr = np.empty(len(data), dtype=object)
            for k, x in enumerate(data):
                arr[k] = x
        else:
            arr = np.array(data, dtype=np.dtype(v["s"]))
        arr = arr.reshape(shape)
        lay = v["n"]  # encoder attribute: memory layout (never part of the value)
        if lay == 1:
            arr = np.asfortranarray(arr)
        elif lay == 2:  # non-contiguous view: every second element along the last axis of a wider array
            big = np.empty((*shape[:-1], 2 * shape[-1]), dtype=arr.dtype)
            big[..., 1::2] = arr[..., ::-1]
            big[..., ::2] = arr
            arr = big[..., ::2]
        elif lay == 3:  # transposed view of the C-contiguous transpose (same memory as lay 0 of a.T)
            arr = np.ascontiguousarray(arr.T).T
        return arr
    if t == "Series":
        data = [build(x) for x in a[1]["a"]]
        dt = "float64" if any(x["t"] == "Float" for x in a[1]["a"]) else "int64"
        return pd.Series(np.array(data, dtype=dt), index=_axis([build(x) for x in a[0]["a"]], v["n"] % 2), name=v["s"])
    if t == "DataFrame":
        cols = [build(x) for x in a[0]["a"]]
        index = _axis([build(x) for x in a[1]["a"]], v["n"] % 2)
        data = {c: np.array([build(x) for x in col["a"]], dtype="int64") for c, col in zip(cols, a[2]["a"])}
        df = pd.DataFrame(data, index=index, columns=cols)
        if v["n"] // 2:
            df.columns = _axis(cols, 1)
        return df
    if t == "Obj":
        return _CLASSES[v["s"]](*[build(x) for x in a])
    if t == "Call":
        return CallObj(v["s"], build(a[0]), build(a[1]))
    raise ValueError(t)


def _axis(labels: list, as_range: int):
    """The axis object that carries `labels`: encoder attribute HashKey!DataFrameR.rep (never part of the value).
    0: a materialised Index; 1: the pandas.RangeIndex with these labels (as a slice of a bigger frame keeps it)."""
    import pandas as pd

    if not as_range:
        return pd.Index(labels, dtype="int64") if all(isinstance(x, int) for x in labels) else pd.Index(labels)
    step = labels[1] - labels[0] if len(labels) > 1 else 1
    start = labels[0] if labels else 0
    ax = pd.RangeIndex(start, start + step * len(labels), step)
    if ax.tolist() != labels:
        raise ValueError(f"labels {labels} are not a range")
    return ax


def _V(t, s="", n=0, a=()):
    return {"t": t, "s": s, "n": n, "a": list(a)}


def unbuild(o) -> dict:
    import numpy as np
    import pandas as pd

    if isinstance(o, (bool, np.bool_)):
        return _V("Bool", n=int(o))
    if isinstance(o, (int, np.integer)):
        return _V("Int", n=int(o))
    if isinstance(o, (float, np.floating)):
        return _V("Float", n=int(round(float(o) * 2)))
    if isinstance(o, str):
        return _V("Str", s=o)
    if isinstance(o, bytes):
        return _V("Bytes", s=o.decode("ascii"))
    if isinstance(o, (PA, PB)):
        return _V("Obj", s=type(o).__name__, a=[unbuild(o.x), unbuild(o.y)])
    if isinstance(o, CallObj):
        return _V("Call", s=o.sig, a=[unbuild(o.args), unbuild(o.kwargs)])
    if isinstance(o, tuple):
        return _V("Tuple", a=[unbuild(x) for x in o])
    if isinstance(o, list):
        return _V("List", a=[unbuild(x) for x in o])
    if isinstance(o, collections.deque):
        return _V("Deque", n=o.maxlen or 0, a=[unbuild(x) for x in o])
    if isinstance(o, (set, frozenset)):
        return _V("Set" if isinstance(o, set) else "FrozenSet", a=[unbuild(x) for x in o])
    if isinstance(o, dict):
        t = ("OrderedDict" if isinstance(o, collections.OrderedDict) else "DefaultDict"
             if isinstance(o, collections.defaultdict) else "Counter" if isinstance(o, collections.Counter) else "Dict")
        s = o.default_factory.__name__ if t == "DefaultDict" else ""
        return _V(t, s=s, a=[_V("Pair", a=[unbuild(k), unbuild(x)]) for k, x in o.items()])
    if isinstance(o, bytearray):
        return _V("ByteArray", a=[unbuild(x) for x in o])
    if isinstance(o, array.array):
        return _V("PyArray", s=o.typecode, a=[unbuild(x) for x in o])
    if isinstance(o, np.ndarray):
        c, f = o.flags["C_CONTIGUOUS"], o.flags["F_CONTIGUOUS"]
        lay = 0 if c else 2 if not f else 1 if o.base is None else 3
        return _V("NdArray", s=o.dtype.str, n=lay, a=[_V("Tuple", a=[unbuild(x) for x in o.shape]),
                                                _V("Tuple", a=[unbuild(x) for x in o.flatten()])])
    if isinstance(o, pd.Series):
        return _V("Series", s=o.name, n=int(isinstance(o.index, pd.RangeIndex)), a=[_V("Tuple", a=[unbuild(x) for x in o.index]),
                                         _V("Tuple", a=[unbuild(x) for x in o.to_numpy()])])
    if isinstance(o, pd.DataFrame):
        return _V("DataFrame", n=int(isinstance(o.index, pd.RangeIndex)) + 2 * int(isinstance(o.columns, pd.RangeIndex)),
                  a=[_V("Tuple", a=[unbuild(c) for c in o.columns]),
                                  _V("Tuple", a=[unbuild(x) for x in o.index]),
                                  _V("Tuple", a=[_V("Tuple", a=[unbuild(x) for x in o.iloc[:, k].to_numpy()])
                                                 for k in range(o.shape[1])])])
    raise ValueError(type(o))


def _norm(v: dict) -> dict:
    """Abstract value with set members in a canonical order (iteration order is not recoverable)."""
    a = [_norm(x) for x in v["a"]]
    if v["t"] in ("Set", "FrozenSet"):
        a = sorted(a, key=lambda x: json.dumps(x, sort_keys=True))
    return {"t": v["t"], "s": v["s"], "n": v["n"], "a": a}


def _show_axis(labels: dict, as_range: int) -> str:
    if not as_range:
        return show(labels)
    ax = _axis([x["n"] for x in labels["a"]], 1)
    return f"RangeIndex({ax.start}, {ax.stop}, {ax.step}){show(labels)}"


def show(v: dict) -> str:
    """Python-like rendering of an abstract value (for messages)."""
    t, a = v["t"], v["a"]
    if t in ("Int", "Bool", "Float", "Str", "Bytes"):
        return repr(build(v))
    inner = ", ".join(show(x) for x in a)
    if t == "Tuple":
        return f"({inner}{',' if len(a) == 1 else ''})"
    if t == "List":
        return f"[{inner}]"
    if t == "Pair":
        return f"{show(a[0])}: {show(a[1])}"
    if t == "Dict":
        return "{" + inner + "}"
    if t == "Set":
        return "{" + inner + "}" if a else "set()"
    if t == "FrozenSet":
        return "frozenset({" + inner + "})" if a else "frozenset()"
    if t in ("Counter", "OrderedDict"):
        return f"{t}({{{inner}}})"
    if t == "ByteArray":
        return f"bytearray([{inner}])"
    if t == "Deque":
        return f"deque([{inner}]{', maxlen=%d' % v['n'] if v['n'] else ''})"
    if t == "DefaultDict":
        return f"defaultdict({v['s']}, {{{inner}}})"
    if t == "NdArray":
        lay = ["", ", layout=F", ", layout=strided-view", ", layout=transposed-view"][v["n"]]
        return f"ndarray({v['s']}, shape={show(a[0])}, {show(a[1])}{lay})"
    if t == "Series":
        return f"Series(name={v['s']!r}, index={_show_axis(a[0], v['n'] % 2)}, data={show(a[1])})"
    if t == "DataFrame":
        return (f"DataFrame(columns={_show_axis(a[0], v['n'] // 2)}, index={_show_axis(a[1], v['n'] % 2)}, "
                f"data={show(a[2])})")
    if t == "Obj":
        return f"{v['s']}({inner})"
    if t == "PyArray":
        return f"array({v['s']!r}, [{inner}])"
    if t == "Call":
        parts = [show(x) for x in a[0]["a"]] + [f"{p['a'][0]['s']}={show(p['a'][1])}" for p in a[1]["a"]]
        return f"f_{v['s']}({', '.join(parts)})"
    return f"{t}({inner})"


# ------------------------------------------------------------------------------------------------
# child interpreter
def canon(k):
    """Canonical, type-exact, process-independent serialisation of a key (frozensets sorted)."""
    import numpy as np

    if k is None:
        return ["none"]
    if isinstance(k, tuple):
        return ["tuple", [canon(x) for x in k]]
    if isinstance(k, frozenset):
        return ["frozenset", sorted((canon(x) for x in k), key=lambda x: json.dumps(x))]
    if isinstance(k, type):
        return ["type", f"{k.__module__}.{k.__qualname__}"]
    if isinstance(k, (PA, PB)):
        return ["obj", type(k).__name__, canon(k.x), canon(k.y)]
    if isinstance(k, np.generic):
        return ["np", k.dtype.str, repr(k.item())]
    if isinstance(k, (bool, int, float, str, bytes)):
        return [type(k).__name__, repr(k)]
    return ["other", type(k).__name__, repr(k)]


class _Drive:
    """A cached callable under test plus the log of real executions; tokens identify the execution."""

    def __init__(self, kind: str, cache_type: str, tmp: str) -> None:
        from pipefunc import PipeFunc, Pipeline
        from pipefunc import cache as pc

        self.n = 0
        self.kind = kind

        def body(x):
            self.n += 1
            return self.n

        kw = {"simple": {}, "lru": {"shared": False, "max_size": 1 << 20},
              "hybrid": {"shared": False, "max_size": 1 << 20},
              "disk": {"cache_dir": tmp, "with_lru_cache": False}}[cache_type]
        if kind == "memoize":
            c = {"simple": pc.SimpleCache, "lru": pc.LRUCache, "hybrid": pc.HybridCache}.get(cache_type)
            self.cache = c(**kw) if c else pc.DiskCache(tmp, with_lru_cache=False)
            self.f = pc.memoize(cache=self.cache)(body)
            self.call = self.f
        else:
            mapspec = "x[i] -> y[i]" if kind == "map" else None
            self.pl = Pipeline([PipeFunc(body, "y", mapspec=mapspec, cache=True)], cache_type=cache_type,
                               cache_kwargs=dict(kw))
            self.cache = self.pl.cache
            self.call = lambda x: self.pl("y", x=x)

    def clear(self) -> None:
        self.cache.clear()


def _passes(drive: _Drive, A: list, B: list, ok: list[bool], out: dict, name: str) -> None:
    """Store every value once (forward over copy A, then backward over copy B after a clear): whenever a
    call is answered from the cache, the token names the earlier call whose result was returned."""
    hits, raises = [], {}
    for objs, order in ((A, range(len(A))), (B, range(len(B) - 1, -1, -1))):
        drive.clear()
        owner = {}
        for i in order:
            before = drive.n
            try:
                r = drive.call(objs[i])
            except Exception as ex:  # noqa: BLE001
                raises[i] = type(ex).__name__
                continue
            if drive.n == before:
                hits.append([owner.get(r, -1), i])
            else:
                owner[r] = i
    out[name] = {"hits": hits, "raises": sorted(raises.items())}


def _pairs(drive: _Drive, A: list, B: list, cand: list[list[int]], out: dict, name: str) -> None:
    """Exact ordered pairs: call on A[i] with an empty cache, then on B[j]; hit = no new execution."""
    hits, raises, n = [], {}, 0
    for i, js in enumerate(cand):
        for j in js:
            drive.clear()
            try:
                drive.call(A[i])
                before = drive.n
                drive.call(B[j])
            except Exception as ex:  # noqa: BLE001
                raises[i] = type(ex).__name__
                continue
            n += 1
            if drive.n == before:
                hits.append([i, j])
    out[name] = {"hits": hits, "raises": sorted(raises.items()), "pairs": n}


def child_main(argv: list[str] | None = None) -> None:
    argv = argv or sys.argv[1:]
    import warnings

    from pfverif import bootstrap  # noqa: F401
    import numpy as np
    from pipefunc.cache import _pickle_key, to_hashable

    warnings.simplefilter("ignore")
    inp = json.loads(Path(argv[0]).read_text())
    vals = inp["values"]
    n = len(vals)
    A = [build(v) for v in vals]
    B = [build(v) for v in vals]
    out: dict = {"hashseed": os.environ.get("PYTHONHASHSEED"), "n": n}
    out["roundtrip_bad"] = [i for i in range(n) if _norm(unbuild(A[i])) != _norm(vals[i])]
    # how the encoder attributes came out: iteration order of (frozen)sets, contiguity of arrays
    out["iter_order"] = [json.dumps([canon(x) for x in o]) if isinstance(o, (set, frozenset)) else "" for o in A]
    out["flags"] = [("C" if o.flags["C_CONTIGUOUS"] else "") + ("F" if o.flags["F_CONTIGUOUS"] else "")
                    if isinstance(o, np.ndarray) else "" for o in A]

    def key_of(o):
        try:
            k = to_hashable(o)
        except Exception as ex:  # noqa: BLE001
            return None, f"raise:{type(ex).__name__}"
        try:
            hash(k)
        except Exception as ex:  # noqa: BLE001
            return None, f"unhashable:{type(ex).__name__}"
        return k, "ok"

    ka, status = zip(*[key_of(o) for o in A]) if n else ((), ())
    kb = [key_of(o)[0] for o in B]
    out["status"] = list(status)
    out["ser"] = [json.dumps(canon(k)) if s == "ok" else "" for k, s in zip(ka, status)]
    pk = []
    for k, s in zip(ka, status):
        try:
            pk.append(_pickle_key(k) if s == "ok" else "")
        except Exception as ex:  # noqa: BLE001
            pk.append(f"raise:{type(ex).__name__}")
    out["pk"] = pk
    # the key-equality pattern over ALL ordered pairs (copy A against copy B, so <<i, i>> is a real test)
    rows, hash_bad, cmp_err = [], [], []
    for i in range(n):
        row = []
        if status[i] == "ok":
            ki, hi = ka[i], hash(ka[i])
            for j in range(n):
                kj = kb[j]
                if kj is None:
                    continue
                try:
                    e = ki == kj
                    if e is not True and e is not False:
                        e = bool(e)
                except Exception as ex:  # noqa: BLE001
                    cmp_err.append([i, j, type(ex).__name__])
                    continue
                if e:
                    row.append(j)
                    if hash(kj) != hi:
                        hash_bad.append([i, j])
        rows.append(row)
    out["keyeq"] = rows
    out["hash_bad"] = hash_bad
    out["cmp_err"] = cmp_err[:50]

    ok = [s == "ok" for s in status]
    tmp = inp["tmp"]
    # memoize: every ordered pair. After f(A[i]) on an empty cache, f(B[j]) returns A[i]'s token iff it hit A[i]'s entry
    t0 = time.time()
    d = _Drive("memoize", "simple", tmp)
    hits, raises = [], {}
    for i in range(n):
        d.clear()
        try:
            tok = d.call(A[i])
        except Exception as ex:  # noqa: BLE001
            raises[i] = type(ex).__name__
            continue
        for j in range(n):
            if not ok[j]:
                continue
            try:
                if d.call(B[j]) == tok:
                    hits.append([i, j])
            except Exception as ex:  # noqa: BLE001
                raises[j] = type(ex).__name__
    out["memoize_all"] = {"hits": hits, "raises": sorted(raises.items())}
    out["t_memoize"] = round(time.time() - t0, 2)
    # candidate pairs for the slower drivers: Eq / don't-care partners from TLC, every observed key collision,
    # and three fixed other partners per value
    cand = []
    for i in range(n):
        c = set(vals_c for vals_c in inp["cand"][i]) | set(rows[i]) | {(7 * i + c) % n for c in (1, 2, 3)}
        cand.append(sorted(j for j in c if ok[j]) if ok[i] else [])
    t0 = time.time()
    for ct in inp["pair_caches"]:
        for kind in ("memoize", "call"):
            if kind == "memoize" and ct == "simple":
                continue
            sub = os.path.join(tmp, f"{kind}_{ct}")
            os.makedirs(sub, exist_ok=True)
            _pairs(_Drive(kind, ct, sub), A, B, cand, out, f"{kind}_{ct}_pairs")
    out["t_pairs"] = round(time.time() - t0, 2)
    t0 = time.time()
    for ct in inp["pass_caches"]:
        _passes(_Drive("call", ct, tmp), A, B, ok, out, f"call_{ct}_passes")
    # Pipeline.map over all total values as the elements of one mapped input (key = to_hashable({"x": v}))
    dm = _Drive("map", "simple", tmp)
    idx = [i for i in range(n) if ok[i]]
    mh, merr = [], ""
    for objs, order in ((A, idx), (B, idx[::-1])):
        dm.clear()
        xs = np.empty(len(order), dtype=object)
        for p, i in enumerate(order):
            xs[p] = objs[i]
        before = dm.n
        try:
            res = dm.pl.map({"x": xs}, parallel=False, storage="dict", show_progress=False)
            toks = list(res["y"].output)
        except Exception as ex:  # noqa: BLE001
            merr = f"{type(ex).__name__}: {ex}"[:300]
            break
        owner = {}
        for p, i in enumerate(order):
            if toks[p] in owner:
                mh.append([owner[toks[p]], i])
            else:
                owner[toks[p]] = i
        if dm.n - before != len(owner):
            merr = f"token bookkeeping: {dm.n - before} executions, {len(owner)} distinct tokens"
    out["map_simple_passes"] = {"hits": mh, "raises": [], "error": merr}
    out["t_passes"] = round(time.time() - t0, 2)
    Path(argv[1]).write_text(json.dumps(out))



# ------------------------------------------------------------------------------------------------
# child interpreter, calls: ONE memoized function per signature and cache class, sequences of calls on it
_SIG_TEXT = {"var": "def f(*args, **kwargs)", "fixed": "def f(p, q=0, *, r=1)"}


class _Memo:
    """A memoized function of the given signature; `n` counts real executions (the returned token), `got`
    is what the function received at its last execution."""

    def __init__(self, sig: str, cache_type: str, tmp: str) -> None:
        from pipefunc import cache as pc

        self.n = 0
        self.got: tuple = ()
        if sig == "var":
            def body(*args, **kwargs):
                self.n += 1
                self.got = (args, kwargs)
                return self.n
        else:
            def body(p, q=0, *, r=1):  # the defaults are HashKey!FixedDefault
                self.n += 1
                self.got = (p, q, r)
                return self.n
        self.cache = {"simple": lambda: pc.SimpleCache(),
                      "lru": lambda: pc.LRUCache(shared=False, max_size=1 << 20),
                      "hybrid": lambda: pc.HybridCache(shared=False, max_size=1 << 20),
                      "disk": lambda: pc.DiskCache(tmp, with_lru_cache=False)}[cache_type]()
        self.f = pc.memoize(cache=self.cache)(body)

    def call(self, c: CallObj):
        return self.f(*c.args, **c.kwargs)

    def clear(self) -> None:
        self.cache.clear()


def child_calls_main(argv: list[str] | None = None) -> None:
    argv = argv or sys.argv[1:]
    import warnings

    from pfverif import bootstrap  # noqa: F401

    warnings.simplefilter("ignore")
    inp = json.loads(Path(argv[0]).read_text())
    vals = inp["values"]
    n = len(vals)
    A = [build(v) for v in vals]
    B = [build(v) for v in vals]
    out: dict = {"hashseed": os.environ.get("PYTHONHASHSEED"), "n": n}
    out["roundtrip_bad"] = [i for i in range(n) if _norm(unbuild(A[i])) != _norm(vals[i])]
    bound_bad: list = []
    t0 = time.time()
    for sig in sorted({v["s"] for v in vals}):
        idxs = [i for i in range(n) if vals[i]["s"] == sig]
        # every ordered pair on one function (SimpleCache): f(call i) on an empty cache, then every call j;
        # the token tells whose result was returned.  Entries of earlier j stay: the history grows.
        m = _Memo(sig, "simple", inp["tmp"])
        hits, raises, hit_of = [], {}, {i: set() for i in idxs}
        for i in idxs:
            m.clear()
            try:
                tok = m.call(A[i])
            except Exception as ex:  # noqa: BLE001
                raises[i] = type(ex).__name__
                continue
            if _norm(unbuild(m.got)) != _norm(inp["bound"][i]):  # conformance of HashKey!Bound with Python's binding
                bound_bad.append(i)
            for j in idxs:
                try:
                    if m.call(B[j]) == tok:
                        hits.append([i, j])
                        hit_of[i].add(j)
                except Exception as ex:  # noqa: BLE001
                    raises[j] = type(ex).__name__
        out[f"memoize_{sig}_simple_all"] = {"hits": hits, "raises": sorted(raises.items())}
        # exact ordered pairs on the other cache classes: the partners TLC names (same call / same arguments /
        # don't care), every partner that hit above, and three fixed others
        for ct in inp["pair_caches"]:
            sub = os.path.join(inp["tmp"], f"memo_{sig}_{ct}")
            os.makedirs(sub, exist_ok=True)
            m = _Memo(sig, ct, sub)
            hits, raises, npairs = [], {}, 0
            for pos, i in enumerate(idxs):
                cand = set(inp["cand"][i]) | hit_of[i] | {idxs[(7 * pos + c) % len(idxs)] for c in (1, 2, 3)}
                for j in sorted(cand):
                    m.clear()
                    try:
                        m.call(A[i])
                        before = m.n
                        m.call(B[j])
                    except Exception as ex:  # noqa: BLE001
                        raises[i] = type(ex).__name__
                        continue
                    npairs += 1
                    if m.n == before:
                        hits.append([i, j])
            out[f"memoize_{sig}_{ct}_pairs"] = {"hits": hits, "raises": sorted(raises.items()), "pairs": npairs}
    out["bound_bad"] = bound_bad
    out["t_calls"] = round(time.time() - t0, 2)
    Path(argv[1]).write_text(json.dumps(out))


# ------------------------------------------------------------------------------------------------
# parent: TLC export
class _Lane:
    """What a background lane may use of the context: scratch directories, and TLC results queued for the main
    thread (the four parts - values, random values, calls, random calls - are prepared side by side: TLC export
    and child interpreters; everything that compares and reports runs in the main thread in a fixed order)."""

    def __init__(self, ctx) -> None:
        self.ctx, self.tlc = ctx, []

    def workdir(self, name: str):
        return self.ctx.workdir(name)

    def add_tlc(self, r, what: str = ""):
        self.tlc.append((r, what))
        return r

    def flush(self) -> None:
        for r, what in self.tlc:
            self.ctx.add_tlc(r, what)
        self.tlc = []


def export_universe(ctx, depth: int, nshards: int, override: str = "", module: str = "MC_HashKey",
                    name: str = "mc", part: str = "values") -> tuple[list[dict], dict]:
    from ..tlc import MachineryError, run_tlc
    from ..tracekit import parse_prints

    cfg_text, rec_tag, index_fields, override_line = _PARTS[part]

    def one(shard: int):
        wd = ctx.workdir(f"{name}_{shard}")
        if override:
            (wd / f"{module}.tla").write_text(override)
        cfg = cfg_text.format(depth=depth, shard=shard, nshards=nshards, override=override_line if override else "")
        # several single-threaded JVMs run side by side: keep their GC / JIT helper threads few
        return run_tlc(module, cfg, wd, workers=1, allow_violation=False, heap="3g", timeout=1500,
                       env={"JAVA_TOOL_OPTIONS": "-XX:ParallelGCThreads=2 -XX:CICompilerCount=2"})

    recs: dict[int, dict] = {}
    diag = {"CODED_COLLISION": [], "CODED_SPLIT": []}
    with ThreadPoolExecutor(max_workers=min(nshards, 16)) as ex:
        for shard, r in enumerate(ex.map(one, range(nshards))):
            ctx.add_tlc(r, f"{module} ({part}) depth={depth} shard {shard}/{nshards}")
            for tag, payload in parse_prints(r.prints):
                if tag == rec_tag:
                    recs[payload["i"]] = payload
                elif tag in diag:
                    diag[tag].append(payload)
    n = len(recs)
    if n == 0 or sorted(recs) != list(range(1, n + 1)):
        raise MachineryError(f"{module}: exported indices are not 1..N (got {n} records)")
    vals = [recs[i] for i in range(1, n + 1)]
    for r in vals:  # 0-based indices from here on
        for f in index_fields:
            r[f] = sorted(j - 1 for j in r[f])
    diag = {k: sorted([a - 1, b - 1] for a, b in v) for k, v in diag.items()}
    return vals, diag


def run_children(ctx, vals: list[dict], seeds: tuple[int, int], pair_caches: list[str], pass_caches: list[str],
                 name: str = "child", part: str = "values") -> list[dict]:
    from .. import bootstrap
    from ..tlc import MachineryError

    wd = ctx.workdir(name)
    inp = {"values": [r["v"] for r in vals], "cand": [sorted(set(r["eq"]) | set(r["dc"])) for r in vals],
           "pair_caches": pair_caches, "pass_caches": pass_caches}
    entry = "child_main"
    if part == "calls":
        entry = "child_calls_main"
        inp["cand"] = [sorted(set(r["eq"]) | set(r["same"]) | set(r["dc"])) for r in vals]
        inp["bound"] = [r["bound"] for r in vals]
    procs = []
    for k, seed in enumerate(seeds):
        tmp = wd / f"tmp{k}"
        tmp.mkdir(exist_ok=True)
        fin, fout = wd / f"in{k}.json", wd / f"out{k}.json"
        fin.write_text(json.dumps(dict(inp, tmp=str(tmp))))
        env = bootstrap.child_env()
        env["PYTHONHASHSEED"] = str(seed)
        procs.append((subprocess.Popen([sys.executable, "-c", f"from pfverif.props import c15; c15.{entry}()",
                                        str(fin), str(fout)], env=env, stdout=subprocess.PIPE,
                                       stderr=subprocess.STDOUT, text=True), fout, seed))
    outs = []
    for p, fout, seed in procs:
        try:
            log, _ = p.communicate(timeout=1500)
        except subprocess.TimeoutExpired as ex:
            p.kill()
            raise MachineryError(f"child interpreter (hash seed {seed}) timed out") from ex
        if p.returncode != 0 or not fout.exists():
            raise MachineryError(f"child interpreter (hash seed {seed}) failed:\n{log[-3000:]}")
        o = json.loads(fout.read_text())
        if o["hashseed"] != str(seed):
            raise MachineryError("child did not run under the requested PYTHONHASHSEED")
        if o["roundtrip_bad"]:
            i = o["roundtrip_bad"][0]
            raise MachineryError(f"value encoder does not round-trip value {i}: {vals[i]['v']}")
        if o.get("bound_bad"):
            i = o["bound_bad"][0]
            raise MachineryError(f"HashKey!Bound does not describe what the function receives for {show(vals[i]['v'])}: "
                                 f"expected {show(vals[i]['bound'])}")
        outs.append(o)
    return outs


# ------------------------------------------------------------------------------------------------
# classification of a failing value / pair (signatures only; never decides)
def _walk(v: dict):
    yield v
    for x in v["a"]:
        yield from _walk(x)


_SCALARS = ("Int", "Bool", "Float", "Str", "Bytes")


def _is_hashable(v: dict) -> bool:
    return (v["t"] in _SCALARS or v["t"] == "FrozenSet" or (v["t"] == "Tuple" and all(map(_is_hashable, v["a"])))
            or (v["t"] == "Obj" and v["s"] == "PB" and all(map(_is_hashable, v["a"]))))


def value_cause(v: dict, status: str = "") -> tuple[str, str]:
    """(feature of the value that explains a failure of to_hashable, type of the offending node), found in
    the order in which to_hashable visits the value: a container whose members / keys `sorted()` cannot
    order ("sort_mixed_types": TypeError; "sort_partial_order": order left to iteration order) or an object
    array holding unhashable elements (not visited further by the code; when to_hashable RAISED - `status` -
    the unhashable key of such an array was not the failure, so its elements are visited)."""
    partial = ("", "")
    stack = [v]
    while stack:
        node = stack.pop()
        t = node["t"]
        if _is_hashable(node):
            continue
        ks: list = []
        kids: list = []
        if t == "Set":
            ks = node["a"]
        elif t in ("Dict", "DefaultDict", "Counter", "OrderedDict"):
            ks = [p["a"][0] for p in node["a"]] if t != "OrderedDict" else []
            kids = [p["a"][1] for p in node["a"]] if t != "Counter" else []
        elif t == "NdArray":
            if node["s"] == "|O" and not all(_is_hashable(x) for x in node["a"][1]["a"]):
                if not status.startswith("raise"):
                    return "object_array_unhashable_element", "NdArray"
                kids = node["a"][1]["a"]
        elif t in ("Series", "DataFrame"):
            ks = node["a"][0]["a"]
        elif t in ("List", "Tuple", "Deque"):
            kids = node["a"]
        objs = [build(k) for k in ks]
        for x in objs:
            for y in objs:
                if x is y:
                    continue
                try:
                    lt, gt = x < y, y < x
                except TypeError:
                    return "sort_mixed_types", t
                if not lt and not gt and x != y and not partial[0]:
                    partial = ("sort_partial_order", t)
        stack.extend(reversed(kids))
    return partial if partial[0] else ("other", v["t"])


def sort_cause(v: dict) -> tuple[str, str]:
    c = value_cause(v)
    return c if c[0].startswith("sort_") else ("", "")


def diff_kind(v: dict, w: dict) -> tuple[str, str]:
    """(how two non-Eq values differ, at which kind of node): the most specific description available."""
    t = v["t"]
    if t != w["t"]:
        return f"type:{'/'.join(sorted([t, w['t']]))}", "type"
    if t in ("Series", "DataFrame") and (v["n"] or w["n"]):  # a RangeIndex carries the labels of one of them
        if v["s"] == w["s"] and v["a"] == w["a"]:
            return "label_representation_only", t  # Eq values: only the encoder attribute differs
        d, at = diff_kind(dict(v, n=0), dict(w, n=0))
        return (d + "(RangeIndex)" if "index" in d or "column" in d else d), at
    if t == "Series":
        if v["s"] != w["s"]:
            return "series_name", t
        iv, dv, iw, dw = ([json.dumps(x) for x in q["a"]] for q in (v["a"][0], v["a"][1], w["a"][0], w["a"][1]))
        if len(set(iv)) < len(iv) or len(set(iw)) < len(iw):
            return "series_duplicate_index", t
        if sorted(zip(iv, dv)) == sorted(zip(iw, dw)):
            return "series_index_order", t
        return "series_content", t
    if t == "DataFrame":
        cv, cw = ([x["s"] for x in q["a"][0]["a"]] for q in (v, w))
        bycol_v = {c: json.dumps(col) for c, col in zip(cv, v["a"][2]["a"])}
        bycol_w = {c: json.dumps(col) for c, col in zip(cw, w["a"][2]["a"])}
        same_index = v["a"][1] == w["a"][1]
        if bycol_v == bycol_w:
            if cv != cw:
                return ("frame_column_order" if same_index else "frame_column_order+index"), t
            if not same_index:
                return "frame_index", t
        return "frame_content", t
    if t in ("Int", "Bool", "Float", "Str", "Bytes"):
        return "content", t
    if t == "NdArray" and (v["s"] != w["s"] or v["a"][0] != w["a"][0]):
        return ("array_dtype" if v["s"] != w["s"] else "array_shape"), t
    if t == "NdArray" and v["a"] == w["a"]:
        return "array_layout_only", t  # Eq values: only the encoder attribute differs
    if t == "NdArray" and (v["s"] != "|O" or v["n"] != w["n"]):
        return ("array_data_other_layout" if v["n"] != w["n"] else "array_data"), t
    if v["s"] != w["s"] or v["n"] != w["n"]:
        return "attribute", t
    if t in ("Dict", "DefaultDict", "Counter"):  # same keys: look into the first value that differs
        mv, mw = ({json.dumps(p["a"][0], sort_keys=True): p["a"][1] for p in q["a"]} for q in (v, w))
        if set(mv) == set(mw):
            for k in sorted(mv):
                if mv[k] != mw[k]:
                    return diff_kind(mv[k], mw[k])
        return "content", t
    if t in ("Set", "FrozenSet") or len(v["a"]) != len(w["a"]):
        return "content", t
    for x, y in zip(v["a"], w["a"]):
        if x != y:
            return diff_kind(x, y)
    return "content", t


def pair_sig(check: str, v: dict, w: dict) -> dict:
    d, at = diff_kind(v, w)
    c = sort_cause(v)
    c = c if c[0] else sort_cause(w)
    return {"check": check, "differs": d, "at": at if d != "content" or not c[0] else c[1], "cause": c[0] or "none"}


# ------------------------------------------------------------------------------------------------
# the comparator: expected (TLC) against observed (children). Returns findings, reports nothing.
def compare(vals: list[dict], outs: list[dict]) -> list[dict]:
    n = len(vals)
    eq = [set(r["eq"]) for r in vals]
    dc = [set(r["dc"]) for r in vals]
    finds: list[dict] = []

    def add(kind, sig, i, j=None, **kw):
        finds.append({"kind": kind, "sig": sig, "i": i, "j": j, **kw})

    total = [all(o["status"][i] == "ok" for o in outs) for i in range(n)]
    for i in range(n):
        for k, o in enumerate(outs):
            st = o["status"][i]
            if st != "ok":
                outcome, exc = st.split(":")
                cause, at = value_cause(vals[i]["v"], st)
                add("total", {"check": "total", "outcome": outcome, "exc": exc, "at": at, "cause": cause}, i,
                    child=k, observed=st)
                break
    # key pattern against the Eq pattern, all ordered pairs, in each interpreter
    for k, o in enumerate(outs):
        for i in range(n):
            if o["status"][i] != "ok":
                continue
            got = set(o["keyeq"][i])
            for j in sorted(got - eq[i] - dc[i]):
                add("collision", pair_sig("collision", vals[i]["v"], vals[j]["v"]), i, j, child=k)
            for j in sorted(eq[i] - dc[i] - got):
                if o["status"][j] == "ok":
                    add("split", pair_sig("split", vals[i]["v"], vals[j]["v"]), i, j, child=k)
        for i, j in o["hash_bad"]:
            add("hash", {"check": "hash_of_equal_keys_differs", "at": vals[i]["v"]["t"]}, i, j, child=k)
        for i, j, exc in o["cmp_err"]:
            add("cmp", {"check": "key_comparison_raises", "exc": exc}, i, j, child=k)
    # the same key in every process (natively handled types)
    a, b = outs
    for i in range(n):
        if not (vals[i]["native"] and total[i]):
            continue
        if a["ser"][i] != b["ser"][i]:
            cause, at = value_cause(vals[i]["v"])
            add("xproc", {"check": "xproc", "at": at, "cause": cause}, i, observed=[a["ser"][i], b["ser"][i]])
        elif a["pk"][i] != b["pk"][i] and not vals[i]["asis_fs"]:
            cause, at = value_cause(vals[i]["v"])
            add("disk_key", {"check": "disk_key", "at": at, "cause": cause}, i, observed=[a["pk"][i], b["pk"][i]])
    # a stored result may be returned only for an Eq argument
    for k, o in enumerate(outs):
        for name, d in o.items():
            if not (isinstance(d, dict) and "hits" in d):
                continue
            for i, j in d["hits"]:
                if i < 0 or j not in eq[i] | dc[i]:
                    add("stale", pair_sig("stored_result_for_unequal_argument", vals[i]["v"], vals[j]["v"])
                        | {"driver": name.split("_")[0]}, i, j, child=k, driver=name)
            for i, exc in d["raises"]:
                cause, at = value_cause(vals[i]["v"], o["status"][i])
                add("drive_raise", {"check": "cached_call_raises", "driver": name.split("_")[0], "exc": exc,
                                    "at": at, "cause": cause}, i, child=k, driver=name)
            if d.get("error"):
                add("drive_error", {"check": "map_drive", "error": d["error"][:80]}, 0, child=k, driver=name)
    return finds



# ------------------------------------------------------------------------------------------------
# calls: classification of a pair of calls (signatures only; never decides) and the comparator
def _canon_val(v: dict) -> str:
    """abstract value with the members of sets AND the items of plain mappings in a canonical order"""
    a = [_canon_val(x) for x in v["a"]]
    if v["t"] in ("Set", "FrozenSet", "Dict", "DefaultDict", "Counter"):
        a = sorted(a)
    return json.dumps([v["t"], v["s"], v["n"], a])


def call_relation(v: dict, w: dict) -> str:
    """how two different calls of one function are related (most specific first)"""
    def parts(c):
        return c["a"][0]["a"], c["a"][1]["a"]

    def packed(c, d):  # c = f(t, k) positional-only with the tuple t = d's args and the dict k = d's kwargs
        (ca, ck), (da, dk) = parts(c), parts(d)
        return (not ck and len(ca) == 2 and ca[0]["t"] == "Tuple" and ca[1]["t"] == "Dict"
                and _canon_val(ca[0]) == _canon_val(_V("Tuple", a=da)) and _canon_val(ca[1]) == _canon_val(_V("Dict", a=dk)))

    def items_as_tuples(c, d):  # c's positionals = d's positionals + (name, value) tuples of d's keywords
        (ca, ck), (da, dk) = parts(c), parts(d)
        items = sorted(_canon_val(_V("Tuple", a=p["a"])) for p in dk)
        return (not ck and dk and [_canon_val(x) for x in ca[:len(da)]] == [_canon_val(x) for x in da]
                and sorted(_canon_val(x) for x in ca[len(da):]) == items)

    (va, vk), (wa, wk) = parts(v), parts(w)
    if packed(v, w) or packed(w, v):
        return "positional_tuple_and_dict_vs_args_and_kwargs"
    if items_as_tuples(v, w) or items_as_tuples(w, v):
        return "positional_name_value_tuples_vs_keywords"
    flat_v = [_canon_val(x) for x in va] + [_canon_val(p["a"][1]) for p in vk]
    flat_w = [_canon_val(x) for x in wa] + [_canon_val(p["a"][1]) for p in wk]
    names_v, names_w = sorted(p["a"][0]["s"] for p in vk), sorted(p["a"][0]["s"] for p in wk)
    if len(va) != len(wa) and sorted(flat_v) == sorted(flat_w):
        return "positional_vs_keyword_passing"
    if len(va) == len(wa) and names_v != names_w and sorted(flat_v) == sorted(flat_w):
        return "keyword_names"
    if [_canon_val(x) for x in va] == [_canon_val(x) for x in wa]:
        return "keyword_values" if names_v == names_w else "keywords"
    if names_v == names_w and sorted(_canon_val(p) for p in vk) == sorted(_canon_val(p) for p in wk):
        return "positional_order" if sorted(flat_v) == sorted(flat_w) else "positional_values"
    return "other"


def _driver_parts(name: str) -> tuple[str, str, str]:
    _, sig, ct, mode = name.split("_")  # memoize_<sig>_<cache>_<all|pairs>
    return sig, ct, mode


def compare_calls(vals: list[dict], outs: list[dict]) -> list[dict]:
    """Expected (TLC: same call `eq`, SameArguments `same`, CallDontCare `dc`) against the observed pattern of
    "call j was answered with the result stored for call i", per driver (signature x cache class) and interpreter:
    a hit is allowed only inside same | dc, and required inside eq - dc."""
    n = len(vals)
    allowed = [set(r["same"]) | set(r["dc"]) for r in vals]
    required = [set(r["eq"]) - set(r["dc"]) for r in vals]
    finds: list[dict] = []
    for k, o in enumerate(outs):
        for name, d in o.items():
            if not (isinstance(d, dict) and "hits" in d):
                continue
            sig, _ct, _mode = _driver_parts(name)
            hit = {(i, j) for i, j in d["hits"]}
            raised = {i for i, _ in d["raises"]}
            for i, j in sorted(hit):
                if j not in allowed[i]:
                    finds.append({"kind": "call_stale", "i": i, "j": j, "child": k, "driver": name,
                                  "sig": {"check": "memoize_call", "clause": "stored_result_for_a_call_with_other_arguments",
                                          "function": sig, "relation": call_relation(vals[i]["v"], vals[j]["v"])}})
            for i in range(n):
                if vals[i]["v"]["s"] != sig or i in raised:
                    continue
                for j in sorted(required[i]):
                    if (i, j) not in hit and j not in raised:
                        finds.append({"kind": "call_missed", "i": i, "j": j, "child": k, "driver": name,
                                      "sig": {"check": "memoize_call", "clause": "same_call_not_answered_from_the_cache",
                                              "function": sig, "written_differently": vals[i]["v"] != vals[j]["v"]}})
            for i, exc in d["raises"]:
                finds.append({"kind": "call_raise", "i": i, "j": None, "child": k, "driver": name, "observed": exc,
                              "sig": {"check": "memoize_call", "clause": "memoized_call_raises", "function": sig,
                                      "exc": exc}})
    return finds


def report(ctx, vals: list[dict], finds: list[dict], seen: set | None = None) -> None:
    """One ctx.violation per distinct signature (first witness + count); `seen` = signatures reported before."""
    seen = set() if seen is None else seen
    groups: dict[str, list[dict]] = {}
    for f in finds:
        groups.setdefault(json.dumps(f["sig"], sort_keys=True), []).append(f)
    for key in sorted(groups):
        if key in seen:
            continue
        seen.add(key)
        fs = groups[key]
        f = fs[0]
        v = vals[f["i"]]["v"]
        w = vals[f["j"]]["v"] if f["j"] is not None else None
        what = {"total": "to_hashable is not total: {obs} on {v}",
                "collision": "equal keys for values that are not Eq: {v}  vs  {w}",
                "split": "unequal keys for Eq values: {v}  vs  {w}",
                "hash": "equal keys with different hashes: {v} vs {w}",
                "cmp": "comparing two keys raises: {v} vs {w}",
                "xproc": "key differs between interpreters (PYTHONHASHSEED) for {v}",
                "disk_key": "DiskCache file name (_pickle_key of the key) differs between interpreters for {v}",
                "stale": "{drv}: result stored for {v} returned for the non-Eq argument {w}",
                "drive_raise": "{drv}: cached call raises {obs} for argument {v}",
                "call_stale": "{drv}: on one memoized function the call {w} was answered with the result stored for "
                              "the call {v}, whose arguments are different",
                "call_missed": "{drv}: the call {w} was not answered from the cache after the same call {v}",
                "call_raise": "{drv}: the memoized call {v} raises {obs}",
                "drive_error": "{drv}: {obs}"}[f["kind"]]
        drv = f.get("driver", "")
        if f["kind"].startswith("call_"):  # one signature for all cache classes: name them
            drv = "memoize(%s) with %s" % (_SIG_TEXT[v["s"]], "/".join(sorted({_driver_parts(g["driver"])[1] for g in fs})))
        what = what.format(v=show(v), w=show(w) if w else "", obs=f.get("observed", f["sig"].get("exc", f["sig"].get("error"))),
                           drv=drv)
        ctx.violation(f["sig"], f"{what}  [{len(fs)} case(s) with this signature]",
                      {"kind": f["kind"], "v": v, "w": w, "expected": {
                          "eq": w is not None and f["j"] in vals[f["i"]]["eq"],
                          "dontcare": w is not None and f["j"] in vals[f["i"]]["dc"]}
                          | ({"same_arguments": w is not None and f["j"] in vals[f["i"]]["same"],
                              "function": _SIG_TEXT[v["s"]]} if v["t"] == "Call" else {}),
                       "driver": f.get("driver"), "count": len(fs),
                       "more": [[show(vals[g["i"]]["v"]), show(vals[g["j"]]["v"]) if g["j"] is not None else None]
                                for g in fs[1:6]]})


# ------------------------------------------------------------------------------------------------
def selftest(ctx, vals: list[dict], outs: list[dict], base: list[dict]) -> None:
    """Corrupt one expected value / one observed field: the comparator must reject exactly that one."""
    import copy

    def fkey(f):
        return (f["kind"], f["i"], f["j"], f.get("child"), f.get("driver"))

    base_keys = {fkey(f) for f in base}
    # (1) expected: drop j from eq[i] for a pair that is Eq, not don't-care, and whose keys were equal
    pick = next(((i, j) for i, r in enumerate(vals) for j in r["eq"]
                 if j != i and j not in r["dc"] and j in outs[0]["keyeq"][i] and j in outs[1]["keyeq"][i]
                 and vals[i]["native"]), None)
    if pick is None:
        ctx.selftest("expected-corruption", False, "no Eq pair with equal keys to corrupt")
        return
    i, j = pick
    v2 = copy.deepcopy(vals)
    v2[i]["eq"].remove(j)
    new = {fkey(f) for f in compare(v2, outs)} - base_keys
    want = {("collision", i, j, 0, None), ("collision", i, j, 1, None)}
    new_keys = {k for k in new if k[0] == "collision"}
    stale = {k for k in new if k[0] == "stale"}
    ctx.selftest("expected-corruption(one Eq bit cleared)", new_keys == want and all(k[1:3] == (i, j) for k in stale)
                 and len(stale) >= 2, f"pair=({i},{j}) new={sorted(map(str, new))[:8]}")
    # (2) observed: alter the serialisation of one native value in interpreter 2
    o2 = copy.deepcopy(outs)
    o2[1]["ser"][i] = o2[1]["ser"][i] + " "
    new = {fkey(f) for f in compare(vals, o2)} - base_keys
    ctx.selftest("observed-corruption(serialisation of one key)", new == {("xproc", i, None, None, None)},
                 f"value={i} new={sorted(map(str, new))[:8]}")
    # (3) observed: one extra key-equal bit between two values that are not Eq
    k = next(k for k in range(len(vals)) if k not in vals[i]["eq"] and k not in vals[i]["dc"]
             and outs[0]["status"][k] == "ok" and k not in outs[0]["keyeq"][i])
    o3 = copy.deepcopy(outs)
    o3[0]["keyeq"][i].append(k)
    new = {fkey(f) for f in compare(vals, o3)} - base_keys
    ctx.selftest("observed-corruption(one key-equality bit set)", new == {("collision", i, k, 0, None)},
                 f"pair=({i},{k}) new={sorted(map(str, new))[:8]}")


def encoder_attribute_evidence(ctx, vals: list[dict], outs: list[dict]) -> None:
    """The encoder attributes Eq ignores must really come out differently in the Python objects: Eq arrays with
    different contiguity, Eq frozensets with different iteration order (inside one interpreter: colliding small
    ints; between the interpreters: strings under another PYTHONHASHSEED)."""
    lay = fs_in = fs_x = rng_eq = rng_ne = 0
    for i, r in enumerate(vals):
        t = r["v"]["t"]
        if t in ("Series", "DataFrame") and r["v"]["n"] % 2:  # round trip checked in the child: really a RangeIndex
            rng_ne += sum(1 for j in range(i + 1, len(vals)) if j not in r["eq"] and vals[j]["v"]["t"] == t
                          and vals[j]["v"]["n"] % 2 and vals[j]["v"]["a"][-1] == r["v"]["a"][-1]
                          and vals[j]["v"]["a"][0] == r["v"]["a"][0] and vals[j]["v"]["s"] == r["v"]["s"])
        for j in r["eq"]:
            if j <= i:
                continue
            if t in ("Series", "DataFrame") and vals[j]["v"]["n"] != r["v"]["n"]:
                rng_eq += 1
            if t == "NdArray" and outs[0]["flags"][i] != outs[0]["flags"][j]:
                lay += 1
            if t == "FrozenSet" and outs[0]["iter_order"][i] != outs[0]["iter_order"][j]:
                fs_in += 1
        if t == "FrozenSet" and outs[0]["iter_order"][i] != outs[1]["iter_order"][i]:
            fs_x += 1
    ctx.extra["encoder_attributes"] = {"eq_array_pairs_with_different_contiguity": lay,
                                       "eq_frozenset_pairs_iterating_differently_in_one_interpreter": fs_in,
                                       "frozensets_iterating_differently_between_interpreters": fs_x,
                                       "eq_pandas_pairs_with_labels_in_a_rangeindex_and_in_a_materialised_index": rng_eq,
                                       "pandas_pairs_equal_in_cells_with_different_rangeindex_labels": rng_ne}
    ctx.selftest("encoder-attributes-materialised(layout, iteration order, label representation)",
                 lay > 0 and fs_in > 0 and rng_eq > 0 and rng_ne > 0,
                 json.dumps(ctx.extra["encoder_attributes"]))


def scheme_model_evidence(ctx, vals: list[dict], diag: dict, outs: list[dict], key: str = "scheme_models") -> None:
    """What TLC reports about the scheme AS CODED, and which transcription (as coded / repaired) the real
    code conforms to.  Informative: the verdict compares the real keys with Eq, not with a transcription."""
    n = len(vals)
    o = outs[0]
    not_total = [i for i in range(n) if vals[i]["mprob"]]
    agree_tot = sum((o["status"][i] != "ok") == bool(set(vals[i]["mprob"]) - {"unstable"}) for i in range(n))
    both = [i for i in range(n) if not vals[i]["mprob"] and o["status"][i] == "ok"]
    bs = set(both)

    def rows_agree(field: str, idx: list[int]) -> tuple[int, int]:
        """rows on which real and model key classes agree / agree outside the don't-care pairs"""
        keep = set(idx)
        exact = loose = 0
        for i in idx:
            diff = (set(o["keyeq"][i]) & keep) ^ (set(vals[i][field]) & keep)
            exact += not diff
            loose += not (diff - set(vals[i]["dc"]))
        return exact, loose

    ce, cl = rows_agree("mkc", both)
    allok = [i for i in range(n) if o["status"][i] == "ok"]
    re_, rl = rows_agree("mkr", allok)
    ctx.extra[key] = {
        "as_coded": {"tlc_not_total": len(not_total),
                     "tlc_not_total_reasons": sorted({p for i in not_total for p in vals[i]["mprob"]}),
                     "tlc_collisions_ordered_pairs": len(diag["CODED_COLLISION"]),
                     "tlc_splits_ordered_pairs": len(diag["CODED_SPLIT"]),
                     "examples": [[show(vals[i]["v"]), show(vals[j]["v"])] for i, j in diag["CODED_COLLISION"][:4]],
                     "real_code_agrees_on_totality": f"{agree_tot}/{n}",
                     "real_code_agrees_on_key_classes": f"{ce}/{len(both)} rows ({cl} up to don't-care pairs)"},
        "repaired": {"laws_checked_by_tlc": ["InvRepairedTotal", "InvRepairedSound", "InvRepairedComplete"],
                     "real_code_total": f"{len(allok)}/{n}",
                     "real_code_agrees_on_key_classes": f"{re_}/{len(allok)} rows ({rl} up to don't-care pairs)"},
        "note": "informative: the verdict compares the real keys with Eq, not with these transcriptions",
    }


# ------------------------------------------------------------------------------------------------
# beyond the enumerated universe: seeded random values of depth <= 3 plus look-alike mutants of each.
# The expected pattern for exactly these values is again computed by TLC (the module below overrides
# `Universe`); values the spec does not call WellFormed are dropped there, not here.
_OPAQUE = ("Series", "DataFrame", "PyArray", "ByteArray", "Counter")


def _atom(rng):
    k = rng.randrange(5)
    if k == 0:
        return _V("Int", n=rng.randrange(0, 4))
    if k == 1:
        return _V("Bool", n=rng.randrange(2))
    if k == 2:
        return _V("Float", n=rng.randrange(0, 6))
    return _V("Str" if k == 3 else "Bytes", s=rng.choice(["a", "b", "ab"]))


def _distinct(vs: list[dict]) -> list[dict]:
    seen, out = set(), []
    for v in vs:
        o = build(v)
        if o not in seen:
            seen.add(o)
            out.append(v)
    return out


def _is_range(labels: list[dict]) -> bool:
    """the labels could be carried by a RangeIndex (generator only: HashKey!IsRange decides in WellFormed)"""
    ns = [x["n"] for x in labels]
    return (all(x["t"] == "Int" for x in labels)
            and (len(ns) < 2 or (ns[1] != ns[0] and all(b - a == ns[1] - ns[0] for a, b in zip(ns, ns[1:])))))


def _fix_rep(node: dict) -> None:
    """drop the RangeIndex representation of an axis whose labels are no longer a range"""
    a = node["a"]
    rows, cols = (a[1], a[0]) if node["t"] == "DataFrame" else (a[0], None)
    r, c = node["n"] % 2, node["n"] // 2
    node["n"] = (r if _is_range(rows["a"]) else 0) + 2 * (c if cols is not None and _is_range(cols["a"]) else 0)


def _gen_labels(rng, n: int) -> tuple[list[dict], int]:
    """row labels of n rows and their representation: arbitrary small ints, the default range, or the range a slice
    of a bigger frame keeps (other start / step); a range is carried by a RangeIndex or by a materialised Index"""
    k = rng.random()
    if k < 0.4:
        labels = [_V("Int", n=rng.randrange(0, 3)) for _ in range(n)]
    elif k < 0.65:
        labels = [_V("Int", n=i) for i in range(n)]
    else:
        start, step = rng.randrange(0, 3), rng.choice([1, 1, 2, -1])
        labels = [_V("Int", n=start + step * i) for i in range(n)]
    return labels, int(_is_range(labels) and rng.random() < 0.6)


def gen_value(rng, depth: int, hashable: bool = False) -> dict:
    if depth == 0 or rng.random() < 0.2:
        return _atom(rng)
    kinds_h = ["Tuple", "Tuple", "FrozenSet", "PB"]
    kinds = ["Tuple", "List", "List", "Deque", "Set", "FrozenSet", "Dict", "Dict", "OrderedDict", "DefaultDict",
             "Counter", "NdArray", "ObjArray", "Series", "DataFrame", "PA", "PB", "PyArray", "ByteArray"]
    kind = rng.choice(kinds_h if hashable else kinds)
    n = rng.randrange(0, 4)
    ints = lambda lo, hi, m: [_V("Int", n=rng.randrange(lo, hi)) for _ in range(m)]  # noqa: E731
    if kind in ("Tuple", "List"):
        return _V(kind, a=[gen_value(rng, depth - 1, hashable) for _ in range(n)])
    if kind == "Deque":
        return _V("Deque", n=rng.choice([0, 0, 3]), a=[gen_value(rng, depth - 1) for _ in range(n)])
    if kind in ("Set", "FrozenSet"):
        return _V(kind, a=_distinct([gen_value(rng, depth - 1, True) for _ in range(n)]))
    if kind in ("Dict", "OrderedDict", "DefaultDict", "Counter"):
        ks = _distinct([gen_value(rng, min(depth - 1, 1), True) for _ in range(n)])
        xs = [_V("Int", n=rng.randrange(-2, 4)) if kind == "Counter" else gen_value(rng, depth - 1) for _ in ks]
        return _V(kind, s=rng.choice(["int", "list"]) if kind == "DefaultDict" else "",
                  a=[_V("Pair", a=[k, x]) for k, x in zip(ks, xs)])
    if kind == "NdArray":
        dt = rng.choice(["<i8", "<i4", "<f8"])
        m = rng.randrange(0, 5)
        data = [_V("Float", n=rng.randrange(0, 6)) for _ in range(m)] if dt == "<f8" else ints(0, 4, m)
        shapes = [[m], [1, m], [m, 1]] + ([[2, m // 2]] if m % 2 == 0 else []) + ([[]] if m == 1 else [])
        return _V("NdArray", s=dt, a=[_V("Tuple", a=[_V("Int", n=d) for d in rng.choice(shapes)]), _V("Tuple", a=data)])
    if kind == "ObjArray":
        m = rng.randrange(1, 4)
        return _V("NdArray", s="|O", a=[_V("Tuple", a=[_V("Int", n=m)]),
                                        _V("Tuple", a=[gen_value(rng, depth - 1) for _ in range(m)])])
    if kind == "Series":
        data = [_V("Float", n=rng.randrange(0, 6)) for _ in range(n)] if rng.random() < 0.3 else ints(0, 4, n)
        index, r = _gen_labels(rng, n)
        return _V("Series", s=rng.choice(["s", "t"]), n=r, a=[_V("Tuple", a=index), _V("Tuple", a=data)])
    if kind == "DataFrame":
        rows = rng.randrange(0, 4)
        index, r = _gen_labels(rng, rows)
        if rng.random() < 0.25:  # integer column labels, as pd.DataFrame(ndarray) has them (a RangeIndex)
            c0 = rng.randrange(0, 2)
            cols = [_V("Int", n=c0 + i) for i in range(rng.randrange(1, 3))]
            r += 2 * int(rng.random() < 0.6)
        else:
            cols = [_V("Str", s=c) for c in rng.sample(["A", "B", "C"], rng.randrange(1, 3))]
        return _V("DataFrame", n=r, a=[_V("Tuple", a=cols), _V("Tuple", a=index),
                                       _V("Tuple", a=[_V("Tuple", a=ints(0, 4, rows)) for _ in cols])])
    if kind in ("PA", "PB"):
        return _V("Obj", s=kind, a=[gen_value(rng, depth - 1, hashable) for _ in range(2)])
    if kind == "PyArray":
        return _V("PyArray", s=rng.choice(["i", "l"]), a=ints(0, 4, n))
    return _V("ByteArray", a=ints(97, 100, n))


def _nodes(v: dict, out: list) -> list:
    out.append(v)
    if v["t"] == "NdArray":
        if v["s"] == "|O":
            for x in v["a"][1]["a"]:
                _nodes(x, out)
    elif v["t"] not in _OPAQUE:
        for x in v["a"]:
            _nodes(x, out)
    return out


def mutate(rng, v: dict) -> dict:
    """One look-alike of v: same content in another order / container type / numeric type / dtype / shape /
    index, or one atom changed."""
    import copy

    v = copy.deepcopy(v)
    node = rng.choice(_nodes(v, []))
    t, a = node["t"], node["a"]
    retag = {"List": ["Tuple", "Deque"], "Tuple": ["List", "Deque"], "Deque": ["List", "Tuple"], "Set": ["FrozenSet"],
             "FrozenSet": ["Set"], "Dict": ["OrderedDict", "DefaultDict", "Counter"], "OrderedDict": ["Dict", "DefaultDict"],
             "DefaultDict": ["Dict", "OrderedDict"]}
    if t == "Int":
        node.update(rng.choice([_V("Float", n=2 * node["n"]), _V("Int", n=node["n"] + 1)]
                               + ([_V("Bool", n=node["n"])] if node["n"] < 2 else [])))
    elif t == "Bool":
        node.update(_V("Int", n=node["n"]))
    elif t == "Float":
        node.update(_V("Int", n=node["n"] // 2) if node["n"] % 2 == 0 else _V("Float", n=node["n"] + 1))
    elif t in ("Str", "Bytes"):
        node.update(rng.choice([_V("Bytes" if t == "Str" else "Str", s=node["s"]), _V(t, s=node["s"] + "b")]))
    elif t == "NdArray":
        sh = [x["n"] for x in a[0]["a"]]
        if len(sh) == 2 and min(sh) >= 2 and rng.random() < 0.5:
            node["n"] = rng.choice([k for k in (0, 1, 2, 3) if k != node["n"]])  # same value, other memory layout
        elif node["s"] in ("<i8", "<i4") and rng.random() < 0.5:
            node["s"] = "<i4" if node["s"] == "<i8" else "<i8"
        else:
            new = [1, *sh] if rng.random() < 0.5 or len(sh) < 2 else sh[::-1]
            a[0]["a"] = [_V("Int", n=d) for d in new]
            node["n"] = 0
    elif t == "Series":
        k = rng.randrange(6)
        if k == 0:
            a[0]["a"].reverse()
        elif k == 1:
            a[0]["a"].reverse()
            a[1]["a"].reverse()
        elif k == 2:
            node["s"] = "t" if node["s"] == "s" else "s"
        elif k == 3 and a[0]["a"]:
            a[0]["a"][0] = _V("Int", n=(a[0]["a"][0]["n"] + 1) % 3)
        elif k == 4:  # the same labels, the other representation (RangeIndex / materialised Index): an Eq value
            node["n"] ^= 1
        else:  # another slice of the same bigger object: every label shifted, the representation kept
            a[0]["a"] = [_V("Int", n=x["n"] + 1) for x in a[0]["a"]]
        _fix_rep(node)
    elif t == "DataFrame":
        k = rng.randrange(6)
        if k == 0:
            a[0]["a"].reverse()
            a[2]["a"].reverse()
        elif k == 1:
            a[1]["a"].reverse()
        elif k == 2 and a[1]["a"]:
            a[1]["a"][0] = _V("Int", n=(a[1]["a"][0]["n"] + 1) % 3)
        elif k == 3:  # the same row labels, the other representation (RangeIndex / materialised Index): an Eq value
            node["n"] ^= 1
        elif k == 4 and a[0]["a"][0]["t"] == "Int":  # the same for integer column labels
            node["n"] ^= 2
        else:  # another slice of the same bigger frame: every row label shifted, the representation kept
            a[1]["a"] = [_V("Int", n=x["n"] + 1) for x in a[1]["a"]]
        _fix_rep(node)
    elif t == "PyArray":
        node["s"] = "l" if node["s"] == "i" else "i"
    elif t == "Obj":
        node["s"] = "PB" if node["s"] == "PA" else "PA"
    elif t in retag and (len(a) < 2 or rng.random() < 0.5):
        new = rng.choice(retag[t])
        if new == "Counter":
            for p in a:
                p["a"][1] = _V("Int", n=1)
        node["t"] = new
        node["s"] = "int" if new == "DefaultDict" else ""
        node["n"] = 0
    elif len(a) >= 2:
        a.reverse()
    return v


def random_universe(rng, nbase: int, depth: int) -> list[dict]:
    seen: dict[str, dict] = {}
    for _ in range(nbase):
        v = gen_value(rng, depth)
        if v["t"] in ("Int", "Bool", "Float", "Str", "Bytes"):
            continue
        for x in [v] + [mutate(rng, v) for _ in range(3)]:
            seen.setdefault(json.dumps(x, sort_keys=True), x)
    return list(seen.values())


def depth_of(v: dict) -> int:
    """container nesting depth (scalars 0; arrays and pandas objects count as one level)"""
    t = v["t"]
    if t in ("Series", "DataFrame"):
        return 1
    kids = v["a"][1]["a"] if t == "NdArray" else [y for x in v["a"] for y in (x["a"] if x["t"] == "Pair" else [x])]
    if t in ("Int", "Bool", "Float", "Str", "Bytes"):
        return 0
    return 1 + max((depth_of(x) for x in kids), default=0)


def random_prepare(lane, seed: int, seeds: tuple[int, int], nbase: int) -> tuple:
    import random

    rng = random.Random(1500 + seed)
    raw = random_universe(rng, nbase, 3)
    mod = ("---- MODULE MC_HashKeyRandom ----\nEXTENDS MC_HashKey\nRawValues == {%s}\n"
           "ReplayUniverse == {v \\in RawValues : WellFormed(v)}\n====\n" % ",\n  ".join(tla_value(v) for v in raw))
    vals, diag = export_universe(lane, 1, 1 if nbase <= 60 else 4, override=mod, module="MC_HashKeyRandom", name="rnd")
    outs = run_children(lane, vals, seeds, ["simple"], ["simple"], name="rnd_child")
    return raw, vals, diag, outs


def random_finish(ctx, prep: tuple, seen: set) -> list[dict]:
    raw, vals, diag, outs = prep
    finds = compare(vals, outs)
    report(ctx, vals, finds, seen)
    scheme_model_evidence(ctx, vals, diag, outs, key="scheme_models_random")
    n = len(vals)
    for r in vals:
        ctx.case(r["v"])
    ctx.evaluations += n * n * len(outs)
    ctx.traces_validated += n
    ctx.extra["random_depth3"] = {
        "generated": len(raw), "well_formed_per_spec": n, "ordered_pairs_per_interpreter": n * n,
        "max_depth": max(depth_of(r["v"]) for r in vals), "eq_pairs_i_ne_j": sum(len(r["eq"]) - 1 for r in vals),
        "dontcare_pairs": sum(len(r["dc"]) for r in vals),
        "findings_by_kind": dict(sorted(collections.Counter(f["kind"] for f in finds).items())),
        "example": show(vals[n // 2]["v"])}
    return finds



# ------------------------------------------------------------------------------------------------
# calls of a memoized function (HashKey section 4)
def selftest_calls(ctx, vals: list[dict], outs: list[dict], base: list[dict]) -> None:
    """Corrupt one expected bit / one observed bit of the call pattern: exactly that pair must be rejected."""
    import copy

    def fkey(f):
        return (f["kind"], f["i"], f["j"], f["child"], f["driver"])

    base_keys = {fkey(f) for f in base}
    drivers = {k: sorted(name for name, d in o.items() if isinstance(d, dict) and "hits" in d) for k, o in enumerate(outs)}
    allname = "memoize_var_simple_all"
    hit0 = {(i, j) for i, j in outs[0][allname]["hits"]}
    pick = next(((i, j) for i, r in enumerate(vals) if r["v"]["s"] == "var" for j in r["eq"]
                 if j != i and j not in r["dc"] and (i, j) in hit0), None)
    if pick is None:
        ctx.selftest("calls: expected-corruption", False, "no pair of equal calls written differently that hit")
        return
    i, j = pick
    # (1) expected: TLC's verdict "same call / same arguments" withdrawn for one ordered pair
    v2 = copy.deepcopy(vals)
    v2[i]["eq"].remove(j)
    v2[i]["same"].remove(j)
    new = {fkey(f) for f in compare_calls(v2, outs)} - base_keys
    want = {("call_stale", i, j, k, name) for k in drivers for name in drivers[k] if name.startswith("memoize_var_")}
    ctx.selftest("calls: expected-corruption(one SameArguments bit cleared)", new == want and len(want) >= 2,
                 f"pair=({i},{j}) {show(vals[i]['v'])} / {show(vals[j]['v'])} new={sorted(map(str, new))[:6]}")
    # (2) observed: one extra hit between calls with different arguments
    k = next(k for k, r in enumerate(vals) if r["v"]["s"] == "var" and k not in vals[i]["same"] and k not in vals[i]["dc"]
             and (i, k) not in hit0)
    o2 = copy.deepcopy(outs)
    o2[0][allname]["hits"].append([i, k])
    new = {fkey(f) for f in compare_calls(vals, o2)} - base_keys
    ctx.selftest("calls: observed-corruption(one hit added)", new == {("call_stale", i, k, 0, allname)},
                 f"pair=({i},{k}) new={sorted(map(str, new))[:6]}")
    # (3) observed: the hit of a repeated call removed
    o3 = copy.deepcopy(outs)
    o3[1][allname]["hits"].remove([i, j])
    new = {fkey(f) for f in compare_calls(vals, o3)} - base_keys
    ctx.selftest("calls: observed-corruption(one hit removed)", new == {("call_missed", i, j, 1, allname)},
                 f"pair=({i},{j}) new={sorted(map(str, new))[:6]}")
    # the law has teeth: on the two variant wrappers TLC itself exhibits calls with different arguments and one key
    nb, nk = sum(len(r["bare"]) for r in vals), sum(len(r["kwvalues"]) for r in vals)
    ex = next(([show(r["v"]), show(vals[r["bare"][0]]["v"])] for r in vals if r["bare"]), None)
    ctx.selftest("calls: tlc-exhibits-collisions-of-the-variant-wrappers", nb > 0 and nk > 0,
                 f"'(args, kwargs) if kwargs else args': {nb} ordered pairs, e.g. {ex}; 'args + kwargs.values()': {nk}")


def calls_prepare(lane, depth: int, seeds: tuple[int, int], pair_caches: list[str]) -> tuple:
    vals, _ = export_universe(lane, depth, 4 if depth == 1 else 16, name="calls", part="calls")
    outs = run_children(lane, vals, seeds, pair_caches, [], name="calls_child", part="calls")
    return vals, outs


def calls_finish(ctx, prep: tuple, seen: set) -> None:
    vals, outs = prep
    finds = compare_calls(vals, outs)
    report(ctx, vals, finds, seen)
    selftest_calls(ctx, vals, outs, finds)
    n = len(vals)
    for r in vals:
        ctx.case(r["v"], nontrivial=True)
    by_sig = collections.Counter(r["v"]["s"] for r in vals)
    ctx.evaluations += sum(c * c for c in by_sig.values()) * len(outs)
    ctx.traces_validated += n
    hit0 = collections.defaultdict(set)
    for name, d in outs[0].items():
        if name.endswith("_simple_all"):
            for i, j in d["hits"]:
                hit0[i].add(j)
    ctx.extra["calls"] = {
        "signatures": {s: _SIG_TEXT[s] for s in sorted(by_sig)}, "calls": dict(sorted(by_sig.items())),
        "ordered_pairs_per_interpreter": sum(c * c for c in by_sig.values()),
        "same_call_pairs_i_ne_j": sum(len(r["eq"]) - 1 for r in vals),
        "same_arguments_pairs_i_ne_j": sum(len(r["same"]) - 1 for r in vals),
        "dontcare_pairs": sum(len(r["dc"]) for r in vals),
        "packed_twins": sum(1 for r in vals for j in r["bare"]),
        "drivers": {name: {"hits": len(d["hits"])} | ({"pairs": d["pairs"]} if "pairs" in d else {})
                    for name, d in sorted(outs[0].items()) if isinstance(d, dict) and "hits" in d},
        "real_code_agrees_with_the_wrapper_as_coded": f"{sum(hit0[i] == set(r['mk']) for i, r in enumerate(vals))}/{n} rows",
        "child_times_s": [o["t_calls"] for o in outs],
        "findings_by_kind": dict(sorted(collections.Counter(f["kind"] for f in finds).items())),
        "examples": [show(vals[i]["v"]) for i in (n // 5, n // 2, n - 3)]}


def gen_call(rng) -> dict:
    sig = "var" if rng.random() < 0.7 else "fixed"
    na = rng.randrange(0, 4) if sig == "var" else rng.randrange(1, 3)
    pool = ["q", "r", "x"] if sig == "var" else ["q", "r"] if na == 1 else ["r"]
    names = rng.sample(pool, rng.randrange(0, min(len(pool), 2) + 1))
    return _V("Call", s=sig, a=[_V("Tuple", a=[gen_value(rng, 2) for _ in range(na)]),
                                _V("Dict", a=[_V("Pair", a=[_V("Str", s=k), gen_value(rng, 2)]) for k in names])])


def mutate_call(rng, c: dict, how: str | None = None) -> dict:
    """One look-alike of a call: the same material passed differently (packed into a positional tuple and dict,
    unpacked, a positional passed by keyword or the reverse, a keyword passed as a (name, value) tuple, renamed,
    keywords written in another order) or one argument replaced by a look-alike value."""
    import copy

    c = copy.deepcopy(c)
    args, kw = c["a"][0]["a"], c["a"][1]["a"]
    names = [p["a"][0]["s"] for p in kw]
    free = [k for k in ("q", "r", "x") if k not in names]
    how = how or rng.choice(["pack", "unpack", "pos2kw", "kw2pos", "kwitem2pos", "rename", "reverse_kw", "swap_args",
                             "drop_kw", "value", "value"])
    if how == "pack":
        c["a"] = [_V("Tuple", a=[_V("Tuple", a=args), _V("Dict", a=kw)]), _V("Dict")]
    elif how == "unpack" and not kw and len(args) == 2 and args[0]["t"] == "Tuple" and args[1]["t"] == "Dict" \
            and all(p["a"][0]["t"] == "Str" for p in args[1]["a"]):
        c["a"] = [_V("Tuple", a=args[0]["a"]), _V("Dict", a=args[1]["a"])]
    elif how == "pos2kw" and args and free:
        kw.append(_V("Pair", a=[_V("Str", s=free[0]), args.pop()]))
    elif how == "kw2pos" and kw:
        args.append(kw.pop(0)["a"][1])
    elif how == "kwitem2pos" and kw:
        args.append(_V("Tuple", a=kw.pop()["a"]))
    elif how == "rename" and kw and free:
        kw[rng.randrange(len(kw))]["a"][0] = _V("Str", s=free[0])
    elif how == "reverse_kw" and len(kw) >= 2:
        kw.reverse()
    elif how == "swap_args" and len(args) >= 2:
        args.reverse()
    elif how == "drop_kw" and kw:
        kw.pop()
    else:
        slots = [(args, i) for i in range(len(args))] + [(p["a"], 1) for p in kw]
        if slots:
            holder, i = rng.choice(slots)
            holder[i] = mutate(rng, holder[i])
    return c


def random_calls_prepare(lane, seed: int, seeds: tuple[int, int], nbase: int) -> tuple:
    """Seeded random calls with arguments of depth <= 2 (so the (args, kwargs) object has depth <= 3) plus, for each,
    its packed twin and look-alike calls; the expected pattern for exactly these calls is computed by TLC."""
    import random

    rng = random.Random(2500 + seed)
    raw: dict[str, dict] = {}
    for _ in range(nbase):
        c = gen_call(rng)
        for x in [c, mutate_call(rng, c, "pack")] + [mutate_call(rng, c) for _ in range(3)]:
            raw.setdefault(json.dumps(x, sort_keys=True), x)
    mod = ("---- MODULE MC_HashKeyRandomCalls ----\nEXTENDS MC_HashKey\nRawCalls == {%s}\n"
           "ReplayCallUniverse == {c \\in RawCalls : CallWellFormed(c)}\n====\n" % ",\n  ".join(tla_value(v) for v in raw.values()))
    vals, _ = export_universe(lane, 1, 1 if nbase <= 40 else 4, override=mod, module="MC_HashKeyRandomCalls",
                              name="rndcalls", part="calls")
    outs = run_children(lane, vals, seeds, ["lru"], [], name="rndcalls_child", part="calls")
    return raw, vals, outs


def random_calls_finish(ctx, prep: tuple, seen: set) -> None:
    raw, vals, outs = prep
    finds = compare_calls(vals, outs)
    report(ctx, vals, finds, seen)
    n = len(vals)
    for r in vals:
        ctx.case(r["v"])
    by_sig = collections.Counter(r["v"]["s"] for r in vals)
    ctx.evaluations += sum(c * c for c in by_sig.values()) * len(outs)
    ctx.traces_validated += n
    ctx.extra["random_calls"] = {
        "generated": len(raw), "well_formed_and_binding_per_spec": n, "calls": dict(sorted(by_sig.items())),
        "max_depth_of_args_kwargs_object": max(depth_of(_V("Tuple", a=r["v"]["a"])) for r in vals),
        "same_arguments_pairs_i_ne_j": sum(len(r["same"]) - 1 for r in vals),
        "dontcare_pairs": sum(len(r["dc"]) for r in vals),
        "packed_twins": sum(len(r["bare"]) for r in vals),
        "findings_by_kind": dict(sorted(collections.Counter(f["kind"] for f in finds).items())),
        "example": show(vals[n // 2]["v"])}


def run(ctx) -> None:
    quick = ctx.tier == "quick"
    depth = 1 if quick else 2
    seeds = (101 + ctx.seed, 20202 + ctx.seed)
    ctx.rule = ("case = one abstract Python value of the TLA+-defined universe (MC_HashKey: 2 atoms per scalar type, "
                "containers of length <= 2 drawn from look-alike pools, depth <= %d), materialised twice in each of two "
                "interpreters (PYTHONHASHSEED %d / %d); every ORDERED PAIR of values is compared (key equality vs Eq) "
                "and driven through memoize; non-trivial = the value is a container/array/object (not a scalar).  "
                "Second universe (CallSpec): one case = one call f(*args, **kw) of a memoized function with signature "
                "(*args, **kwargs) or (p, q=0, *, r=1), closed under packing (f(*t, **d) and f(t, d)); every ordered pair "
                "of calls is issued on one memoized function per signature and cache class"
                % (depth, *seeds))
    ctx.assumptions = ["TLC and the value encoder (abstract value -> Python object; round trip checked per value) are trusted",
                       "Python's == on keys is what the caches use (dict lookup: also hash equality is checked)",
                       "encoder attributes (set / frozenset / dict insertion order, array memory layout, row / column labels of a "
                       "pandas object carried by a RangeIndex or by a materialised Index) are not part of a value: "
                       "Eq ignores them, keys must too; the labels themselves (any start / step of a RangeIndex) are part of it",
                       "don't-care (either outcome accepted): numerically equal scalars of different numeric type; "
                       "deque.maxlen / defaultdict.default_factory / array typecode; Eq objects keyed by pickle whose "
                       "representation differs; pickle bytes of as-is frozensets (DiskCache file names)",
                       "arbitrary picklable objects are represented by two importable dataclasses (eq-only PA, frozen PB)",
                       "calls: the arguments of a call are what the function receives under Python's binding rules "
                       "(HashKey!Bound; checked against the real function at every first execution); equal arguments passed "
                       "differently (positionally / by keyword / defaulted) are don't-care, the same call must hit"]
    def values_prepare(lane):
        vals, diag = export_universe(lane, depth, 4 if quick else 16)
        outs = run_children(lane, vals, seeds, pair_caches=["simple"] if quick else ["simple", "lru", "hybrid", "disk"],
                            pass_caches=["simple"] if quick else ["simple", "lru"])
        return vals, diag, outs

    lanes = [_Lane(ctx) for _ in range(4)]
    with ThreadPoolExecutor(max_workers=4) as pool:
        futs = [pool.submit(values_prepare, lanes[0]),
                pool.submit(random_prepare, lanes[1], ctx.seed, seeds, 40 if quick else 150),
                # calls of a memoized function: positional AND keyword arguments (HashKey section 4)
                pool.submit(calls_prepare, lanes[2], depth, seeds, ["lru", "hybrid", "disk"]),
                pool.submit(random_calls_prepare, lanes[3], ctx.seed, seeds, 25 if quick else 100)]
        preps = []
        for lane, fut in zip(lanes, futs):  # wait in this order; TLC runs are registered in this order
            try:
                preps.append(fut.result())
            finally:
                lane.flush()
    vals, diag, outs = preps[0]
    n = len(vals)
    finds = compare(vals, outs)
    seen: set = set()
    report(ctx, vals, finds, seen)
    selftest(ctx, vals, outs, finds)
    # the laws have teeth: on the transcription of the scheme AS CODED, TLC itself must exhibit non-totality and collisions
    ctx.selftest("tlc-exhibits-defects-of-the-coded-scheme",
                 any(r["mprob"] for r in vals) and len(diag["CODED_COLLISION"]) > 0,
                 f"not total: {sum(1 for r in vals if r['mprob'])} values, collisions: {len(diag['CODED_COLLISION'])} ordered pairs")
    # ... and on the variant "None in place of the labels of a RangeIndex" both laws must break
    nxc, nxs = sum(len(r["xcoll"]) for r in vals), sum(len(r["xsplit"]) for r in vals)
    exc = next(([show(r["v"]), show(vals[r["xcoll"][0]]["v"])] for r in vals if r["xcoll"]), None)
    exs = next(([show(r["v"]), show(vals[r["xsplit"][0]]["v"])] for r in vals if r["xsplit"]), None)
    ctx.selftest("tlc-exhibits-defects-of-the-variant(None for a RangeIndex)", nxc > 0 and nxs > 0,
                 f"KeySound: {nxc} ordered pairs, e.g. {exc}; KeyComplete: {nxs} ordered pairs, e.g. {exs}")
    scheme_model_evidence(ctx, vals, diag, outs)
    encoder_attribute_evidence(ctx, vals, outs)
    random_finish(ctx, preps[1], seen)
    calls_finish(ctx, preps[2], seen)
    random_calls_finish(ctx, preps[3], seen)

    for r in vals:
        ctx.case(r["v"], nontrivial=r["v"]["t"] not in ("Int", "Bool", "Float", "Str", "Bytes"))
    ctx.evaluations += n * n * len(outs)
    ctx.traces_validated += n
    ctx.exhaustive = True  # the TLA+-defined universe is consumed entirely; the random depth-3 batch is extra
    eq_pairs = sum(len(r["eq"]) - 1 for r in vals)
    ctx.extra.update({
        "universe_values": n, "ordered_pairs_per_interpreter": n * n, "eq_pairs_i_ne_j": eq_pairs,
        "dontcare_pairs": sum(len(r["dc"]) for r in vals),
        "types": dict(sorted(collections.Counter(r["v"]["t"] for r in vals).items())),
        "hash_seeds": list(seeds),
        "memoize_hits_observed": [len(o["memoize_all"]["hits"]) for o in outs],
        "drivers": sorted(k for k, d in outs[0].items() if isinstance(d, dict) and "hits" in d),
        "child_times_s": [{k: o[k] for k in ("t_memoize", "t_pairs", "t_passes")} for o in outs],
        "disk_key_unstable_asis_frozenset": sum(1 for i in range(n) if vals[i]["asis_fs"] and outs[0]["pk"][i] != outs[1]["pk"][i]),
        "findings_by_kind": dict(sorted(collections.Counter(f["kind"] for f in finds).items())),
    })
    for i in (n // 7, n // 3, n // 2, (2 * n) // 3, n - 5):
        ctx.sample({"value": show(vals[i]["v"]), "eq_class": [show(vals[j]["v"]) for j in vals[i]["eq"]],
                    "dontcare": [show(vals[j]["v"]) for j in vals[i]["dc"]][:4], "key": outs[0]["ser"][i][:200]})


# ------------------------------------------------------------------------------------------------
def tla_value(v: dict) -> str:
    return ('[t |-> %s, s |-> %s, n |-> %d, a |-> <<%s>>]'
            % (json.dumps(v["t"]), json.dumps(v["s"]), v["n"], ", ".join(tla_value(x) for x in v["a"])))


def _replay_calls(ctx, rep: dict, values: list[dict]) -> int:
    """The witness calls alone: TLC decides SameArguments / CallDontCare on this universe, two fresh
    interpreters issue the calls on one memoized function per cache class, the same comparator reports."""
    mod = ("---- MODULE MC_HashKeyReplayCalls ----\nEXTENDS MC_HashKey\nReplayCallUniverse == {%s}\n====\n"
           % ",\n  ".join(tla_value(v) for v in values))
    vals, _ = export_universe(ctx, 1, 1, override=mod, module="MC_HashKeyReplayCalls", name="replay", part="calls")
    outs = run_children(ctx, vals, (101, 20202), ["lru", "hybrid", "disk"], [], name="replay_child", part="calls")
    finds = compare_calls(vals, outs)
    for r in vals:
        print("call", r["i"] - 1, show(r["v"]), "of", _SIG_TEXT[r["v"]["s"]], "| receives", show(r["bound"]),
              "| same call as", r["eq"], "same arguments as", r["same"], "don't-care with", r["dc"])
    for k, o in enumerate(outs):
        for name, d in sorted(o.items()):
            if isinstance(d, dict) and "hits" in d:
                print(f"interpreter {k} {name}: answered-from-cache pairs [stored, asked] = {d['hits']} raises={d['raises']}")
    kinds = sorted({f["kind"] for f in finds})
    same = any(f["sig"] == rep["sig"] for f in finds)
    print("replay:", f"VIOLATION reproduced ({kinds})" if finds else "no violation on this witness",
          "" if not finds else f"[same signature: {same}]")
    return 1 if finds else 0


def replay(rep: dict) -> int:
    """Re-run the witness pair: TLC decides Eq / DontCare on a two-value universe, two fresh interpreters
    compute the real keys, the same comparator reports."""
    from ..ctx import Ctx

    w = rep["witness"]
    values = [w["v"]] + ([w["w"]] if w.get("w") else [])
    ctx = Ctx(PROPERTY, "quick", 0)
    ctx.findings = []
    if w["v"]["t"] == "Call":
        try:
            return _replay_calls(ctx, rep, values)
        finally:
            ctx.cleanup()
    try:
        mod = ("---- MODULE MC_HashKeyReplay ----\nEXTENDS MC_HashKey\nReplayUniverse == {%s}\n====\n"
               % ",\n  ".join(tla_value(v) for v in values))
        vals, _ = export_universe(ctx, 1, 1, override=mod, module="MC_HashKeyReplay", name="replay")
        outs = run_children(ctx, vals, (101, 20202), ["simple", "lru"], ["simple"], name="replay_child")
        finds = compare(vals, outs)
        for r in vals:
            print("value", r["i"] - 1, show(r["v"]), "| Eq with", r["eq"], "don't-care with", r["dc"])
        for k, o in enumerate(outs):
            print(f"interpreter {k}: status={o['status']} keyeq={o['keyeq']}")
            for s in o["ser"]:
                print("   key:", s[:300])
        kinds = sorted({f["kind"] for f in finds})
        sigs = [f["sig"] for f in finds]
        same = any(s == rep["sig"] for s in sigs)
        print("replay:", f"VIOLATION reproduced ({kinds})" if finds else "no violation on this witness",
              "" if not finds else f"[same signature: {same}]")
        return 1 if finds else 0
    finally:
        ctx.cleanup()
