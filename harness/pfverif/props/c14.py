"""C14 - cache containers conform to their replacement-policy model (spec/Cache.tla, CacheConc.tla).

1. TLC checks the model's invariants over every mutator sequence up to Depth (MC_Cache) and prints the
   leaves (the op-sequence universe).
2. Every sequence is replayed on the real LRUCache / HybridCache / SimpleCache / DiskCache; after every
   operation the result and all non-perturbing observations are logged.
3. TLC validates every recorded history against the same operators (TraceCache).
4. Longer random histories (more keys) go through 2-3 as well.
"""
from __future__ import annotations

import json
import multiprocessing as mp
import os
import random
import shutil
import tempfile
import time
from pathlib import Path

from ..ctx import Ctx
from ..tlc import MachineryError, run_tlc
from ..tracekit import parse_prints, validate_traces

PROPERTY = "C14"
LEVEL = "model_checking"

KIND_CLS = {"lru": "LRUCache", "hybrid": "HybridCache", "simple": "SimpleCache", "disk": "DiskCache"}


# ------------------------------------------------------------------------------------------------
# real-code driver
def _ctime_gap() -> float:
    """Smallest sleep that makes two successive file writes get distinct st_ctime_ns here."""
    d = tempfile.mkdtemp(prefix="pfverif_ct_")
    try:
        gap = 0.0
        for _ in range(6):
            ok = True
            for i in range(8):
                p = Path(d) / f"f{i}"
                p.write_bytes(b"x")
                if i and p.stat().st_ctime_ns <= (Path(d) / f"f{i-1}").stat().st_ctime_ns:
                    ok = False
                    break
                if gap:
                    time.sleep(gap)
            if ok:
                return gap
            gap = 0.002 if gap == 0 else gap * 2
        return gap
    finally:
        shutil.rmtree(d, ignore_errors=True)


def make_cache(cfg: dict, tmpdir: str | None):
    from pipefunc import cache as pc

    kind = cfg["kind"]
    shared = cfg.get("shared", False)
    if kind == "lru":
        return pc.LRUCache(max_size=cfg["max"], shared=shared)
    if kind == "hybrid":
        s = cfg["aw"] + cfg["dw"]
        return pc.HybridCache(max_size=cfg["max"], access_weight=cfg["aw"] / s, duration_weight=cfg["dw"] / s,
                              shared=shared)
    if kind == "simple":
        return pc.SimpleCache()
    if kind == "disk":
        return pc.DiskCache(tmpdir, max_size=cfg["max"], with_lru_cache=cfg["lsize"] > 0,
                            lru_cache_size=max(cfg["lsize"], 1), lru_shared=shared)
    raise ValueError(kind)


class _Unserialisable:
    """A value no pickler accepts (like a lock, an open file, a generator); containers that keep references hold it as is."""

    def __reduce__(self):
        raise TypeError("cannot pickle this value")

    def __reduce_ex__(self, protocol):
        raise TypeError("cannot pickle this value")


BAD = _Unserialisable()


def _val(v):
    return 0 if v is None else 999 if isinstance(v, _Unserialisable) else v


def observe(c, cfg: dict) -> dict:
    keys = cfg["keys"]
    o: dict = {}
    o["present"] = [k for k in keys if k in c]
    o["len"] = len(c)
    if cfg["kind"] == "disk" and cfg["lsize"] == 0:
        o["vals"] = []
    else:
        o["vals"] = sorted([k, _val(v)] for k, v in dict(c.cache).items())
    if cfg["kind"] == "hybrid":
        o["cnts"] = sorted([k, v] for k, v in dict(c.access_counts).items())
        o["durs"] = sorted([k, int(v)] for k, v in dict(c.computation_durations).items())
    else:
        o["cnts"] = []
        o["durs"] = []
    return o


def replay_ops(cfg: dict, ops: list[dict], gap: float = 0.0, reuse=None, second=None, keep_dir: str | None = None) -> dict:
    """Run ops on a real cache; return the trace record.  second: another HANDLE of the same shared cache (a pickled copy,
    as a worker process holds one): every other operation goes through it, everything is observed through the first."""
    tmpdir = keep_dir or (tempfile.mkdtemp(prefix="pfverif_dc_") if cfg["kind"] == "disk" else None)
    ev = []
    try:
        c = reuse if reuse is not None else make_cache(cfg, tmpdir)
        cur = dict(cfg)
        first = None
        for t_, o in enumerate(ops):
            if second is not None:           # alternate between the two handles
                first = first or c
                c = second if t_ % 2 == 1 else first
            e = {"op": o["op"], "k": o.get("k", ""), "v": o.get("v", 0), "d": o.get("d", 0),
                 "max": o.get("max", 0), "lsize": o.get("lsize", 0), "exc": ""}
            try:
                if o["op"] == "put":
                    if cfg["kind"] == "hybrid":
                        r = c.put(o["k"], o["v"] or None, float(o["d"]))     # v = 0 (NoneV) is Python's None
                    else:
                        r = c.put(o["k"], o["v"] or None)
                        if cfg["kind"] == "disk" and gap:
                            time.sleep(gap)
                elif o["op"] == "putbad":     # a refused put is an outcome (RaisedV), anything else that raises is not
                    try:
                        r = c.put(o["k"], BAD, float(o["d"])) if cfg["kind"] == "hybrid" else c.put(o["k"], BAD)
                    except (TypeError, AttributeError, __import__("pickle").PicklingError):
                        r = -2
                    if cfg["kind"] == "disk" and gap:
                        time.sleep(gap)
                elif o["op"] == "get":
                    r = _val(c.get(o["k"])) or None
                elif o["op"] == "clear":
                    r = c.clear()
                elif o["op"] == "in":
                    r = 1 if o["k"] in c else 0
                elif o["op"] == "len":
                    r = len(c)
                elif o["op"] == "wipe":       # another DiskCache object on the same directory clears it
                    make_cache(dict(cur, lsize=0), tmpdir).clear()
                    r = None
                elif o["op"] == "reopen" and cfg.get("xproc") and tmpdir:
                    # the directory is reopened by ANOTHER interpreter (other hash seed); it runs the rest of the history
                    cur = dict(cur, max=o["max"], lsize=o["lsize"])
                    e["res"] = 0
                    tail = _in_other_interpreter(cur, ops[t_ + 1:], tmpdir, gap)
                    e.update(tail.pop(0))
                    ev.append(e)
                    ev += tail
                    break
                elif o["op"] == "reopen":
                    cur = dict(cur, max=o["max"], lsize=o["lsize"])
                    c = make_cache(cur, tmpdir)
                    r = None
                else:
                    raise ValueError(o["op"])
                e["res"] = 0 if r is None else r
                e.update(observe(first if second is not None else c, cur))
            except Exception as ex:  # noqa: BLE001  a raise is an event, never a gap
                e["res"] = -1
                e["exc"] = type(ex).__name__
                e.update({"present": [], "len": -1, "vals": [], "cnts": [], "durs": []})
                ev.append(e)
                break  # the object's state is undefined after an unexpected raise
            ev.append(e)
    finally:
        if tmpdir and not keep_dir:
            shutil.rmtree(tmpdir, ignore_errors=True)
    return {"kind": cfg["kind"], "max": cfg["max"], "lsize": cfg["lsize"], "aw": cfg["aw"], "dw": cfg["dw"],
            "keys": cfg["keys"], "shared": cfg.get("shared", False), "ev": ev, "ops": ops}


def _in_other_interpreter(cfg: dict, ops: list[dict], tmpdir: str, gap: float) -> list[dict]:
    """Observation right after reopening + the events of `ops`, all produced by a new interpreter with another hash seed."""
    import subprocess
    import sys
    from .. import bootstrap
    code = ("import json,sys\nfrom pfverif import bootstrap\nfrom pfverif.props import c14\n"
            f"cfg=json.loads({json.dumps(json.dumps(cfg))}); ops=json.loads({json.dumps(json.dumps(ops))})\n"
            f"c=c14.make_cache(cfg, {tmpdir!r})\nout=[c14.observe(c, cfg)]\n"
            f"out+=c14.replay_ops(cfg, ops, gap={gap!r}, reuse=c, keep_dir={tmpdir!r})['ev']\nprint('@@'+json.dumps(out))\n")
    env = bootstrap.child_env()
    env["PYTHONHASHSEED"] = "4711"
    p = subprocess.run([sys.executable, "-c", code], env=env, capture_output=True, text=True, timeout=300)
    line = next((ln for ln in p.stdout.splitlines() if ln.startswith("@@")), None)
    if line is None:
        raise MachineryError("other interpreter failed: " + (p.stderr or p.stdout)[-300:])
    return json.loads(line[2:])


_G: dict = {}


def _worker(args):
    cfg, ops = args
    return replay_ops(cfg, ops, gap=_G.get("gap", 0.0))


def _shared_worker(args):
    """Shared caches: one Manager-backed object per (worker, config), reused after clear()."""
    cfg, ops = args
    key = json.dumps(cfg, sort_keys=True)
    store = _G.setdefault("shared_objs", {})
    if key not in store:
        store[key] = make_cache(cfg, None)
    c = store[key]
    c.clear()
    if len(c) != 0 or any(k in c for k in cfg["keys"]):
        return {"machinery": "clear() left entries behind", "cfg": cfg}
    if cfg["kind"] == "lru" and len(c._cache_queue) != 0:  # noqa: SLF001  reuse hygiene only
        return {"machinery": "clear() left queue entries", "cfg": cfg}
    if cfg.get("handles") == 2:
        import pickle
        return replay_ops(cfg, ops, reuse=c, second=pickle.loads(pickle.dumps(c)))  # noqa: S301
    return replay_ops(cfg, ops, reuse=c)


def run_many(jobs: list[tuple[dict, list[dict]]], gap: float, shared: bool = False) -> list[dict]:
    _G["gap"] = gap
    if not jobs:
        return []
    from concurrent.futures import ProcessPoolExecutor
    with ProcessPoolExecutor(min(16, os.cpu_count() or 4), mp_context=mp.get_context("fork")) as pool:
        return list(pool.map(_shared_worker if shared else _worker, jobs, chunksize=max(1, len(jobs) // 256)))


# ------------------------------------------------------------------------------------------------
MC_CFG = """SPECIFICATION Spec
CONSTANTS Kind = "{kind}" Max = {max} LSize = {lsize} AW = {aw} DW = {dw} Keys = {keys} Durs = {durs}
          Depth = {depth} Export = {export} WithReopen = {reopen} WithNone = {none} WithReput = {reput} WithBad = {bad}
INVARIANT InvWellFormed InvLenBounded InvPutBounds InvGetIsLastPut InvPresentWasPut Emit
"""


def tla_set(xs) -> str:
    return "{" + ", ".join(json.dumps(x) if isinstance(x, str) else str(x) for x in xs) + "}"


def enumerate_sequences(ctx: Ctx, cfg: dict, depth: int, durs: list[int], reopen: bool) -> list[list[dict]]:
    wd = ctx.workdir(f"mc_{cfg['kind']}_{cfg['max']}_{cfg['lsize']}_{cfg['aw']}{cfg['dw']}_d{depth}{'b' if cfg.get('bad') else ''}")
    text = MC_CFG.format(kind=cfg["kind"], max=cfg["max"], lsize=cfg["lsize"], aw=cfg["aw"], dw=cfg["dw"],
                         keys=tla_set(cfg["keys"]), durs=tla_set(durs), depth=depth, export="TRUE",
                         reopen="TRUE" if reopen else "FALSE", none="TRUE" if cfg.get("none") else "FALSE",
                         reput="TRUE" if cfg.get("reput") else "FALSE", bad="TRUE" if cfg.get("bad") else "FALSE")
    r = run_tlc("MC_Cache", text, wd, workers=8, coverage=False, allow_violation=False)
    ctx.add_tlc(r, f"MC_Cache {cfg['kind']} max={cfg['max']} depth={depth}")
    seqs = {}
    for tag, payload in parse_prints(r.prints):
        if tag == "SEQ":
            seqs[json.dumps(payload, sort_keys=True)] = payload
    if not seqs:
        raise MachineryError("MC_Cache exported no sequences")
    return list(seqs.values())


def classify(tr: dict, reached: int) -> dict:
    """Signature of a rejected history: container, failing operation, how it failed, and the
    history features that our known findings are keyed on."""
    ev = tr["ev"]
    e = ev[reached - 1] if reached - 1 < len(ev) else {"op": "?", "exc": "", "k": ""}
    resident: set = set()
    reput = False
    for x in ev[: reached - 1]:
        if x["op"] == "put":
            if x["k"] in x.get("present_before", resident):
                reput = True
        resident = set(x["present"])
    reput_now = e["op"] == "put" and e["k"] in resident
    zero_dur_total = tr["kind"] == "hybrid" and all(x["d"] == 0 for x in ev[:reached] if x["op"] == "put")
    reopened_smaller = any(x["op"] == "reopen" and x["max"] < tr["max"] for x in ev[:reached])
    return {"check": "history", "cls": KIND_CLS[tr["kind"]], "shared": tr.get("shared", False), "op": e["op"],
            "exc": e.get("exc", "") or "mismatch", "reput_resident": bool(reput or reput_now),
            "zero_total_duration": bool(zero_dur_total), "reopened_smaller": bool(reopened_smaller)}


def validate(ctx: Ctx, traces: list[dict], name: str) -> None:
    """TLC-validate recorded histories; report rejected ones as violations."""
    bad = [t for t in traces if "machinery" in t]
    if bad:
        raise MachineryError(str(bad[0]))
    rej = validate_traces(ctx, "TraceCache", traces, name,
                          invariants=["InvWellFormed", "InvLenBounded"], strip=("ops", "shared"))
    for i, reached in rej.items():
        tr = traces[i]
        sig = classify(tr, reached)
        e = tr["ev"][reached - 1] if reached - 1 < len(tr["ev"]) else None
        ctx.violation(sig, f"{sig['cls']} history not explained by Cache.tla at event {reached}: {e}",
                      {"cfg": {k: tr[k] for k in ("kind", "max", "lsize", "aw", "dw", "keys", "shared")},
                       "ops": tr["ops"], "rejected_at": reached, "event": e})


def selftest_binding(ctx: Ctx, traces: list[dict]) -> None:
    """Corrupt one logged field of one trace: TLC must reject exactly that trace at that event."""
    import copy
    cands = [t for t in traces if len(t["ev"]) >= 3 and all(not e["exc"] for e in t["ev"])]
    if not cands:
        return
    ok_before = validate_traces(ctx, "TraceCache", copy.deepcopy(cands[:20]), "selftest0", invariants=[],
                                strip=("ops", "shared"), count=False)
    sample = copy.deepcopy(cands[: 20])
    clean = [i for i in range(len(sample)) if i not in ok_before]
    if not clean:
        ctx.selftests.append({"name": "trace-corruption", "ok": True, "detail": "not applicable: no accepted trace to corrupt"})
        return
    victim = clean[len(clean) // 2]
    evs = sample[victim]["ev"]
    evs[1]["len"] = evs[1]["len"] + 1
    rej = validate_traces(ctx, "TraceCache", sample, "selftest", invariants=[], strip=("ops", "shared"),
                          count=False)
    expected = dict(ok_before)
    expected[victim] = 2
    ctx.selftest("trace-corruption(len+1 at event 2)", rej == expected, f"rejections={rej} expected={expected}")


def random_ops(rng: random.Random, cfg: dict, n: int) -> list[dict]:
    ops = []
    v = 0
    for _ in range(n):
        x = rng.random()
        k = rng.choice(cfg["keys"])
        if x < 0.5:
            v += 1
            r2 = rng.random()
            lastv = next((o["v"] for o in reversed(ops) if o["op"] == "put" and o["k"] == k), None)
            ops.append({"op": "put", "k": k, "d": rng.choice(cfg["durs"]),      # 0 = None; sometimes the key's last value again
                        "v": 0 if r2 < 0.1 else lastv if (r2 < 0.25 and lastv is not None) else v})
        elif x < 0.55:
            ops.append({"op": "putbad", "k": k, "d": rng.choice(cfg["durs"])})
        elif x < 0.85:
            ops.append({"op": "get", "k": k})
        elif x < 0.9:
            ops.append({"op": "clear"})
        elif x < 0.95:
            ops.append({"op": "in", "k": k})
        elif cfg["kind"] == "disk" and x < 0.96:
            ops.append({"op": "wipe"})
        elif cfg["kind"] == "disk" and x < 0.975:
            ops.append({"op": "reopen", "max": rng.randint(1, cfg["max"] + 1), "lsize": cfg["lsize"]})
        else:
            ops.append({"op": "len"})
    return ops


def run(ctx: Ctx) -> None:
    quick = ctx.tier == "quick"
    rng = random.Random(ctx.seed)
    gap = _ctime_gap()
    ctx.extra["disk_ctime_gap_s"] = gap
    keys3 = ["a", "b", "c"]
    depth = 4 if quick else 6
    ctx.rule = ("case = one operation history on one container configuration (class, max_size, weights, shared); "
                "histories are ALL mutator sequences (put fresh value / get / clear [/ reopen]) of length Depth over 3 "
                "keys exported by TLC from MC_Cache, plus seeded random histories of length 40 over 10 keys; non-trivial"
                " = contains at least one put at capacity (an eviction decision) or a re-put of a resident key")
    ctx.assumptions = ["TLC and the JSON trace encoding are trusted", "DiskCache writes are spaced so that ctimes differ",
                       "HybridCache durations are integral floats; weights are small integer ratios",
                       "shared=True containers are exercised from one process here; multi-process interleavings are "
                       "checked by the CacheConc part"]

    configs: list[tuple[dict, int, list[int], bool]] = []
    for m in (1, 2, 3):
        # thorough: depth 6 (117 649 sequences) for max_size 2, depth 5 for the others (memory: every history is kept)
        configs.append(({"kind": "lru", "max": m, "lsize": 0, "aw": 1, "dw": 1, "keys": keys3, "none": (m == 2) if quick else (m == 3),
                         "reput": m == 1, "bad": quick and m == 2},
                        depth if (quick or m == 2) else depth - 1, [1], False))
    for m in (1, 2, 3):
        configs.append(({"kind": "hybrid", "max": m, "lsize": 0, "aw": 1, "dw": 1, "keys": keys3, "none": m == 2 and quick, "bad": quick and m == 1},
                        depth - 1 if quick else 4, [1, 2] if quick else [0, 1, 3], False))
    if not quick:
        configs.append(({"kind": "hybrid", "max": 2, "lsize": 0, "aw": 1, "dw": 3, "keys": keys3}, depth - 1, [1, 2], False))
        configs.append(({"kind": "hybrid", "max": 2, "lsize": 0, "aw": 3, "dw": 1, "keys": keys3, "none": True}, 3, [1, 2], False))
    configs.append(({"kind": "simple", "max": 1, "lsize": 0, "aw": 1, "dw": 1, "keys": keys3, "none": True, "bad": quick}, depth, [1], False))
    if not quick:     # unserialisable values at a smaller depth (the op alphabet grows by one put per key)
        configs.append(({"kind": "lru", "max": 2, "lsize": 0, "aw": 1, "dw": 1, "keys": keys3, "bad": True}, 5, [1], False))
        configs.append(({"kind": "hybrid", "max": 1, "lsize": 0, "aw": 1, "dw": 1, "keys": keys3, "bad": True}, 4, [1, 2], False))
        configs.append(({"kind": "simple", "max": 1, "lsize": 0, "aw": 1, "dw": 1, "keys": keys3, "bad": True}, 5, [1], False))
    for m, ls in ((1, 0), (2, 0), (2, 2), (2, 1)) if quick else ((1, 0), (2, 0), (3, 0), (2, 2), (2, 1), (3, 1)):
        configs.append(({"kind": "disk", "max": m, "lsize": ls, "aw": 1, "dw": 1, "keys": keys3, "none": (m, ls) == (2, 2), "reput": ls > 0,
                         "bad": (m, ls) in ((2, 1), (1, 0))},
                        3 if quick else 4, [1], True))

    all_traces: list[dict] = []
    for cfg, d, durs, reopen in configs:
        seqs = enumerate_sequences(ctx, cfg, d, durs, reopen)
        jobs = [(cfg, s) for s in seqs]
        traces = run_many(jobs, gap)
        # shared=True variants on a sample of the same sequences (Manager-backed objects are slow)
        if cfg["kind"] in ("lru", "hybrid"):
            n = 150 if quick else 1500
            sub = rng.sample(seqs, min(n, len(seqs)))
            traces += run_many([(dict(cfg, shared=True), s) for s in sub], gap, shared=True)
            # the same shared cache used through TWO handles alternately (state kept on a handle is not shared)
            traces += run_many([(dict(cfg, shared=True, handles=2), s) for s in sub[:: (3 if quick else 2)]], gap, shared=True)
        validate(ctx, traces, f"{cfg['kind']}_{cfg['max']}_{cfg['lsize']}_{cfg['aw']}{cfg['dw']}_d{d}{'b' if cfg.get('bad') else ''}")
        all_traces += traces[:50]
        for t in traces:
            nontriv = any(e["op"] == "put" and (len(t["ev"][i - 1]["present"]) >= t["max"] if i else False)
                          for i, e in enumerate(t["ev"]))
            ctx.case({"cfg": [t["kind"], t["max"], t["lsize"], t["aw"], t["dw"], t["shared"]], "ops": t["ops"]},
                     nontrivial=nontriv)
        ctx.sample({"cfg": cfg, "ops": traces[len(traces) // 2]["ops"], "events": traces[len(traces) // 2]["ev"][:3]})

    # random longer histories, 10 keys
    keys10 = [f"k{i}" for i in range(10)]
    nrand = 200 if quick else 3000
    jobs = []
    for i in range(nrand):
        kind = ["lru", "hybrid", "simple", "disk"][i % 4]
        cfg = {"kind": kind, "max": rng.randint(1, 5), "lsize": rng.choice([0, 1, 3]) if kind == "disk" else 0,
               "aw": rng.choice([1, 3]), "dw": rng.choice([1, 3]), "keys": keys10, "durs": [1, 2, 5]}
        n = 12 if kind == "disk" else 40
        jobs.append(({k: v for k, v in cfg.items() if k != "durs"}, random_ops(rng, cfg, n)))
    # directed: fill to capacity, put one resident key AGAIN (same value / new value / None), overflow, look at everything,
    # reopen (disk), look again - for every kind
    for kind in ("lru", "hybrid", "disk", "simple"):
        for m in (2, 3):
            for ls in ((0, 1, 2) if kind == "disk" else (0,)):
                for again in ("same", "new", "none", "bad"):
                    for which in range(m):
                        keys = [f"k{i}" for i in range(m + 1)]
                        cfg = {"kind": kind, "max": m, "lsize": ls, "aw": 1, "dw": 1, "keys": keys}
                        ops = [{"op": "put", "k": keys[i], "v": i + 1, "d": 1 + i % 2} for i in range(m)]
                        if again == "bad":      # a value that cannot be serialised: refused (nothing happens) or kept as is
                            ops.append({"op": "putbad", "k": keys[which], "d": 1})
                            ops += [{"op": "get", "k": k} for k in keys[:m]]
                        else:
                            ops.append({"op": "put", "k": keys[which], "d": 1,
                                        "v": which + 1 if again == "same" else 0 if again == "none" else 50})
                        ops.append({"op": "put", "k": keys[m], "v": 99, "d": 1})
                        ops += [{"op": "in", "k": k} for k in keys]
                        if kind == "disk":
                            ops.append({"op": "reopen", "max": m, "lsize": ls})
                            ops += [{"op": "get", "k": k} for k in keys]
                            if again == "new" and which == 0:      # the directory reopened by ANOTHER interpreter
                                jobs.append((dict(cfg, xproc=True), ops + [{"op": "put", "k": keys[0], "v": 77, "d": 1},
                                                                           {"op": "len"}]))
                        jobs.append((cfg, ops))
    rtraces = run_many(jobs, gap)
    validate(ctx, rtraces, "random")
    for t in rtraces:
        ctx.case({"cfg": [t["kind"], t["max"], t["lsize"], t["aw"], t["dw"]], "ops": t["ops"]})
    ctx.exhaustive = False
    selftest_binding(ctx, all_traces)

    from . import c14_conc
    c14_conc.run(ctx)


def replay(rep: dict) -> int:
    w = rep["witness"]
    tr = replay_ops(w["cfg"], w["ops"], gap=_ctime_gap())
    print(json.dumps(tr["ev"], indent=1))
    ctx = Ctx(PROPERTY, "quick", 0)
    ctx.findings = []
    validate(ctx, [tr], "replay")
    n = len(ctx.violations)
    ctx.cleanup()
    print("replay:", "VIOLATION reproduced" if n else "history accepted")
    return 1 if n else 0
