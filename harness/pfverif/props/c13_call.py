"""C13, call side (pipeline(...) / run): built later in this round."""
def run(ctx):
    return
