"""C13, call side: pipeline(...) / run with a failing user function (TracePipelineFail.tla)."""
from __future__ import annotations

import contextlib
import io
import random
import tempfile

from .. import build, pcall, pmap
from ..terms import from_json
from ..tracekit import validate_traces
from . import c02

EXC = [("ValueError", ["boom"]), ("KeyError", ["k"]), ("ZeroDivisionError", []), ("HarnessError", ["custom", 3]),
       ("StatefulError", ["stateful"])]
BLANK = {"e": "", "out": "", "kw": [], "mode": "call", "f": "", "kwargs": [], "cls": "", "args": [], "attributed": False,
         "repro": ["", []], "repro_loaded": ["", []]}


def ev(**kw):
    e = dict(BLANK)
    e.update(kw)
    return e


_SEEN_HANG: list = []


def one(rng: random.Random, k: int) -> dict:
    td = c02.random_desc(rng, rng.randint(2, 5), picker=True)
    pd = pcall.tla_desc_to_py(td)
    build.LOG.clear()
    with contextlib.redirect_stdout(io.StringIO()):
        pl0 = build.make_pipeline(pd)
    outs = [o for f in pd["funcs"] for o in f["outputs"]]
    o = rng.choice(outs)
    combos = sorted(c for c in pl0.arg_combinations(o))
    cut = list(rng.choice(combos))
    # which functions run for this call? take them from a dry run, then make one of them fail
    kw = [[x, pcall.kv(x)] for x in cut]
    dry = pcall.do_call(pl0, o, kw, "call")
    called = [e["f"] for e in dry if e["e"] == "call"]
    if dry[-1]["e"] != "return" or not called:
        return {}
    victim = rng.choice(called)
    cls, args = EXC[k % len(EXC)]
    # every third history fails TWICE on the same pipeline object (other keyword values the second time); the exception's
    # args then name the invocation, and in half of those the user code raises one pre-built exception instance again
    twice = k % 3 == 0
    shared = twice and k % 6 == 0
    for fd in pd["funcs"]:
        if fd["name"] == victim:
            fd["fail"] = {"when": "*", "cls": cls, "args": args, "prenote": k % 2 == 1, "argskw": twice, "shared": shared}
    build.LOG.clear()
    profiled = k % 7 == 3      # resource profiling switched on: a failing call must still come back (watchdog below)
    with contextlib.redirect_stdout(io.StringIO()):
        pl = build.make_pipeline(pd, profile=True) if profiled else build.make_pipeline(pd)
    # the pipeline object that fails may have been restored from a pickle (shipped from another session) or deep-copied:
    # it is the same pipeline, and exposes its failures the same way
    if k % 5 in (2, 4):
        import cloudpickle
        import copy
        import pickle
        try:
            with contextlib.redirect_stdout(io.StringIO()):
                pl = pickle.loads(cloudpickle.dumps(pl)) if k % 5 == 2 else copy.deepcopy(pl)  # noqa: S301
        except Exception:  # noqa: BLE001  (not a statement of C13: keep the object built here)
            pass
    events: list[dict] = []
    kws = [kw] + ([[[x, {"f": f"@k2_{x}", "a": []}] for x in cut]] if twice else [])
    for j, kwj in enumerate(kws):
        events.append(ev(e="begin", out=o, kw=kwj, mode="call"))
        kwargs = {n: from_json(v) for n, v in kwj}
        if k % 4 == 1:      # arguments that can be pickled but not copied (locks, open files, generators are valid arguments)
            kwargs = {n: pmap.NoCopyAtom(v.f) if not v.a else v for n, v in kwargs.items()}
        start = len(build.LOG)
        try:
            with contextlib.redirect_stdout(io.StringIO()):
                if profiled:
                    import threading
                    box: dict = {}

                    def body(j=j, kwargs=kwargs, box=box):
                        try:
                            pl(o, **kwargs) if (k + j) % 2 else pl.run(o, kwargs=kwargs)
                        except Exception as e_:  # noqa: BLE001
                            box["exc"] = e_
                    th = threading.Thread(target=body, daemon=True)
                    th.start()
                    th.join(10.0 if _SEEN_HANG else 60.0)
                    if th.is_alive():
                        _SEEN_HANG.append(1)      # the verdict is already a violation: the rest may fail fast       # "the call returns instead of hanging": no action explains a hang
                        events.append(ev(e="hang"))
                        break
                    if "exc" in box:
                        raise box["exc"]
                else:
                    pl(o, **kwargs) if (k + j) % 2 else pl.run(o, kwargs=kwargs)
            events.append(ev(e="return"))
            break
        except Exception as ex:  # noqa: BLE001
            log = build.LOG[start:]
            fails = [r for r in log if r["e"] == "fail"]
            for r in log:
                if r["e"] == "call":
                    fd = build.REG[r["fid"]]
                    kwp = [[p, r["kwargs"][p]] for p in fd["params"]]
                    fl = next((x for x in fails if x["fid"] == r["fid"] and x["n"] == r["n"]), None)
                    events.append(ev(e="callfail" if fl else "call", f=r["f"], kwargs=kwp,
                                     cls=cls if fl else "", args=[str(a) for a in fl["args"]] if fl else []))
            notes = list(getattr(ex, "__notes__", []) or [])
            f0 = fails[0] if fails else None
            attributed = bool(f0) and any(f0["f"] in n and all(f"{p}=" in n and (v["f"] == "#arr" or ("None" if v["f"] == "#none" else repr(from_json(v))) in n)
                                                                for p, v in f0["kwargs"].items()) for n in notes)

            def repro(s):
                try:
                    with contextlib.redirect_stdout(io.StringIO()):
                        s.reproduce()
                except Exception as e2:  # noqa: BLE001
                    return [type(e2).__name__, [str(a) for a in e2.args]]
                return ["<no exception>", []]
            r1, r2 = ["<no snapshot>", []], ["<no snapshot>", []]
            try:
                snap = pl.error_snapshot
                fsnap = next(pf for pf in pl.functions if pf.__name__ == victim).error_snapshot
                if snap is not None and fsnap is not None:
                    r1 = repro(fsnap)
                    with tempfile.TemporaryDirectory() as td_:
                        snap.save_to_file(td_ + "/s.pkl")
                        from pipefunc._pipefunc import ErrorSnapshot
                        r2 = repro(ErrorSnapshot.load_from_file(td_ + "/s.pkl"))
            except Exception as e3:  # noqa: BLE001
                r1 = [f"<snapshot error {type(e3).__name__}>", []]
            events.append(ev(e="raise", cls=type(ex).__name__, args=[str(a) for a in ex.args], attributed=attributed,
                             repro=r1, repro_loaded=r2))
    return {"desc": td, "ev": events, "victim": victim}


def run(ctx) -> None:
    rng = random.Random(ctx.seed + 13)
    n = 120 if ctx.tier == "quick" else 1500
    traces = [t for t in (one(rng, k) for k in range(n)) if t]
    for t in traces:
        ctx.case({"callfail": t["desc"], "v": t["victim"], "b": t["ev"][0]},
                 nontrivial=sum(1 for e in t["ev"] if e["e"] == "call") >= 1)
    rej = validate_traces(ctx, "TracePipelineFail", traces, "callfail", invariants=["InvDoneOnlyNeeded"], strip=("victim",),
                          chunk=200)
    for i, reached in rej.items():
        t = traces[i]
        e = t["ev"][reached - 1]
        clause = "hang" if e["e"] == "hang" else "surface"
        if e["e"] == "raise":
            f0 = next((x for x in reversed(t["ev"][:reached]) if x["e"] == "callfail"), {"cls": "", "args": []})
            clause = ("retyped" if e["cls"] != f0["cls"] else "args-changed" if e["args"] != f0["args"] else
                      "not-attributed" if not e["attributed"] else "snapshot")
        ctx.violation({"check": "call-fail", "event": e["e"], "clause": clause, "cls": e.get("cls", "")},
                      f"failing pipeline call not explained at event {reached}: {e}",
                      {"desc": t["desc"], "events": t["ev"][: reached + 1]})
