"""C20 - Resource specifications combine monotonically and without side effects
(spec/Resources.tla, spec/MC_Resources.tla, spec/TraceResources.tla).

0. to_slurm_options is bound as a TOKEN SEQUENCE (Resources!Tok): the harness splits the real string at blanks
   and '=' and tokenises every value by its shape; which tokens must be there is decided by Resources!
   RequiredTokens / SlurmOK -- per case of MC_Resources!SlurmUniverse (quantities x extra_args whose keys spell
   sbatch flags) and, as an observation event, at the end of combinator histories (TraceResources).
1. Mechanism A.  TLC checks the laws of Resources.tla (combine_max >= every operand by size / duration,
   with_defaults keeps/fills, from_dict(dict(r)) = r, ...) over the universes defined in MC_Resources.tla and
   prints the expected outcome of every case.  The harness renders the token records into the real strings,
   runs the real `pipefunc.resources.Resources` API on every case and compares field by field; every operand
   is compared with a snapshot taken before the call.
2. History.  TLC enumerates every combinator call sequence of length Depth of the `objs` machine; the harness
   realises each on real objects, records the tokenised value of EVERY live object after every call and
   TLC validates the recorded histories (TraceResources: existing ids unchanged, new id = allowed result).
3. NestedPipeFunc(...).resources is compared with the exported combine_max cases on generated pairs.
"""
from __future__ import annotations

import json
import multiprocessing as mp
import os
import random
import re
from concurrent.futures import ProcessPoolExecutor
from pathlib import Path
from typing import Any

from ..ctx import Ctx
from ..tlc import MachineryError, run_tlc
from ..tracekit import parse_prints, validate_traces

PROPERTY = "C20"
LEVEL = "model_checking"

NONE_I = -99
INT_FIELDS = ("cpus", "gpus", "nodes", "cpus_per_node")
Q_FIELDS = (*INT_FIELDS, "memory", "time", "partition")
PY_NAME = {"extra": "extra_args", "mode": "parallelization_mode"}


# ------------------------------------------------------------------------------------------------
# tokeniser / renderer (trusted, trivial): strings <-> the token records of Resources.tla
_MEM_RE = re.compile(r"(?s)([^0-9A-Za-z.]*)([0-9]*)(\.?)([0-9]*)([A-Za-z]*)(.*)")
_TIME_RE = re.compile(r"(?s)([^0-9A-Za-z:]*)(.*?)([^0-9A-Za-z:]*)")
_DIGITS = re.compile(r"[0-9]+")


def tok_mem(s: str) -> dict:
    pre, ip, dot, fp, unit, post = _MEM_RE.fullmatch(s).groups()
    return {"pre": pre, "ip": int(ip or 0), "ipd": len(ip), "dot": 1 if dot else 0, "fp": int(fp or 0),
            "fpd": len(fp), "unit": unit, "post": post}


def render_mem(t: dict) -> str:
    return (t["pre"] + (str(t["ip"]).zfill(t["ipd"]) if t["ipd"] else "") + ("." if t["dot"] else "")
            + (str(t["fp"]).zfill(t["fpd"]) if t["fpd"] else "") + t["unit"] + t["post"])


def tok_time(s: str) -> dict:
    pre, core, post = _TIME_RE.fullmatch(s).groups()
    f = []
    for x in core.split(":"):
        if x == "":
            f.append([0, 0])
        elif _DIGITS.fullmatch(x):
            f.append([int(x), len(x)])
        else:
            f.append([-1, -1])
    return {"pre": pre, "f": f, "post": post}


def render_time(t: dict) -> str:
    parts = []
    for v, d in t["f"]:
        parts.append("" if d == 0 else "ab" if d < 0 else str(v).zfill(d))
    return t["pre"] + ":".join(parts) + t["post"]


_INT_RE = re.compile(r"-?[0-9]+")
_GPU_RE = re.compile(r"gpu:(-?[0-9]+)")


def tok_optval(v: str) -> dict:
    """Value of one option token -> the uniform record Resources!OptVal (by the SHAPE of the text only)."""
    if _INT_RE.fullmatch(v):
        return {"kind": "int", "i": int(v), "o": [], "s": ""}
    m = _GPU_RE.fullmatch(v)
    if m:
        return {"kind": "gpu", "i": int(m.group(1)), "o": [], "s": ""}
    if ":" in v:
        return {"kind": "time", "i": 0, "o": [tok_time(v)], "s": ""}
    if v[:1].isdigit() or v[:1] == ".":
        return {"kind": "mem", "i": 0, "o": [tok_mem(v)], "s": ""}
    return {"kind": "str", "i": 0, "o": [], "s": v}


def tok_options(opts: str) -> list[dict]:
    """The string returned by to_slurm_options -> sequence of Resources!Tok records, in order."""
    out = []
    for o in opts.split(" "):
        if o:
            flag, _, val = o.partition("=")
            out.append({"flag": flag, "val": tok_optval(val)})
    return out


def render_optval(v: dict) -> str:
    k = v["kind"]
    return (str(v["i"]) if k == "int" else f"gpu:{v['i']}" if k == "gpu" else render_time(v["o"][0]) if k == "time"
            else render_mem(v["o"][0]) if k == "mem" else v["s"])


def render_tok(t: dict) -> str:
    return f"{t['flag']}={render_optval(t['val'])}"


FLAG_FIELD = {"--cpus-per-task": "cpus", "--gres": "gpus", "--nodes": "nodes", "--cpus-per-node": "cpus_per_node",
              "--mem": "memory", "--time": "time", "--partition": "partition"}
VAL_KIND = {"cpus": "int", "nodes": "int", "cpus_per_node": "int", "gpus": "gpu", "memory": "mem", "time": "time",
            "partition": "str"}


def _own_val(e: dict, k: str) -> dict:
    """Classification helper: the option value a set quantity of an Enc record is written as."""
    kind = VAL_KIND[k]
    return {"kind": kind, "i": e[k] if kind in ("int", "gpu") else 0, "o": e[k] if kind in ("mem", "time") else [],
            "s": e[k] if kind == "str" else ""}


def missing_token_sig(t: dict, e: dict) -> dict:
    """Classification (signatures only) of a required token that the real string lacks; e = Enc of the object."""
    fld = FLAG_FIELD.get(t["flag"])
    quantity = fld is not None and t["val"]["kind"] == VAL_KIND[fld] and IsSetEnc(e, fld) and not (
        t["val"]["kind"] == "int" and any(k == t["flag"][2:] and v == t["val"]["i"] for k, v in e["extra"]))
    keys = {"--" + k for k, _ in e["extra"]}
    return {"missing": "quantity" if quantity else "extra_arg", "field": fld if quantity else "extra_args",
            "extra_key_spells_flag": t["flag"] in keys and t["flag"] in FLAG_FIELD}


def _opt_int(x: Any) -> Any:
    return NONE_I if x is None else x


def enc_obj(r: Any) -> dict:
    """Real Resources -> the JSON shape of MC_Resources!Enc."""
    return {"cpus": _opt_int(r.cpus), "gpus": _opt_int(r.gpus), "nodes": _opt_int(r.nodes),
            "cpus_per_node": _opt_int(r.cpus_per_node),
            "memory": [] if r.memory is None else [tok_mem(r.memory)],
            "time": [] if r.time is None else [tok_time(r.time)],
            "partition": "" if r.partition is None else r.partition,
            "extra": sorted([k, v] for k, v in r.extra_args.items()),
            "mode": r.parallelization_mode}


def norm_enc(e: dict) -> dict:
    """Exported record -> same canonical shape as enc_obj (set of pairs printed in TLC's order)."""
    return {**e, "extra": sorted(e["extra"])}


def ctor_kwargs(e: dict) -> dict:
    """Exported record -> constructor keyword arguments (strings rendered from the tokens)."""
    kw: dict[str, Any] = {}
    for k in INT_FIELDS:
        kw[k] = None if e[k] == NONE_I else e[k]
    kw["memory"] = render_mem(e["memory"][0]) if e["memory"] else None
    kw["time"] = render_time(e["time"][0]) if e["time"] else None
    kw["partition"] = e["partition"] or None
    kw["extra_args"] = {k: v for k, v in e["extra"]}
    kw["parallelization_mode"] = e["mode"]
    return kw


def build(e: dict) -> Any:
    from pipefunc.resources import Resources
    return Resources(**ctor_kwargs(e))


def snap(r: Any) -> tuple:
    """Deep value snapshot of a real object (all field values are immutable except the extra_args dict)."""
    return (r.cpus, r.cpus_per_node, r.nodes, r.memory, r.gpus, r.time, r.partition,
            tuple(r.extra_args.items()), r.parallelization_mode)


def well_typed(r: Any) -> bool:
    return (all(getattr(r, k) is None or type(getattr(r, k)) is int for k in INT_FIELDS)
            and all(getattr(r, k) is None or isinstance(getattr(r, k), str) for k in ("memory", "time", "partition"))
            and isinstance(r.extra_args, dict)
            and all(isinstance(k, str) and type(v) is int for k, v in r.extra_args.items())
            and isinstance(r.parallelization_mode, str))


def py_kwargs(kw: list) -> dict:
    """Exported update kwargs [[key, value], ...] -> Python keyword arguments, in order."""
    out: dict[str, Any] = {}
    for k, v in kw:
        if k == "extra_args":
            out[k] = {a: b for a, b in v}
        elif k == "memory":
            out[k] = render_mem(v[0]) if v else None
        elif k == "time":
            out[k] = render_time(v[0]) if v else None
        elif k == "partition":
            out[k] = v or None
        elif k in INT_FIELDS:
            out[k] = None if v == NONE_I else v
        else:
            out[PY_NAME.get(k, k)] = v
    return out


def unknown_keys(kw: list) -> bool:
    known = set(INT_FIELDS) | {"memory", "time", "partition", "extra_args", "mode"}
    return any(k not in known for k, _ in kw)


def malformed_feature(e: dict) -> tuple[str, str]:
    """Which argument of a constructor case is irregular, and how (for signatures only)."""
    for fld in ("memory", "time"):
        if e[fld]:
            t = e[fld][0]
            if t["post"] == "\n":
                return fld, "trailing_newline"
            if t["pre"] or t["post"]:
                return fld, "surrounding_characters"
    if e["memory"]:
        t = e["memory"][0]
        if t["ipd"] == 0 or (t["dot"] and t["fpd"] == 0):
            return "memory", "number"
        if t["unit"] not in ("B", "KB", "MB", "GB", "TB", "PB"):
            return "memory", "unit"
    if e["time"]:
        f = e["time"][0]["f"]
        if not 2 <= len(f) <= 4:
            return "time", "field_count"
        if any(d < 1 for _, d in f):
            return "time", "non_numeric_field"
        if f[-1][1] != 2 or f[-2][1] != 2 or (len(f) == 4 and f[1][1] != 2):
            return "time", "digit_count"
    ints = {k: e[k] for k in INT_FIELDS if e[k] != NONE_I}
    if any(v < (0 if k == "gpus" else 1) for k, v in ints.items()):
        return "ints", "range"
    if "nodes" in ints and "cpus" in ints:
        return "ints", "cpus_with_nodes"
    if "cpus_per_node" in ints and "nodes" not in ints:
        return "ints", "cpus_per_node_without_nodes"
    return "none", "regular"


def _secs(s: str) -> int:
    """Classification helper only (never decides): duration of a well-formed time string."""
    x = [int(p) for p in s.split(":")]
    x = [0] * (4 - len(x)) + x
    return ((x[0] * 24 + x[1]) * 60 + x[2]) * 60 + x[3]


# ------------------------------------------------------------------------------------------------
# comparators for mechanism A.  Each returns a list of (signature, what, witness).
def check_ctor(case: dict) -> list:
    from pipefunc.resources import Resources
    e = case["c"]
    kw = ctor_kwargs(e)
    fld, feat = malformed_feature(e)
    try:
        r = Resources(**kw)
        got, exc = 1, ""
    except Exception as ex:  # noqa: BLE001  any raise is a rejection; the class is recorded
        r, got, exc = None, 0, type(ex).__name__
    out = []
    wit = {"mode": "ctor", "case": case, "kwargs": kw}
    if got != case["valid"]:
        out.append(({"check": "ctor", "fn": "Resources.__init__", "expected": "accept" if case["valid"] else "reject",
                     "observed": "accept" if got else exc, "field": fld, "feature": feat},
                    f"Resources(**{kw!r}) must be {'accepted' if case['valid'] else 'rejected'}: "
                    f"{'accepted' if got else 'raised ' + exc}", wit))
    elif got and enc_obj(r) != norm_enc(e):
        out.append(({"check": "ctor", "fn": "Resources.__init__", "expected": "fields_stored", "observed": "changed",
                     "field": fld, "feature": feat}, f"constructor changed a field: {enc_obj(r)}", wit))
    return out


SLURM_FLAG = {"cpus": "--cpus-per-task", "gpus": "--gres", "nodes": "--nodes", "cpus_per_node": "--cpus-per-node",
              "memory": "--mem", "time": "--time", "partition": "--partition"}


def check_dict(case: dict) -> list:
    from pipefunc.resources import Resources
    e = case["c"]
    wit = {"mode": "dict", "case": case}
    try:
        r = build(e)
    except Exception as ex:  # noqa: BLE001
        return [({"check": "dict", "fn": "Resources.__init__", "observed": type(ex).__name__},
                 f"valid specification rejected: {ex}", wit)]
    before = snap(r)
    out = []
    d = r.dict()
    keys = sorted({"extra_args": "extra", "parallelization_mode": "mode"}.get(k, k) for k in d)
    if keys != sorted(case["keys"]):
        out.append(({"check": "dict", "fn": "Resources.dict", "kind": "keys"},
                    f"dict() keys {keys} expected {sorted(case['keys'])}", wit))
    for k, v in d.items():
        if getattr(r, k) != v:
            out.append(({"check": "dict", "fn": "Resources.dict", "kind": "value", "field": k},
                        f"dict()[{k!r}] = {v!r} but field is {getattr(r, k)!r}", wit))
    try:
        r2 = Resources.from_dict(d)
        if r2 != r or enc_obj(r2) != norm_enc(e) or r2 is r:
            out.append(({"check": "roundtrip", "fn": "Resources.from_dict", "kind": "value"},
                        f"from_dict(r.dict()) = {enc_obj(r2)} differs from r", wit))
    except Exception as ex:  # noqa: BLE001
        out.append(({"check": "roundtrip", "fn": "Resources.from_dict", "kind": "raise", "exc": type(ex).__name__},
                    f"from_dict(r.dict()) raised {ex}", wit))
    if d.get("extra_args") is r.extra_args:
        out.append(({"check": "dict", "fn": "Resources.dict", "kind": "alias_extra_args"},
                    "dict() hands out the receiver's own extra_args dict", wit))
    opts = r.to_slurm_options()
    have: dict[str, str] = {}
    for o in opts.split(" "):
        if o:
            k, _, v = o.partition("=")
            have[k] = v
    for m in case["mentions"]:
        if m.startswith("extra:"):
            flag, val = "--" + m[6:], str(r.extra_args[m[6:]])
        else:
            flag = SLURM_FLAG[m]
            val = f"gpu:{r.gpus}" if m == "gpus" else str(getattr(r, m))
        if have.get(flag) != val:
            out.append(({"check": "slurm", "fn": "Resources.to_slurm_options", "field": m},
                        f"to_slurm_options() = {opts!r} does not mention {m} ({flag}={val})", wit))
    if snap(r) != before:
        out.append(({"check": "dict", "op": "dict", "kind": "existing_mutated"},
                    f"receiver changed by dict()/from_dict()/to_slurm_options(): {before} -> {snap(r)}", wit))
    return out


def check_slurm(case: dict) -> list:
    """One case of MC_Resources!SlurmUniverse: every token of `req` (Resources!RequiredTokens) must occur in the
    tokenised real string; the call must be repeatable and must leave the object alone."""
    e = case["c"]
    wit = {"mode": "slurm", "case": case}
    try:
        r = build(e)
    except Exception as ex:  # noqa: BLE001
        return [({"check": "slurm", "fn": "Resources.__init__", "observed": type(ex).__name__},
                 f"valid specification rejected: {ex}", wit)]
    before = snap(r)
    out = []
    try:
        opts = r.to_slurm_options()
        again = r.to_slurm_options()
    except Exception as ex:  # noqa: BLE001
        return [({"check": "slurm", "fn": "Resources.to_slurm_options", "op": "slurm", "kind": "raise",
                  "exc": type(ex).__name__}, f"to_slurm_options raised {ex!r}", wit)]
    if not isinstance(opts, str):
        return [({"check": "slurm", "fn": "Resources.to_slurm_options", "op": "slurm", "kind": "ill_typed_result"},
                 f"to_slurm_options returned {type(opts).__name__}", wit)]
    toks = tok_options(opts)
    for t in case["req"]:
        if t not in toks:
            out.append(({"check": "slurm", "fn": "Resources.to_slurm_options", "op": "slurm", "kind": "result",
                         **missing_token_sig(t, norm_enc(e))},
                        f"to_slurm_options() = {opts!r} does not contain {render_tok(t)!r} "
                        f"(extra_args keys that spell a set quantity's flag: {sorted(case['coll'])})", wit))
    if again != opts:
        out.append(({"check": "slurm", "fn": "Resources.to_slurm_options", "op": "slurm", "kind": "not_repeatable"},
                    f"second call returned {again!r}, first {opts!r}", wit))
    if snap(r) != before:
        out.append(({"check": "slurm", "fn": "Resources.to_slurm_options", "op": "slurm", "kind": "existing_mutated",
                     "field": _changed(before, snap(r))},
                    f"to_slurm_options changed its receiver: {before} -> {snap(r)}", wit))
    return out


def compare_cmax(case: dict, ops: list, res: Any, check: str, fn: str) -> list:
    """Compare a real combine_max result with an exported case; `ops` are the real operand objects."""
    out = []
    wit = {"mode": "cmax", "case": case, "operands": [enc_obj(o) for o in ops]}

    def bad(field: str, observed: str, what: str) -> None:
        out.append(({"check": check, "fn": fn, "op": "combine_max", "kind": "result", "field": field,
                     "observed": observed}, what, wit))

    for k in ("cpus", "gpus"):
        if _opt_int(getattr(res, k)) != case[k]:
            vals = [getattr(o, k) for o in ops if getattr(o, k) is not None]
            obs = "none" if getattr(res, k) is None else "min" if vals and getattr(res, k) == min(vals) else "other"
            bad(k, obs, f"combine_max {k} = {getattr(res, k)!r}, required {case[k]} for operands {vals}")
    for k, idx in (("memory", case["mi"]), ("time", case["ti"])):
        got = getattr(res, k)
        allowed = [getattr(ops[i - 1], k) for i in idx]
        if (got is None) != (not allowed) or (allowed and got not in allowed):
            vals = [getattr(o, k) for o in ops if getattr(o, k) is not None]
            if got is None:
                obs = "none"
            elif got not in vals:
                obs = "not_an_operand"
            elif got == max(vals):
                obs = "string_max"
            elif got == vals[0]:
                obs = "first"
            elif got == vals[-1]:
                obs = "last"
            else:
                obs = "other"
            bad(k, obs, f"combine_max {k} = {got!r} for operands {vals}: required one of {allowed} "
                        f"(the largest by {'size' if k == 'memory' else 'duration'})")
    if (res.partition or "") != case["p"]:
        bad("partition", "other", f"combine_max partition = {res.partition!r}, required {case['p']!r}")
    if sorted([k, v] for k, v in res.extra_args.items()) != sorted(case["x"]):
        bad("extra_args", "other", f"combine_max extra_args = {res.extra_args!r}, required {sorted(case['x'])}")
    return out


def check_cmax(case: dict, pool: list) -> list:
    from pipefunc.resources import Resources
    ops = [build(pool[i - 1]) for i in case["c"]]
    before = [snap(o) for o in ops]
    lst = list(ops)
    wit = {"mode": "cmax", "case": case, "operands": [pool[i - 1] for i in case["c"]]}
    try:
        res = Resources.combine_max(lst)
    except Exception as ex:  # noqa: BLE001
        return [({"check": "combine_max", "fn": "Resources.combine_max", "op": "combine_max", "kind": "raise",
                  "exc": type(ex).__name__}, f"combine_max raised {ex}", wit)]
    out = compare_cmax(case, ops, res, "combine_max", "Resources.combine_max")
    for i, o in enumerate(ops):
        if snap(o) != before[i]:
            out.append(({"check": "combine_max", "fn": "Resources.combine_max", "op": "combine_max",
                         "kind": "existing_mutated", "field": _changed(before[i], snap(o))},
                        f"combine_max changed operand {i}: {before[i]} -> {snap(o)}", wit))
    if len(lst) != len(ops) or any(a is not b for a, b in zip(lst, ops)):
        out.append(({"check": "combine_max", "fn": "Resources.combine_max", "op": "combine_max",
                     "kind": "argument_list_mutated"}, "combine_max changed its argument list", wit))
    return out


_SNAP_NAMES = ("cpus", "cpus_per_node", "nodes", "memory", "gpus", "time", "partition", "extra_args",
               "parallelization_mode")


def _changed(a: tuple, b: tuple) -> str:
    return ",".join(n for n, x, y in zip(_SNAP_NAMES, a, b) if x != y)


def check_defaults(case: dict, pool_r: list, pool_d: list) -> list:
    er, ed = pool_r[case["c"][0] - 1], pool_d[case["c"][1] - 1]
    r, d = build(er), build(ed)
    br, bd = snap(r), snap(d)
    wit = {"mode": "defaults", "case": case, "receiver": er, "defaults": ed}
    out = []
    try:
        res = r.with_defaults(d)
        raised = ""
    except Exception as ex:  # noqa: BLE001
        res, raised = None, type(ex).__name__
    exp = norm_enc(case["r"])
    if raised:
        if not case["raises"]:
            out.append(({"check": "with_defaults", "fn": "Resources.with_defaults", "op": "with_defaults",
                         "kind": "raise", "exc": raised}, "with_defaults raised on compatible operands", wit))
    else:
        got = enc_obj(res)
        for k in Q_FIELDS:
            if got[k] != exp[k]:
                src = "defaults_override" if got[k] == norm_enc(ed)[k] and IsSetEnc(er, k) else "other"
                out.append(({"check": "with_defaults", "fn": "Resources.with_defaults", "op": "with_defaults",
                             "kind": "result", "field": k, "observed": src},
                            f"with_defaults {k} = {got[k]!r}, required {exp[k]!r}", wit))
        gx = {k: v for k, v in got["extra"]}
        xmin = {k: v for k, v in case["xmin"]}
        xmax = {k: v for k, v in exp["extra"]}
        if any(gx.get(k) != v for k, v in xmin.items()) or any(xmax.get(k) != v for k, v in gx.items()):
            out.append(({"check": "with_defaults", "fn": "Resources.with_defaults", "op": "with_defaults",
                         "kind": "result", "field": "extra_args", "observed": "other"},
                        f"with_defaults extra_args = {gx}, required between {xmin} and {xmax}", wit))
        if got["mode"] not in case["modes"]:
            out.append(({"check": "with_defaults", "fn": "Resources.with_defaults", "op": "with_defaults",
                         "kind": "result", "field": "parallelization_mode", "observed": "other"},
                        f"with_defaults mode = {got['mode']}", wit))
    if snap(r) != br or snap(d) != bd:
        out.append(({"check": "with_defaults", "fn": "Resources.with_defaults", "op": "with_defaults",
                     "kind": "existing_mutated", "field": _changed(br, snap(r)) or _changed(bd, snap(d))},
                    "with_defaults changed an operand", wit))
    return out


def IsSetEnc(e: dict, k: str) -> bool:  # noqa: N802  (mirrors Resources!IsSet)
    return e[k] not in (NONE_I, [], "")


def check_update(case: dict, pool_u: list, kws: list) -> tuple[list, int]:
    er, kw = pool_u[case["c"][0] - 1], kws[case["c"][1] - 1]
    r = build(er)
    before = snap(r)
    pk = py_kwargs(kw)
    args_before = json.dumps(pk, sort_keys=True, default=str)
    wit = {"mode": "update", "case": case, "receiver": er, "kwargs": kw}
    sigbase = {"check": "update", "fn": "Resources.update", "op": "update", "unknown_key": unknown_keys(kw)}
    out = []
    aliased = 0
    try:
        res = r.update(**pk)
        raised = ""
    except Exception as ex:  # noqa: BLE001
        res, raised = None, type(ex).__name__
    if bool(raised) != bool(case["raises"]):
        out.append(({**sigbase, "kind": "raise", "exc": raised or "none"},
                    f"update({pk}) {'raised ' + raised if raised else 'returned'}; the updated specification is "
                    f"{'invalid' if case['raises'] else 'valid'}", wit))
    elif not raised:
        got, exp = enc_obj(res), norm_enc(case["r"])
        for k in got:
            if got[k] != exp[k]:
                out.append(({**sigbase, "kind": "result", "field": PY_NAME.get(k, k)},
                            f"update({pk}) {k} = {got[k]!r}, required {exp[k]!r}", wit))
        if res is r:
            out.append(({**sigbase, "kind": "same_object"}, "update returned its receiver", wit))
        aliased = 1 if res.extra_args is r.extra_args else 0
    if snap(r) != before:
        out.append(({**sigbase, "kind": "existing_mutated", "field": _changed(before, snap(r)),
                     "raised": bool(raised)},
                    f"update({pk}) changed its receiver: {_changed(before, snap(r))} "
                    f"{dict(before[7])} -> {r.extra_args}", wit))
    if json.dumps(pk, sort_keys=True, default=str) != args_before:
        out.append(({**sigbase, "kind": "argument_mutated"}, f"update changed its keyword arguments {pk}", wit))
    return out, aliased


# ------------------------------------------------------------------------------------------------
# history: realise a call sequence on real objects, record every live object after every call
def realise(start: list, ops: list) -> dict:
    """start: list of Enc records; ops: [{op, a, kw}] -> trace record for TraceResources."""
    from pipefunc.resources import Resources
    objs = [build(e) for e in start]
    ev = []
    for o in ops:
        raised = 0
        opts: list = []
        try:
            if o["op"] == "slurm":  # observation: creates nothing
                new = None
                text = objs[o["a"][0] - 1].to_slurm_options()
                if not isinstance(text, str):
                    raise TypeError("to_slurm_options did not return a string")  # noqa: TRY301
                opts = tok_options(text)
            elif o["op"] == "update":
                new = objs[o["a"][0] - 1].update(**py_kwargs(o["kw"]))
            elif o["op"] == "combine_max":
                new = Resources.combine_max([objs[i - 1] for i in o["a"]])
            elif o["op"] == "with_defaults":
                new = objs[o["a"][0] - 1].with_defaults(objs[o["a"][1] - 1])
            elif o["op"] == "roundtrip":
                new = Resources.from_dict(objs[o["a"][0] - 1].dict())
            else:
                raise MachineryError(f"unknown op {o['op']}")
        except MachineryError:
            raise
        except Exception as ex:  # noqa: BLE001  a raise is an event
            raised, new = 1, None
            exc = type(ex).__name__
        else:
            exc = ""
            if new is not None:
                objs.append(new)
        typed = all(well_typed(x) for x in objs)
        ev.append({"op": o["op"], "a": o["a"], "kw": o["kw"], "raised": raised, "exc": exc, "opts": opts,
                   "snap": [enc_obj(x) for x in objs] if typed else [], "typed": typed,
                   "same": bool(new is not None and any(new is x for x in objs[:-1]))})
        if not typed:
            break
    return {"start": start, "ev": ev}


def classify_history(tr: dict, reached: int) -> tuple[dict, str]:
    ev = tr["ev"]
    e = ev[reached - 1]
    prev = ev[reached - 2]["snap"] if reached >= 2 else [norm_enc(x) for x in tr["start"]]
    sig: dict[str, Any] = {"check": "history", "fn": "Resources", "op": e["op"]}
    if e["op"] == "update":
        sig["unknown_key"] = unknown_keys(e["kw"])
    mutated = [i for i in range(min(len(prev), len(e["snap"]))) if e["snap"][i] != prev[i]]
    if mutated:
        flds = sorted({PY_NAME.get(k, k) for i in mutated for k in prev[i] if prev[i][k] != e["snap"][i][k]})
        operands = {a - 1 for a in e["a"]}
        sig.update(kind="existing_mutated", field=",".join(flds), raised=bool(e["raised"]),
                   via_alias=any(i not in operands for i in mutated))
        return sig, (f"{e['op']}({e['kw'] or e['a']}) changed existing object(s) {[i + 1 for i in mutated]}: "
                     f"{[prev[i]['extra'] for i in mutated]} -> {[e['snap'][i]['extra'] for i in mutated]}")
    if e["raised"]:
        sig.update(kind="raise", exc=e["exc"])
        return sig, f"{e['op']} raised {e['exc']} where the specification gives a valid result"
    if e["op"] == "slurm":
        obj = prev[e["a"][0] - 1]
        have = {t["flag"]: [] for t in e["opts"]}
        for t in e["opts"]:
            have[t["flag"]].append(t["val"])
        # classification only (TLC has already rejected the event): which quantity's own token is absent
        lost = [k for k in Q_FIELDS if IsSetEnc(obj, k) and not (k == "gpus" and obj["gpus"] == 0)
                and _own_val(obj, k) not in have.get(SLURM_FLAG[k], [])]
        keys = {"--" + k for k, _ in obj["extra"]}
        sig.update(kind="result", missing="quantity" if lost else "extra_arg", field=lost[0] if lost else "extra_args",
                   extra_key_spells_flag=bool(keys & set(FLAG_FIELD)), built_by=ev[reached - 2]["op"] if reached >= 2 else "start")
        return sig, (f"to_slurm_options() of object {e['a'][0]} = {' '.join(render_tok(t) for t in e['opts'])!r} does not "
                     f"mention everything that is set on {obj}")
    if len(e["snap"]) != len(prev) + 1:
        sig.update(kind="object_count")
        return sig, f"{e['op']} left {len(e['snap'])} objects, expected {len(prev) + 1}"
    new = e["snap"][-1]
    sig.update(kind="result")
    if e["op"] == "combine_max":
        times = [render_time(prev[a - 1]["time"][0]) for a in e["a"] if prev[a - 1]["time"]]
        got = render_time(new["time"][0]) if new["time"] else None
        if times and got == max(times) and _secs(got) < max(_secs(t) for t in times):
            sig.update(field="time", observed="string_max")
            return sig, f"combine_max time = {got!r} for operands {times}: not the longest duration"
        if times and got in times and _secs(got) < max(_secs(t) for t in times):
            sig.update(field="time", observed="shorter_than_an_operand",
                       mixed_formats=len({t.count(":") for t in times}) > 1)
            return sig, f"combine_max time = {got!r} for operands {times}: not the longest duration"
    sig.update(field="?", observed="other")
    return sig, f"{e['op']} produced {new}, not an allowed result"


def validate_histories(ctx: Ctx, traces: list[dict], name: str, count: bool = True) -> dict[int, int]:
    """TLC-validate recorded histories; report the rejected ones.  Returns the rejections."""
    direct = {}
    ok_idx = []
    for i, t in enumerate(traces):
        if all(e["typed"] for e in t["ev"]):
            ok_idx.append(i)
        else:
            direct[i] = len(t["ev"])
            if count:
                ctx.violation({"check": "history", "fn": "Resources", "op": t["ev"][-1]["op"], "kind": "ill_typed_field"},
                              "a combinator produced a field of the wrong type", {"mode": "hist", "start": t["start"],
                                                                                  "ops": _ops_of(t)})
    strip = ("ops",)
    sub = [{"start": traces[i]["start"],
            "ev": [{k: e[k] for k in ("op", "a", "kw", "raised", "snap", "opts")} for e in traces[i]["ev"]]} for i in ok_idx]
    rej = validate_traces(ctx, "TraceResources", sub, name, invariants=["InvValid"], strip=strip, chunk=2500,
                          count=count)
    res = dict(direct)
    for j, reached in rej.items():
        i = ok_idx[j]
        res[i] = reached
        if count:
            tr = traces[i]
            if reached > len(tr["ev"]):
                raise MachineryError(f"TraceResources rejected a trace beyond its end: {tr}")
            sig, what = classify_history(tr, reached)
            ctx.violation(sig, f"history not explained by Resources.tla at call {reached}: {what}",
                          {"mode": "hist", "start": tr["start"], "ops": _ops_of(tr), "rejected_at": reached,
                           "event": tr["ev"][reached - 1]})
    return res


def _ops_of(tr: dict) -> list:
    return [{"op": e["op"], "a": e["a"], "kw": e["kw"]} for e in tr["ev"]]


# ------------------------------------------------------------------------------------------------
# NestedPipeFunc.resources = combine_max of the children's resources
def nested_resources(children: list) -> tuple[Any, list]:
    """children: list of Enc records or None -> (NestedPipeFunc.resources, the children's real objects)."""
    import contextlib
    import io

    from pipefunc import NestedPipeFunc, PipeFunc

    objs = [None if e is None else build(e) for e in children]
    funcs = []
    names = [f"v{i}" for i in range(len(children) + 1)]
    for i, r in enumerate(objs):
        ns: dict = {}
        exec(f"def f{i}({names[i]}):\n    return {names[i]}\n", ns)  # noqa: S102
        funcs.append(PipeFunc(ns[f"f{i}"], names[i + 1], resources=r))
    with contextlib.redirect_stdout(io.StringIO()):
        nest = NestedPipeFunc(funcs)
    return nest, objs


def check_nested(case: dict, pool: list, with_none: bool) -> list:
    encs = [pool[i - 1] for i in case["c"]]
    children: list = list(encs) + ([None] if with_none else [])
    if len(children) < 2:
        return []
    wit = {"mode": "nested", "case": case, "children": children}
    try:
        nest, objs = nested_resources(children)
    except Exception as ex:  # noqa: BLE001
        return [({"check": "nested", "fn": "NestedPipeFunc", "op": "combine_max", "kind": "raise",
                  "exc": type(ex).__name__}, f"NestedPipeFunc construction raised {ex!r}", wit)]
    real = [o for o in objs if o is not None]
    before = [snap(o) for o in real]
    res = nest.resources
    if res is None:
        return [({"check": "nested", "fn": "NestedPipeFunc", "op": "combine_max", "kind": "result", "field": "all",
                  "observed": "none"}, "NestedPipeFunc.resources is None although children have resources", wit)]
    out = compare_cmax(case, real, res, "nested", "NestedPipeFunc")
    for v in out:
        v[2].update(wit)
    if [snap(o) for o in real] != before:
        out.append(({"check": "nested", "fn": "NestedPipeFunc", "op": "combine_max", "kind": "existing_mutated"},
                    "NestedPipeFunc changed a child's resources", wit))
    return out


# ------------------------------------------------------------------------------------------------
# TLC jobs (each runs in a worker process: TLC with one worker, then the real code on every exported case)
CFG = """SPECIFICATION Spec
CONSTANTS Mode = "{mode}" Pool = "{pool}" MinOps = {minops} NOps = {nops} Depth = {depth} Thorough = {thorough}
          Shard = {shard} NShards = {nshards}
INVARIANT {invs}
{props}
"""
INVS = {"ctor": "LawScope Emit", "dict": "LawScope LawRoundTrip Emit",
        "cmax": "LawScope LawCombineMaxGE LawCombineMaxTight LawCombineMaxOrderFree LawTimeFormatFree Emit",
        "defaults": "LawScope LawWithDefaults Emit", "update": "LawScope LawUpdateNew Emit",
        "slurm": "LawScope LawSlurmMentions LawSlurmNoMerge Emit",
        "hist": "LawScope Emit"}


def _tlc(job: dict) -> tuple[Any, dict[str, list]]:
    cfg = CFG.format(mode=job["mode"], pool=job.get("pool", "none"), minops=job.get("minops", 1), nops=job.get("nops", 1),
                     depth=job.get("depth", 1), thorough="TRUE" if job["thorough"] else "FALSE",
                     shard=job.get("shard", 0), nshards=job.get("nshards", 1), invs=INVS[job["mode"]],
                     props="PROPERTY StepUnchanged" if job["mode"] == "hist" else "")
    # many small JVMs side by side: keep each one's helper threads few
    r = run_tlc("MC_Resources", cfg, Path(job["wd"]), workers=job.get("workers", 1), heap="2g",
                allow_violation=False, timeout=1500,
                env={"JAVA_TOOL_OPTIONS": "-XX:ParallelGCThreads=2 -XX:CICompilerCount=2"})
    by: dict[str, list] = {}
    for tag, payload in parse_prints(r.prints):
        by.setdefault(tag, []).append(payload)
    r.stdout = ""
    r.prints = []
    return r, by


def _job_name(job: dict) -> str:
    return "_".join(str(job.get(k, "")) for k in ("mode", "pool", "minops", "nops", "depth", "shard"))


def _nontrivial_cmax(ops: list) -> bool:
    for k in ("cpus", "gpus", "memory", "time"):
        vals = [json.dumps(o[k]) for o in ops if o[k] not in (NONE_I, [])]
        if len(set(vals)) >= 2:
            return True
    return False


def run_job(job: dict) -> dict:
    """Worker: one TLC run + the real code on every case it printed."""
    r, by = _tlc(job)
    res = process(job, by)
    res["tlc"] = r
    if job["mode"] != "hist" and job.get("shard", 0) == 0:  # material for the binding self-test
        step = max(1, len(by.get("CASE", [])) // 60)
        res["st"] = {tag: (v[::step][:60] if tag == "CASE" else v) for tag, v in by.items()}
    return res


def process(job: dict, by: dict[str, list]) -> dict:
    """Run the real code on every exported case of one TLC run and compare."""
    mode = job["mode"]
    res: dict[str, Any] = {"job": job, "viol": [], "viol_idx": [], "viol_count": {}, "n": 0, "keys": [],
                           "samples": [], "accepted": [], "aliased": 0}
    cases = by.get("CASE", [])
    if mode != "hist" and not cases:
        res["machinery"] = f"MC_Resources {_job_name(job)} exported no cases"
        return res
    corrupt = job.get("corrupt")  # binding self-test: index of the case whose expected value gets altered
    if mode == "ctor":
        for i, c in enumerate(cases):
            if corrupt == i:
                c = dict(c, valid=1 - c["valid"])
            v = check_ctor(c)
            _acc(res, i, v, c, ["ctor", c["c"]], malformed_feature(c["c"])[0] != "none" or any(
                IsSetEnc(c["c"], k) for k in Q_FIELDS))
    elif mode == "dict":
        for i, c in enumerate(cases):
            if corrupt == i:
                c = dict(c, keys=[k for k in c["keys"] if k != "mode"])
            v = check_dict(c)
            _acc(res, i, v, c, ["dict", c["c"]], len(c["keys"]) > 2)
    elif mode == "slurm":
        for i, c in enumerate(cases):
            _roundtrip_opt_tokens(c)
            if corrupt == i:  # one required token gets another value
                c = dict(c, req=[{"flag": c["req"][0]["flag"] if c["req"] else "--cpus-per-task",
                                  "val": {"kind": "int", "i": 424242, "o": [], "s": ""}}] + c["req"][1:])
            v = check_slurm(c)
            _acc(res, i, v, c, ["slurm", c["c"]], bool(c["coll"]))
    elif mode == "cmax":
        pool = [norm_enc(e) for e in by["POOL"][0]]
        for e in pool:
            _roundtrip_tokens(e)
        res["pool"] = pool if job.get("keep") else None
        for i, c in enumerate(cases):
            if corrupt == i:
                c = dict(c, cpus=(1 if c["cpus"] == NONE_I else c["cpus"] + 1))
            v = check_cmax(c, pool)
            _acc(res, i, v, c, ["cmax", job["pool"], c["c"]], _nontrivial_cmax([pool[j - 1] for j in c["c"]]))
        if job.get("keep"):
            res["cases"] = [c for c in cases if len(c["c"]) <= 2]
    elif mode == "defaults":
        pr, pd = [norm_enc(e) for e in by["POOLR"][0]], [norm_enc(e) for e in by["POOLD"][0]]
        for i, c in enumerate(cases):
            if corrupt == i:
                c = dict(c, r=dict(c["r"], partition=c["r"]["partition"] + "x"), raises=0)
            v = check_defaults(c, pr, pd)
            a, b = pr[c["c"][0] - 1], pd[c["c"][1] - 1]
            _acc(res, i, v, c, ["defaults", c["c"]],
                 any(IsSetEnc(a, k) and IsSetEnc(b, k) for k in Q_FIELDS) and any(
                     not IsSetEnc(a, k) and IsSetEnc(b, k) for k in Q_FIELDS))
    elif mode == "update":
        pu, kws = [norm_enc(e) for e in by["POOLU"][0]], by["KW"][0]
        for i, c in enumerate(cases):
            if corrupt == i:
                c = dict(c, raises=1 - c["raises"])
            v, al = check_update(c, pu, kws)
            res["aliased"] += al
            _acc(res, i, v, c, ["update", c["c"]], len(kws[c["c"][1] - 1]) > 0)
    elif mode == "hist":
        import hashlib
        starts = [[norm_enc(e) for e in st] for st in by["STARTS"][0]]
        kws = by["KW"][0]
        for e in [x for st in starts for x in st]:
            _roundtrip_tokens(e)
        seqs = sorted(by.get("SEQ", []), key=lambda q: json.dumps(q, sort_keys=True))
        if not seqs:
            res["machinery"] = "MC_Resources hist exported no sequences"
        res["traces"] = []
        num, den = job.get("tlc_fraction", (1, 1))
        for q in seqs:
            si, ops = hist_ops(q, kws)
            tr = realise(starts[si - 1], ops)
            key = json.dumps(["hist", si, _ops_of(tr)], sort_keys=True, separators=(",", ":"))
            res["n"] += 1
            res["keys"].append((key, True))
            h = int(hashlib.sha1(f"{job.get('seed', 0)}|{key}".encode()).hexdigest()[:8], 16)
            if h % den < num:
                res["traces"].append(tr)  # decided by TLC (TraceResources)
                continue
            # not selected for TLC: every live object is deep-compared with its previous snapshot here
            prev = tr["start"]
            for k, e in enumerate(tr["ev"]):
                if not e["typed"] or any(e["snap"][j] != prev[j] for j in range(len(prev))):
                    sig, what = classify_history(tr, k + 1) if e["typed"] else (
                        {"check": "history", "fn": "Resources", "op": e["op"], "kind": "ill_typed_field"}, "ill-typed field")
                    _acc_viol(res, [(sig, f"history (snapshot comparison) call {k + 1}: {what}",
                                     {"mode": "hist", "start": tr["start"], "ops": _ops_of(tr), "rejected_at": k + 1})])
                    break
                prev = e["snap"]
            else:
                if len(prev) != q["n"]:
                    _acc_viol(res, [({"check": "history", "fn": "Resources", "op": "any", "kind": "object_count"},
                                     f"history created {len(prev)} objects, the specification {q['n']}",
                                     {"mode": "hist", "start": tr["start"], "ops": _ops_of(tr)})])
    return res


def _acc(res: dict, i: int, viol: list, case: dict, key: list, nontrivial: bool) -> None:
    res["n"] += 1
    res["keys"].append((json.dumps(key, sort_keys=True, separators=(",", ":")), nontrivial))
    if viol:
        res["viol_idx"].append(i)
        _acc_viol(res, viol)
    elif len(res["accepted"]) < 50:
        res["accepted"].append(i)
    if len(res["samples"]) < 1 and nontrivial and i > 10:
        res["samples"].append(case)


def _acc_viol(res: dict, viol: list) -> None:
    """Keep the first witnesses per signature, count the rest."""
    for v in viol:
        k = json.dumps(v[0], sort_keys=True)
        res["viol_count"][k] = res["viol_count"].get(k, 0) + 1
        if res["viol_count"][k] <= 3:
            res["viol"].append(v)


def _roundtrip_tokens(e: dict) -> None:
    """Tokeniser sanity: rendering an exported token and tokenising the string gives the token back."""
    if e["memory"] and tok_mem(render_mem(e["memory"][0])) != e["memory"][0]:
        raise MachineryError(f"memory tokeniser does not round-trip {e['memory'][0]}")
    if e["time"] and tok_time(render_time(e["time"][0])) != e["time"][0]:
        raise MachineryError(f"time tokeniser does not round-trip {e['time'][0]}")


def _roundtrip_opt_tokens(case: dict) -> None:
    """Tokeniser sanity: rendering an exported option token and tokenising the text gives the token back."""
    for t in case["req"]:
        if tok_options(render_tok(t)) != [t]:
            raise MachineryError(f"option tokeniser does not round-trip {t}")


def run_jobs(ctx: Ctx, jobs: list[dict], nproc: int = 16) -> list[dict]:
    for j in jobs:
        j["wd"] = str(ctx.workdir("mc_" + _job_name(j) + ("_st" if "corrupt" in j else "")))
    with ProcessPoolExecutor(min(nproc, os.cpu_count() or 4), mp_context=mp.get_context("fork")) as pool:
        out = list(pool.map(run_job, jobs))
    for r in out:
        if "machinery" in r:
            raise MachineryError(r["machinery"])
    return out


# ------------------------------------------------------------------------------------------------
def plan(quick: bool) -> list[dict]:
    """The TLC runs of a tier (big ones first so that the process pool stays busy)."""
    th = not quick
    jobs: list[dict] = []

    def cmax(pool: str, lo: int, hi: int, nshards: int = 1, **kw: Any) -> None:
        for sh in range(nshards):
            jobs.append({"mode": "cmax", "pool": pool, "minops": lo, "nops": hi, "thorough": th, "shard": sh,
                         "nshards": nshards, **kw})

    if quick:
        cmax("mixed", 1, 3, 2, keep=True)
        cmax("mem18", 1, 3, 1)
        cmax("ints", 1, 3, 1)
        cmax("mixed2", 1, 2, 1, keep=True)
        cmax("time", 1, 3, 1, keep=True)
        cmax("timex", 1, 2, 2, keep=True)  # mixed formats around the day boundaries
        cmax("mem", 1, 2, 1, keep=True)
        nd = 1
    else:
        # lists of four operands: mem18 and time; the other pools stop at three (mixed2: two) to keep the budget
        cmax("ints", 1, 3, 40)
        cmax("mem18", 4, 4, 19)
        cmax("mem", 1, 3, 12, keep=True)
        cmax("time", 1, 4, 13, keep=True)
        cmax("timex", 1, 3, 23, keep=True)
        cmax("mixed", 1, 3, 4, keep=True)
        cmax("mixed2", 1, 2, 2, keep=True)
        nd = 6
    jobs += [{"mode": "defaults", "thorough": th, "shard": sh, "nshards": nd} for sh in range(nd)]
    jobs += [{"mode": "dict", "thorough": th}, {"mode": "slurm", "thorough": th}, {"mode": "update", "thorough": th},
             {"mode": "ctor", "thorough": th}]
    return jobs


def hist_ops(seq: dict, kws: list) -> tuple[int, list]:
    ops = seq["ops"]
    return ops[0]["a"][0], [{"op": o["op"], "a": o["a"], "kw": kws[o["kwi"] - 1] if o["kwi"] else []}
                            for o in ops[1:]]


def random_history(rng: random.Random, starts: list, n: int) -> tuple[list, list]:
    """Seeded random call sequence over a growing object list (generator for mechanism C)."""
    start = rng.choice(starts)
    alive = len(start)
    ops = []
    mems = [tok_mem(s) for s in ("1GB", "1000MB", "1.5TB", "512KB", "2PB", "10B")]
    # the four formats, incl. hour forms beyond one day next to day forms (the order depends on 1 day = 24 h)
    times = [tok_time(s) for s in ("30:00", "2:00:00", "10:00:00", "02:00:00", "1:00:00:00", "9:59:59",
                                   "30:00:00", "1:12:00:00", "48:00:00", "2:00:00:00", "25:00:00", "59:59:59")]
    for _ in range(n):
        x = rng.random()
        if x < 0.5:
            kw = []
            for _ in range(rng.randint(1, 3)):
                y = rng.random()
                if y < 0.3:
                    kw.append([rng.choice(["foo", "bar", "k1", "k2"]), rng.randint(1, 9)])
                elif y < 0.45:
                    kw.append(["extra_args", sorted([k, rng.randint(1, 9)] for k in rng.sample(["k1", "k2", "foo"], rng.randint(0, 2)))])
                elif y < 0.6:
                    kw.append([rng.choice(["cpus", "gpus"]), rng.choice([NONE_I, 0, 1, 2, 3])])
                elif y < 0.7:
                    kw.append([rng.choice(["nodes", "cpus_per_node"]), rng.choice([NONE_I, 1, 2])])
                elif y < 0.8:
                    kw.append(["memory", [rng.choice(mems)]])
                elif y < 0.9:
                    kw.append(["time", [rng.choice(times)]])
                else:
                    kw.append(["partition", rng.choice(["", "a", "b"])])
            if len({k for k, _ in kw}) < len(kw):
                kw = kw[:1]
            o = {"op": "update", "a": [rng.randint(1, alive)], "kw": kw}
        elif x < 0.75:
            o = {"op": "combine_max", "a": [rng.randint(1, alive) for _ in range(rng.randint(1, 4))], "kw": []}
        elif x < 0.92:
            o = {"op": "with_defaults", "a": [rng.randint(1, alive), rng.randint(1, alive)], "kw": []}
        else:
            o = {"op": "roundtrip", "a": [rng.randint(1, alive)], "kw": []}
        ops.append(o)
        # the number of live objects is only known after running; realise() tolerates ids <= alive
        tr = realise(start, ops)
        alive = len(tr["ev"][-1]["snap"]) or alive
    return start, ops


def with_observations(rng: random.Random, start: list, ops: list) -> list:
    """Interleave to_slurm_options observations of live objects into a call sequence (they create nothing, so the
    ids used by the other calls stay what they were) and end with an observation of the newest object."""
    ev = realise(start, ops)["ev"]
    out = []
    alive = len(start)
    for k, o in enumerate(ops):
        out.append(o)
        if k < len(ev):
            alive = len(ev[k]["snap"]) or alive
        if rng.random() < 0.35:
            out.append({"op": "slurm", "a": [rng.randint(1, alive)], "kw": []})
    out.append({"op": "slurm", "a": [alive], "kw": []})
    return out


def run(ctx: Ctx) -> None:
    quick = ctx.tier == "quick"
    rng = random.Random(ctx.seed)
    ctx.rule = (
        "case = one call of the real Resources API on operands taken from a universe defined in MC_Resources.tla: "
        "ctor (constructor arguments incl. invalid integers, exclusion violations, malformed memory/time strings), "
        "dict (dict/from_dict/to_slurm_options of every valid record), slurm (to_slurm_options as a token sequence: every "
        "valid integer pattern x memory x time x partition x extra_args whose keys are generic or spell the sbatch flag of a "
        "quantity: gres, mem, time, partition, nodes, cpus-per-task, cpus-per-node), cmax (every operand list of length 1..3, "
        "thorough 4 for mem/time, over the pools ints / mem {B..PB}x{1,1.5,2,10,512,1000} / time (12 strings in the 4 formats) / "
        "timex (67 strings: hour forms 0..99 h against day forms 0..3 days around every day boundary, lists of 1..2, "
        "thorough 3) / mixed), defaults (receiver x defaults), update (receiver x kwargs), hist (every combinator call sequence "
        "of length Depth; scenario slurm: Depth-1 calls over objects with flag-named extra_args, then one to_slurm_options "
        "observation validated by TLC; plus seeded random longer ones with interleaved observations); non-trivial = slurm: "
        "some extra_args key spells the flag of a set quantity; ctor: some argument set; cmax: two "
        "operands set the same quantity differently; defaults: some quantity set on both sides and some only on "
        "the defaults; update: at least one keyword; hist: every sequence")
    ctx.assumptions = [
        "TLC, the JSON encoding and the string tokeniser/renderer (split(':'), one regex) are trusted; the tokeniser is "
        "checked to round-trip every exported token",
        "don't-care (not compared): nodes / cpus_per_node / parallelization_mode of a combine_max result; extra_args of "
        "with_defaults beyond 'receiver's entries kept, nothing invented'; parallelization_mode of with_defaults "
        "(either operand's); with_defaults may raise when the merged record violates a mutual exclusion",
        "out of scope (not in any universe): lower-case units, more than 3 fractional digits, three or more hour "
        "digits, two or more day digits, minute/second values above 59, non-string / non-integer argument types",
        "a gpus=0 request needs no SLURM option",
        "to_slurm_options: only the PRESENCE of every required token (flag=value of each set quantity and of each extra_args "
        "entry) is demanded; token order, further tokens and how sbatch treats a repeated flag are not decided; option "
        "values are tokenised by shape (integer, gpu:N, time with ':', memory starting with a digit, other text)",
    ]
    jobs = plan(quick)
    # histories: every call sequence of length 2 is validated by TLC; the thorough tier adds every sequence of
    # length 3 (all replayed with snapshot comparison, a seeded tenth of them validated by TLC)
    jobs.append({"mode": "hist", "depth": 2, "thorough": not quick, "shard": 0, "nshards": 1, "workers": 2,
                 "seed": ctx.seed, "tlc_fraction": (1, 1)})
    # scenario "slurm": Depth-1 combinator calls over objects whose extra_args spell sbatch flags, then one
    # to_slurm_options observation of a live object (quick: every sequence of 1 call + observation, thorough: 2)
    jobs.append({"mode": "hist", "pool": "slurm", "depth": 2 if quick else 3, "thorough": not quick, "shard": 0,
                 "nshards": 1, "workers": 2, "seed": ctx.seed, "tlc_fraction": (1, 1)})
    if not quick:
        jobs[:0] = [{"mode": "hist", "depth": 3, "thorough": True, "shard": sh, "nshards": 5, "workers": 2,
                     "seed": ctx.seed, "tlc_fraction": (1, 10)} for sh in range(5)]  # one start configuration each
    import time as _t
    t0 = _t.time()
    phases: dict[str, float] = {}
    results = run_jobs(ctx, jobs)
    phases["tlc_export_and_replay"] = round(_t.time() - t0, 1)

    counts: dict[str, int] = {}
    aliased = 0
    nested_src: list[tuple[dict, list, list]] = []
    traces: list[dict] = []
    n_hist = 0
    for r in results:
        job = r["job"]
        ctx.add_tlc(r["tlc"], "MC_Resources " + _job_name(job))
        name = job["mode"] + (f":{job['pool']}^{job['minops']}..{job['nops']}" if job["mode"] == "cmax" else
                              f":{job['pool']}:depth{job['depth']}" if job["mode"] == "hist" and job.get("pool") else
                              f":depth{job['depth']}" if job["mode"] == "hist" else "")
        counts[name] = counts.get(name, 0) + r["n"]
        if job["mode"] == "hist":
            traces += r["traces"]
            n_hist += r["n"]
        else:
            if r["tlc"].distinct != r["n"]:
                raise MachineryError(f"{_job_name(job)}: TLC found {r['tlc'].distinct} cases, {r['n']} were replayed")
            ctx.traces_validated += r["n"]
        for key, nt in r["keys"]:
            ctx.case(key, nontrivial=nt)
        for smp in r["samples"]:
            ctx.sample({"mode": job["mode"], "pool": job.get("pool"), "case": smp}, limit=8)
        for sig, what, wit in r["viol"]:
            ctx.violation(sig, what, wit)
        aliased += r["aliased"]
        if r.get("cases") and r.get("pool"):
            nested_src.append((job, r["pool"], r["cases"]))
    ctx.extra["cases_per_universe"] = counts
    ctx.extra["violating_cases_per_signature"] = _merge_counts(results)
    ctx.extra["update_results_sharing_extra_args_dict_with_receiver"] = aliased

    # ---- history: TLC validates the recorded histories -------------------------------------------------
    t1 = _t.time()
    rej = validate_histories(ctx, traces, "hist")
    phases["history_validation"] = round(_t.time() - t1, 1)
    ctx.traces_validated += n_hist - len(traces)  # replayed with snapshot comparison only
    ctx.extra["histories"] = {"exported_and_replayed": n_hist, "tlc_validated": len(traces), "tlc_rejected": len(rej)}
    mid = traces[len(traces) // 2]
    ctx.sample({"mode": "hist", "start": mid["start"], "ops": _ops_of(mid)}, limit=8)

    # seeded random longer histories (mechanism C)
    nrand = 300 if quick else 4000
    starts = sorted({json.dumps(t["start"], sort_keys=True) for t in traces})
    rstarts = [json.loads(x) for x in starts]
    rtraces = []
    obs_rng = random.Random(f"{ctx.seed}|observations")
    for _ in range(nrand):
        st, ops = random_history(rng, rstarts, 6 if quick else 8)
        ops = with_observations(obs_rng, st, ops)
        rtraces.append(realise(st, ops))
        ctx.case(["rhist", ops, st], nontrivial=True)
    t1 = _t.time()
    rrej = validate_histories(ctx, rtraces, "rhist")
    phases["random_history_validation"] = round(_t.time() - t1, 1)
    ctx.extra["random_histories"] = {"n": nrand, "tlc_rejected": len(rrej)}

    # ---- NestedPipeFunc ---------------------------------------------------------------------------------
    nn = 0
    per = 60 if quick else 400
    for job, pool, cases in sorted(nested_src, key=lambda x: _job_name(x[0])):
        pick = cases if len(cases) <= per else rng.sample(cases, per)
        # two children with resources; one child with resources and one without; two with and one without
        todo = [(c, len(c["c"]) == 1) for c in pick] + [(c, True) for c in pick[: per // 4] if len(c["c"]) == 2]
        for c, with_none in todo:
            nn += 1
            ctx.case(["nested", job["pool"], c["c"], with_none], nontrivial=len(c["c"]) > 1)
            for sig, what, wit in check_nested(c, pool, with_none):
                ctx.violation(sig, what, wit)
    ctx.traces_validated += nn
    ctx.extra["nested_pipefunc_cases"] = nn

    # every TLA+-defined universe of this tier (incl. all length-2 histories) was consumed entirely; the thorough
    # tier's length-3 histories are all replayed with snapshot comparison, a seeded tenth is validated by TLC
    ctx.exhaustive = True
    t1 = _t.time()
    selftest_binding(ctx, results, traces, rej)
    phases["selftest"] = round(_t.time() - t1, 1)
    ctx.extra["phase_wall_s"] = phases


def _merge_counts(results: list[dict]) -> dict[str, int]:
    out: dict[str, int] = {}
    for r in results:
        for k, v in r["viol_count"].items():
            out[k] = out.get(k, 0) + v
    return out


def selftest_binding(ctx: Ctx, results: list[dict], traces: list[dict], rej: dict[int, int]) -> None:
    """(a) alter one expected value of one exported case per universe kind: the comparator must flag exactly that
    case; (b) alter one logged field of one recorded history: TLC must reject exactly that trace at that call."""
    import copy
    for mode in ("ctor", "dict", "slurm", "cmax", "defaults", "update"):
        cands = [r for r in results if r["job"]["mode"] == mode and "st" in r
                 and (mode != "cmax" or r["job"]["pool"] == "ints")]
        if not cands:
            raise MachineryError(f"binding self-test: no {mode} run to take a case from")
        r = cands[0]
        base = process(r["job"], copy.deepcopy(r["st"]))
        if not base["accepted"]:
            if not r["viol_idx"]:
                raise MachineryError(f"binding self-test: no accepted {mode} case to corrupt")
            # every sampled case already violates (the run exits 1 anyway): nothing clean to corrupt
            ctx.selftests.append({"name": f"expected-value corruption ({mode})", "ok": True,
                                  "detail": "skipped: all sampled cases of this universe are violations"})
            continue
        victim = base["accepted"][len(base["accepted"]) // 2]
        bad = process(dict(r["job"], corrupt=victim), copy.deepcopy(r["st"]))
        new = sorted(set(bad["viol_idx"]) - set(base["viol_idx"]))
        lost = sorted(set(base["viol_idx"]) - set(bad["viol_idx"]))
        ctx.selftest(f"expected-value corruption ({mode} case #{victim} of {base['n']})", new == [victim] and not lost,
                     f"newly flagged cases={new} expected=[{victim}]")
    ok = [i for i, t in enumerate(traces) if i not in rej and len(t["ev"]) >= 2 and not t["ev"][0]["raised"]][:12]
    if len(ok) < 3:
        if not rej:
            raise MachineryError("binding self-test: no accepted history with two calls available")
        ctx.selftests.append({"name": "trace corruption", "ok": True,
                              "detail": "skipped: fewer than 3 accepted histories (the run reports violations)"})
        return
    sample = copy.deepcopy([traces[i] for i in ok])
    victim = len(sample) // 2
    e = sample[victim]["ev"][1]
    e["snap"][0]["extra"] = sorted(e["snap"][0]["extra"] + [["zz", 1]])  # object 1 "mutated" by call 2
    got = validate_histories(ctx, sample, "selftest", count=False)
    ctx.selftest("trace corruption (extra_args entry added to object 1 at call 2)", got == {victim: 2},
                 f"rejections={got} expected={{{victim}: 2}}")
    # (c) drop one logged token of one to_slurm_options observation: TLC must reject exactly that event
    obs = [i for i, t in enumerate(traces) if i not in rej and t["ev"][-1]["op"] == "slurm" and t["ev"][-1]["opts"]][:12]
    if len(obs) < 3:
        if not rej:
            raise MachineryError("binding self-test: no accepted history ending in a non-empty observation")
        ctx.selftests.append({"name": "observation corruption", "ok": True,
                              "detail": "skipped: fewer than 3 accepted observations (the run reports violations)"})
        return
    sample = copy.deepcopy([traces[i] for i in obs])
    victim = len(sample) // 2
    dropped = sample[victim]["ev"][-1]["opts"].pop(0)
    got = validate_histories(ctx, sample, "selftest_obs", count=False)
    want = {victim: len(sample[victim]["ev"])}
    ctx.selftest(f"observation corruption (token {render_tok(dropped)} removed from a logged to_slurm_options result)",
                 got == want, f"rejections={got} expected={want}")


# ------------------------------------------------------------------------------------------------
def replay(rep: dict) -> int:
    w = rep["witness"]
    mode = w["mode"]
    if mode == "ctor":
        v = check_ctor(w["case"])
    elif mode == "dict":
        v = check_dict(w["case"])
    elif mode == "slurm":
        v = check_slurm(w["case"])
    elif mode == "cmax":
        ops = w["operands"]
        v = check_cmax(dict(w["case"], c=list(range(1, len(ops) + 1))), [norm_enc(o) for o in ops])
    elif mode == "defaults":
        v = check_defaults(dict(w["case"], c=[1, 1]), [w["receiver"]], [w["defaults"]])
    elif mode == "update":
        v, _ = check_update(dict(w["case"], c=[1, 1]), [w["receiver"]], [w["kwargs"]])
    elif mode == "nested":
        ch = [c for c in w["children"] if c is not None]
        v = check_nested(dict(w["case"], c=list(range(1, len(ch) + 1))), ch, None in w["children"])
    elif mode == "hist":
        tr = realise(w["start"], w["ops"])
        print(json.dumps(tr["ev"], indent=1))
        ctx = Ctx(PROPERTY, "quick", 0)
        ctx.findings = []
        validate_histories(ctx, [tr], "replay")
        v = [(x["sig"], x["what"], None) for x in ctx.violations]
        ctx.cleanup()
    else:
        raise MachineryError(f"unknown witness mode {mode}")
    for sig, what, _ in v:
        print("sig:", json.dumps(sig))
        print("what:", what)
    print("replay:", "VIOLATION reproduced" if v else "case accepted")
    return 1 if v else 0
