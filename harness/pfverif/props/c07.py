"""C07 - every storage backend behaves as a masked n-d object array (spec/Storage.tla).

0. SliceIndices (the spec's transcription of CPython's slice.indices) is exported by TLC for a slice universe
   and compared with range(*slice(...).indices(n)); a disagreement is a machinery failure.
1. TLC checks the laws of Storage.tla over every geometry of the universe and every mutator sequence up to
   Depth over the full key alphabet (MC_Storage, Mode = "laws").
2. TLC exports the op-sequence universe (Mode = "export"); every sequence is replayed on FileArray, DictArray,
   (a sample on) SharedMemoryDictArray and any other class of `storage_registry`; after the constructor and after
   every mutator ALL observers are called and logged (``__getitem__`` for the representative key set
   ObsGetKeys defined in Storage.tla, to_array x3, mask, mask_linear, has_index / get_from_index for every
   linear index).
3. TLC validates every distinct recorded history against the same operators (TraceStorage).  Rejected
   histories are re-run in the trace spec's Diag mode, which names every mismatching item; each item is
   classified into a narrow signature.
4. Seeded random histories on larger shapes (rank <= 4, sizes <= 4, arbitrary slices) go through 2-3 as well.
5. The harness's own NumPy masked object array (NumpyRef) runs every history too, as a sanity cross-check of the
   SPEC: a NumpyRef history rejected by TLC is a machinery failure (exit 2), never a verdict.
6. Backends are also compared with one another directly.
"""
from __future__ import annotations

import copy
import hashlib
import itertools
import json
import multiprocessing as mp
import os
import random
import shutil
import tempfile
import threading
import time
from concurrent.futures import ProcessPoolExecutor, ThreadPoolExecutor
from pathlib import Path
from typing import Any

import numpy as np

from ..ctx import Ctx
from ..tlc import MachineryError, run_tlc
from ..tracekit import parse_prints, validate_traces

PROPERTY = "C07"
LEVEL = "model_checking"

NONE = 99        # NoneMark of Storage.tla
MASKED = -1      # MaskedV
NONE_ELEM = -2   # an unmasked None element (NoneElem of MC_Storage: legal only where None was WRITTEN)
WEIRD = -3       # anything else that is not an element (nested array, bool, ...)
RAISED = -9      # has_index raised
MISSING_VAL = {"shape": [], "data": [MASKED]}
KNOWN_CLS = {"file_array": "FileArray", "dict": "DictArray", "shared_memory_dict": "SharedMemoryDictArray"}
REF = "NumpyRef"
STRIP = ("cls", "ops", "check", "sid", "diag")


# ------------------------------------------------------------------------------------------------
# keys / values <-> JSON
def py_key(key: list[list[int]]) -> tuple:
    return tuple(c[0] if len(c) == 1 else slice(*(None if x == NONE else x for x in c)) for c in key)


def py_value(val: dict, kind: int) -> Any:
    """The Block `val` as a Python object: int (no internal shape), int64 ndarray / object ndarray / nested list."""
    if not val["shape"]:
        return None if val["data"][0] == NONE_ELEM else val["data"][0]      # a written None is an ordinary element
    if kind % 3 == 0:
        return np.array(val["data"], dtype=np.int64).reshape(val["shape"])
    a = np.empty(len(val["data"]), dtype=object)
    a[:] = val["data"]
    a = a.reshape(val["shape"])
    return a if kind % 3 == 1 else a.tolist()


def enc_elem(e: Any) -> int:
    if e is np.ma.masked:
        return MASKED
    if isinstance(e, (bool, np.bool_)):
        return WEIRD
    if isinstance(e, (int, np.integer)):
        return int(e)
    if e is None:
        return NONE_ELEM
    return WEIRD


def enc_block(x: Any) -> dict:
    """An n-d array (masked or not, list, scalar) as {shape, data}: row-major ravel, masked elements = MASKED.
    An element counts as masked if its mask bit is set or it is the np.ma.masked constant."""
    if x is np.ma.masked:
        return {"shape": [], "data": [MASKED]}
    if isinstance(x, (list, tuple)):
        try:
            x = np.asarray(x)
        except ValueError:
            return {"shape": [-1], "data": [WEIRD]}
    if isinstance(x, np.ndarray):
        m = np.ma.getmaskarray(x).reshape(-1)
        d = np.ma.getdata(x).reshape(-1)
        return {"shape": [int(s) for s in x.shape],
                "data": [MASKED if m[i] else enc_elem(d[i]) for i in range(d.shape[0])]}
    return {"shape": [], "data": [enc_elem(x)]}


def _raised(ex: BaseException, generic: bool = False) -> dict:
    return {"exc": "Raises" if generic else type(ex).__name__, "shape": [], "data": [], "elems": []}


def out_block(f, generic_exc: bool = False) -> dict:
    try:
        r = f()
    except Exception as ex:  # noqa: BLE001  a raise is an observation
        return _raised(ex, generic_exc)
    b = enc_block(r)
    return {"exc": "", "shape": b["shape"], "data": b["data"], "elems": []}


def out_unsplat(f) -> dict:
    """to_array(splat_internal=False): an array over the external shape whose elements are Blocks."""
    try:
        r = f()
    except Exception as ex:  # noqa: BLE001
        return _raised(ex)
    if not isinstance(r, np.ndarray):
        return {"exc": "", "shape": [-1], "data": [], "elems": [enc_block(r)]}
    m = np.ma.getmaskarray(r).reshape(-1)
    d = np.ma.getdata(r).reshape(-1)
    return {"exc": "", "shape": [int(s) for s in r.shape], "data": [],
            "elems": [dict(MISSING_VAL) if m[i] else enc_block(d[i]) for i in range(d.shape[0])]}


def out_bits(f, shape_of=None) -> dict:
    try:
        r = f()
    except Exception as ex:  # noqa: BLE001
        return _raised(ex)
    if isinstance(r, np.ndarray):
        d = np.ma.getdata(r)
        return {"exc": "", "shape": [int(s) for s in d.shape], "data": [int(bool(b)) for b in d.reshape(-1)], "elems": []}
    r = list(r)
    return {"exc": "", "shape": [len(r)], "data": [int(bool(b)) for b in r], "elems": []}


# ------------------------------------------------------------------------------------------------
# the NumPy reference (cross-checks the SPEC; it never decides about pipefunc)
class NumpyRef:
    """A masked object array over the full shape; keys are resolved by NumPy's own indexing."""

    _disk: dict[str, Any] = {}

    def __init__(self, folder, shape, internal_shape, shape_mask) -> None:
        self.folder = str(folder)
        self.shape = tuple(shape)
        self.internal = tuple(internal_shape)
        self.smask = tuple(shape_mask)
        ext, inn = iter(self.shape), iter(self.internal)
        self.full = tuple(next(ext) if m else next(inn) for m in self.smask)
        self.ext_axes = [k for k, m in enumerate(self.smask) if m]
        self.int_axes = tuple(k for k, m in enumerate(self.smask) if not m)
        if self.folder in NumpyRef._disk:
            self.a = NumpyRef._disk[self.folder].copy()
        else:
            self.a = np.ma.masked_all(self.full, dtype=object)

    def persist(self) -> None:
        NumpyRef._disk[self.folder] = self.a.copy()

    def _fullkey(self, ext_index) -> tuple:
        k: list[Any] = [slice(None)] * len(self.full)
        for ax, e in zip(self.ext_axes, ext_index):
            k[ax] = int(e)
        return tuple(k)

    def dump(self, key, value) -> None:
        if not isinstance(key, tuple):
            key = (key,)
        if len(key) != len(self.shape):
            raise IndexError("rank")
        lin = np.arange(int(np.prod(self.shape))).reshape(self.shape)[key]  # NumPy resolves ints/negatives/slices
        if self.internal:
            v = np.empty(self.internal, dtype=object)
            v[...] = np.asarray(value, dtype=object)
        for i in np.atleast_1d(lin).ravel():
            fk = self._fullkey(np.unravel_index(int(i), self.shape))
            if self.internal:
                self.a[fk] = v
            else:
                self.a[fk] = value

    def __getitem__(self, key):
        if not isinstance(key, tuple):
            key = (key,)
        if len(key) != len(self.full):
            raise IndexError("rank")
        return self.a[key]

    def _ext_mask(self) -> np.ndarray:
        m = np.ma.getmaskarray(self.a)
        return np.asarray(m.all(axis=self.int_axes)) if self.int_axes else m

    def to_array(self, *, splat_internal=None):
        if splat_internal is None:
            splat_internal = bool(self.internal)
        if splat_internal:
            if not self.internal:
                raise ValueError("internal_shape")
            return self.a.copy()
        data = np.empty(self.shape, dtype=object)
        msk = self._ext_mask()
        for ext in np.ndindex(*self.shape):
            if not msk[ext]:
                blk = self.a[self._fullkey(ext)]
                data[ext] = np.ma.getdata(blk) if self.internal else blk
        return np.ma.MaskedArray(data, mask=msk)

    @property
    def mask(self):
        return self._ext_mask()

    def mask_linear(self):
        return list(self._ext_mask().ravel(order="C"))

    def has_index(self, index: int) -> bool:
        return not self._ext_mask().ravel(order="C")[index]

    def get_from_index(self, index: int):
        ext = np.unravel_index(index, self.shape)
        if self._ext_mask()[ext]:
            raise KeyError(index)
        blk = self.a[self._fullkey(ext)]
        return np.ma.getdata(blk) if self.internal else blk


# ------------------------------------------------------------------------------------------------
# real-code driver
_G: dict = {}


def backend_classes() -> dict[str, type]:
    from pipefunc.map._storage_array._base import storage_registry
    out: dict[str, type] = {}
    for sid, cls in storage_registry.items():
        out[KNOWN_CLS.get(sid, cls.__name__)] = cls
    return out


def make_array(clsname: str, folder: Path, g: dict, keep: list):
    shape, internal, mask = tuple(g["shape"]), tuple(g["internal"]), tuple(bool(m) for m in g["mask"])
    if clsname == REF:
        return NumpyRef(folder, shape, internal, mask)
    cls = backend_classes()[clsname.split("+")[0]]
    if clsname == "FileArray+template":
        # a non-default filename_template, in a folder that ALSO holds a completely written array with the default names:
        # every observer of the custom array must follow its own template
        if not any(isinstance(k, tuple) and k[0] == "neighbour" and k[1] == str(folder) for k in keep):
            import contextlib
            with contextlib.suppress(Exception):      # the neighbour is scenery: a dump that raises shows up in the history itself
                nb = cls(folder, shape, internal, mask)
                for idx in np.ndindex(*shape):
                    nb.dump(idx, np.full(internal, -7, dtype=object) if internal else -7)
            keep.append(("neighbour", str(folder)))
        return cls(folder, shape, internal, mask, filename_template="el_{:d}.custom")
    if clsname == "SharedMemoryDictArray+mapping":
        # one Manager per worker process (a Manager per object costs a process spawn each)
        if "mgr" not in _G:
            _G["mgr"] = mp.Manager()
        return cls(folder, shape, internal, mask, mapping=_G["mgr"].dict())
    return cls(folder, shape, internal, mask)


def child_dump(arr, key, value) -> None:
    """dump() executed by a forked child through ITS copy of the handle (as pipefunc's pool workers do for
    dump_in_subprocess storages); an exception in the child is re-raised here by class name."""
    import pickle
    r, w = os.pipe()
    pid = os.fork()
    if pid == 0:
        os.close(r)
        msg = b""
        try:
            pickle.loads(pickle.dumps(arr)).dump(key, value)      # the worker receives a pickled copy
        except BaseException as ex:  # noqa: BLE001
            msg = type(ex).__name__.encode()
        os.write(w, msg)
        os._exit(0)
    os.close(w)
    with os.fdopen(r, "rb") as fh:
        msg = fh.read().decode()
    os.waitpid(pid, 0)
    if msg:
        raise {"IndexError": IndexError, "ValueError": ValueError, "KeyError": KeyError}.get(msg, RuntimeError)(msg)


SKIPPED = {"exc": "-", "shape": [], "data": [], "elems": []}


def observe(arr, g: dict, gkeys_py: list, size: int, full: bool = True) -> dict:
    """All observers. full=False ("light" event): __getitem__ and the two explicit to_array variants are skipped."""
    internal = bool(g["internal"])
    o: dict = {"get": [out_block(lambda k=k: arr[k]) for k in gkeys_py] if full else []}
    o["ta_none"] = out_block(lambda: arr.to_array()) if internal else out_unsplat(lambda: arr.to_array())
    o["ta_true"] = out_block(lambda: arr.to_array(splat_internal=True)) if full else dict(SKIPPED)
    o["ta_false"] = out_unsplat(lambda: arr.to_array(splat_internal=False)) if full else dict(SKIPPED)
    o["mask"] = out_bits(lambda: arr.mask)
    o["ml"] = out_bits(lambda: arr.mask_linear())
    has = []
    for i in range(size):
        try:
            has.append(int(bool(arr.has_index(i))))
        except Exception:  # noqa: BLE001
            has.append(RAISED)
    o["has"] = has
    # the class of the exception raised for an unwritten linear index is not fixed by the property ("Raises")
    o["gfi"] = [out_block(lambda i=i: arr.get_from_index(i), generic_exc=True) for i in range(size)]
    return o


def replay_ops(clsname: str, g: dict, ops: list[dict], gkeys: list, obs: str, scratch: str, light: bool = False) -> dict:
    """Run `ops` on a fresh object of class `clsname`; record every mutator outcome and all observations.
    light: __getitem__ and to_array(splat_internal=True/False) are observed after the last step only (to_array(),
    mask, mask_linear, has_index, get_from_index after every step)."""
    tmp = tempfile.mkdtemp(prefix="arr_", dir=scratch)
    folder = Path(tmp) / "store"          # must not exist yet (DictArray loads from an existing folder)
    size = int(np.prod(g["shape"])) if g["shape"] else 1
    gk = [py_key(k) for k in gkeys]
    keep: list = []
    ev: list[dict] = []
    try:
        NumpyRef._disk.pop(str(folder), None)
        arr = make_array(clsname, folder, g, keep)
        full_at = (lambda t: t == len(ops)) if light else (lambda t: True)
        ev.append({"op": "new", "key": [], "val": dict(MISSING_VAL), "exc": "", "gk": int(full_at(0)),
                   "o": observe(arr, g, gk, size, full_at(0))})
        for t, op in enumerate(ops, 1):
            exc = ""
            try:
                if op["op"] == "dump" and clsname.endswith("+childdump"):
                    child_dump(arr, py_key(op["key"]), py_value(op["val"], t))
                elif op["op"] == "dump":
                    arr.dump(py_key(op["key"]), py_value(op["val"], t))
                elif op["op"] == "persist_reopen":
                    arr.persist()
                    keep.append(arr)      # the old object stays alive (its Manager too): the lenient reading
                    arr = make_array(clsname, folder, g, keep)
                else:
                    raise ValueError(op["op"])
            except Exception as ex:  # noqa: BLE001  a raise is an event, never a gap
                exc = type(ex).__name__
            ev.append({"op": op["op"], "key": op["key"], "val": {"shape": op["val"]["shape"], "data": op["val"]["data"]},
                       "exc": exc, "gk": int(full_at(t)), "o": observe(arr, g, gk, size, full_at(t))})
    finally:
        NumpyRef._disk.pop(str(folder), None)
        shutil.rmtree(tmp, ignore_errors=True)
    return {"g": g, "obs": obs, "gkeys": gkeys, "ev": ev, "cls": clsname, "ops": ops}


def _worker(job):
    clsname, gid, ops, obs, sid = job
    geo = _G["geoms"][gid]
    gkeys = geo["gkeys"] if obs == "full" else _G["rand_gkeys"][sid]
    light = obs == "full" and sid[1] % _G.get("full_every", 1) != 0
    try:
        tr = replay_ops(clsname, geo["g"], ops, gkeys, obs, _G["scratch"], light)
    except Exception as ex:  # noqa: BLE001  constructor failed etc.: the harness could not even start
        return {"machinery": f"{clsname} {geo['g']}: {type(ex).__name__}: {ex}"}
    tr["sid"] = sid
    body = json.dumps({k: tr[k] for k in ("g", "obs", "gkeys", "ev")}, separators=(",", ":"), sort_keys=True)
    tr["digest"] = hashlib.sha1(body.encode()).hexdigest()
    return tr


def run_many(jobs: list, nproc: int | None = None) -> list[dict]:
    if not jobs:
        return []
    n = nproc or min(16, os.cpu_count() or 4)
    with ProcessPoolExecutor(n, mp_context=mp.get_context("fork")) as pool:
        return list(pool.map(_worker, jobs, chunksize=max(1, min(64, len(jobs) // (4 * n) or 1))))


# ------------------------------------------------------------------------------------------------
# TLC runs
MC_CFG = """SPECIFICATION Spec
CONSTANTS Mode = "{mode}" MaxRank = {rank} MaxSize = {size} Depth = {depth} Budget = {budget} KeyLimit = {keylimit}
          LawKeysAll = {allkeys} SliceBound = {sb} SliceMaxN = {sn}
{rest}
"""
LAWS = ("InvWellFormed InvUnwrittenMasked InvLastWriteWins InvDump InvPersistReopen InvErrors InvCells InvNegative "
        "InvSlices InvMask InvToArray")


def mc_cfg(mode: str, rest: str, *, rank=3, size=2, depth=3, budget=300, keylimit=100000, allkeys=False, sb=6, sn=6) -> str:
    return MC_CFG.format(mode=mode, rank=rank, size=size, depth=depth, budget=budget, keylimit=keylimit,
                         allkeys="TRUE" if allkeys else "FALSE", sb=sb, sn=sn, rest=rest)


def check_slice_indices(ctx: Ctx, sb: int, sn: int) -> None:
    """Mechanism A for the one piece of arithmetic both sides share: SliceIndices vs CPython."""
    r = run_tlc("MC_Storage", mc_cfg("slices", "INVARIANT InvSliceSound EmitSlice", sb=sb, sn=sn),
                ctx.workdir("mc_slices"), workers=8, allow_violation=False)
    ctx.add_tlc(r, f"MC_Storage slices |field|<={sb} n<={sn}")
    n = 0
    for tag, d in parse_prints(r.prints):
        if tag != "SLICE":
            continue
        n += 1
        exp = list(range(*slice(*[None if x == NONE else x for x in d["s"]]).indices(d["n"])))
        if exp != d["out"]:
            raise MachineryError(f"SliceIndices disagrees with CPython: slice{tuple(d['s'])}.indices({d['n']}): "
                                 f"spec {d['out']} CPython {exp}")
    want = (2 * sb + 2) ** 2 * 7 * (sn + 1)
    if n != want:
        raise MachineryError(f"slice universe: {n} cases exported, expected {want}")
    ctx.extra["slice_indices_cases_checked_against_cpython"] = n


def check_laws(ctx: Ctx, size: int, depth: int, allkeys: bool, results: list) -> None:
    r = run_tlc("MC_Storage", mc_cfg("laws", "VIEW LawView\nINVARIANT " + LAWS, size=size, depth=depth, allkeys=allkeys),
                ctx.workdir(f"mc_laws_{size}_{depth}"), workers="auto", allow_violation=False, timeout=3000)
    results.append((r, f"MC_Storage laws MaxSize={size} Depth={depth} allkeys={allkeys}"))
    if r.distinct < 10:
        raise MachineryError("MC_Storage laws explored almost nothing")


def export_universe(ctx: Ctx, size: int, depth: int, budget: int, keylimit: int,
                    rank: int = 3) -> tuple[list[dict], list[tuple[int, list[dict]]]]:
    r = run_tlc("MC_Storage", mc_cfg("export", "INVARIANT EmitGeom EmitSeq", rank=rank, size=size, depth=depth, budget=budget,
                                     keylimit=keylimit),
                ctx.workdir(f"mc_export_{size}"), workers="auto", allow_violation=False, timeout=3000)
    ctx.add_tlc(r, f"MC_Storage export MaxSize={size} Depth={depth} Budget={budget} KeyLimit={keylimit}")
    geoms: dict[str, dict] = {}
    seqs: dict[str, tuple[str, list[dict]]] = {}
    for tag, d in parse_prints(r.prints):
        if tag == "GEOM":
            geoms[json.dumps(d["g"], sort_keys=True)] = d
        elif tag == "SEQ":
            seqs[json.dumps(d, sort_keys=True)] = (json.dumps(d["g"], sort_keys=True), d["ops"])
    if not geoms or not seqs:
        raise MachineryError("MC_Storage exported nothing")
    gl = sorted(geoms)
    gid = {k: i for i, k in enumerate(gl)}
    out = sorted(((gid[gk], ops) for gk, ops in seqs.values()), key=lambda x: (x[0], json.dumps(x[1], sort_keys=True)))
    missing = set(range(len(gl))) - {g for g, _ in out}
    if missing:
        raise MachineryError(f"no sequence exported for geometries {missing}")
    if r.distinct < len(out):
        raise MachineryError("fewer states than exported sequences")
    return [geoms[k] for k in gl], out


# ------------------------------------------------------------------------------------------------
# verdicts
def _strip(t: dict) -> dict:
    return {k: t[k] for k in ("g", "obs", "gkeys", "ev")}


DIAG_CFG = "SPECIFICATION Spec\nCONSTANTS Diag = TRUE\n"


def diagnose(ctx: Ctx, traces: list[dict], name: str) -> dict[int, list[dict]]:
    """Diag mode of TraceStorage on the given traces: {trace index: [mismatching items, in event order]}."""
    if not traces:
        return {}
    chunk = 400
    chunks = [list(range(i, min(i + chunk, len(traces)))) for i in range(0, len(traces), chunk)]

    def one(ci: int):
        wd = ctx.workdir(f"diag_{name}_{ci}")
        f = wd / "traces.ndjson"
        with f.open("w") as fh:
            for i in chunks[ci]:
                fh.write(json.dumps(_strip(traces[i]), separators=(",", ":")) + "\n")
        return ci, run_tlc("TraceStorage", DIAG_CFG, wd, workers=2, env={"TRACE_FILE": str(f)}, allow_violation=False)

    out: dict[int, list[dict]] = {}
    with ThreadPoolExecutor(max_workers=8) as ex:
        for ci, r in ex.map(one, range(len(chunks))):
            for tag, d in parse_prints(r.prints):
                if tag == "BADTRACE":
                    raise MachineryError(f"ill-formed trace (harness error): {traces[chunks[ci][d[0] - 1]]['ops']}")
                if tag == "DIAG":
                    out.setdefault(chunks[ci][d["t"] - 1], []).append(d)
    for v in out.values():
        uniq = {json.dumps(x, sort_keys=True): x for x in v}     # Step may be evaluated more than once
        v[:] = sorted(uniq.values(), key=lambda x: (x["l"], x["c"], x["i"]))
    return out


def observed_item(tr: dict, d: dict) -> Any:
    e = tr["ev"][d["l"] - 1]
    if d["c"] == "outcome":
        return e["exc"]
    o = e["o"][d["c"]]
    return o[d["i"] - 1] if d["i"] and isinstance(o, list) else o


def mismatch_kind(exp: Any, obs: Any) -> str:
    if not isinstance(exp, dict) or not isinstance(obs, dict):
        return "wrong_value"
    if obs.get("exc"):
        return "raises" if not exp.get("exc") else "wrong_exception"
    if exp.get("exc"):
        return "no_exception"
    if exp["elems"] or obs["elems"]:
        return "wrong_shape" if exp["shape"] != obs["shape"] else "wrong_value"
    if exp["shape"] != obs["shape"]:
        return "unwritten_not_masked" if exp["data"] == [MASKED] else "wrong_shape"
    diff = [(a, b) for a, b in zip(exp["data"], obs["data"]) if a != b]
    if diff and all(a == MASKED for a, _ in diff):
        return "unwritten_not_masked"
    if diff and all(b == MASKED for _, b in diff):
        return "written_masked"
    return "wrong_value"


def wrong_axis_model(g: dict, key: list) -> str:
    """What normalize_key(for_dump=True) answers if every key component is checked against the axis at the same
    POSITION of the full shape instead of its own external axis (diagnostic feature for signatures only)."""
    ext, inn = iter(g["shape"]), iter(g["internal"])
    full = [next(ext) if m else next(inn) for m in g["mask"]]
    if len(key) != len(g["shape"]):
        return "IndexError"
    for c, n in zip(key, full):
        if len(c) == 1 and not (-n <= c[0] < n):
            return "IndexError"
    return ""


STATE_CLAUSES = ("mask", "ml", "has", "gfi")


def geom_features(g: dict) -> dict:
    mask = [bool(m) for m in g["mask"]]
    return {"internal_shape": bool(g["internal"]),
            "internal_before_external": any((not mask[i]) and any(mask[i + 1:]) for i in range(len(mask)))}


def classify(tr: dict, items: list[dict], check: str) -> list[tuple[dict, dict]]:
    """Narrow signatures for the mismatching items of ONE event of one recorded history: [(signature, item)].
    * the mutator's outcome differs            -> one signature (clause "outcome"), observers are consequences
    * the stored state differs (mask, mask_linear, has_index, get_from_index) -> one signature (clause "state")
    * otherwise one signature per (observer, kind of mismatch): the features of the mutator are irrelevant"""
    g = tr["g"]
    e = tr["ev"][items[0]["l"] - 1]
    base = {"check": check, "cls": tr["cls"].split("+")[0],
            "after_reopen": any(x["op"] == "persist_reopen" for x in tr["ev"][: items[0]["l"]])}
    mut = dict(base, op=e["op"], **geom_features(g))
    if e["op"] == "dump":
        mut["key_has_slice"] = any(len(c) == 3 for c in e["key"])
    outcome = [it for it in items if it["c"] == "outcome"]
    if outcome:
        it = outcome[0]
        obs = observed_item(tr, it)
        kind = "mutator_raised"
        if e["op"] == "dump":
            kind = "dump_rejected" if obs and not it["exp"] else "dump_accepted" if it["exp"] and not obs else "wrong_exception"
            mut["wrong_axis_model_explains"] = mut["internal_before_external"] and wrong_axis_model(g, e["key"]) == obs
        return [(dict(mut, clause="outcome", kind=kind, exc=obs or ""), it)]
    state = [it for it in items if it["c"] in STATE_CLAUSES]
    if state:
        it = next((x for x in state if x["c"] == "ml"), state[0])
        obs = observed_item(tr, it)
        exc = obs.get("exc", "") if isinstance(obs, dict) else ("raised" if obs == RAISED else "")
        cs = {x["c"] for x in state}
        if exc:
            kind = "observer_raises"
        elif cs <= {"ml", "mask"} or cs == {"has"}:
            kind = "state_observer_wrong:" + "+".join(sorted(cs))   # the other state observers agree with the spec
        else:
            kind = "dump_wrong_cells" if e["op"] == "dump" else "state_changed"
        return [(dict(mut, clause="state", kind=kind, exc=exc), it)]
    out, seen = [], set()
    for it in items:
        obs = observed_item(tr, it)
        sig = dict(base, clause=it["c"], kind=mismatch_kind(it["exp"], obs), internal_shape=bool(g["internal"]),
                   exc=obs.get("exc", "") if isinstance(obs, dict) else "")
        k = json.dumps(sig, sort_keys=True)
        if k not in seen:
            seen.add(k)
            out.append((sig, it))
    return out


def report(ctx: Ctx, traces: list[dict], owners: dict[int, list[dict]], rejected: dict[int, int], name: str,
           check: str) -> None:
    """Turn TLC's rejections into violations (or a machinery failure when the NumPy reference is rejected)."""
    if not rejected:
        return
    idx = sorted(rejected)
    diags = diagnose(ctx, [traces[i] for i in idx], name)
    for j, i in enumerate(idx):
        items = diags.get(j, [])
        tr = traces[i]
        if not items or items[0]["l"] != rejected[i]:
            raise MachineryError(f"strict and diagnostic validation disagree on trace {i} of {name}: rejected at "
                                 f"{rejected[i]}, first diagnostic {items[:1]}; ops={tr['ops']} g={tr['g']}")
        for own in owners[i]:
            if own["cls"] == REF:
                it = items[0]
                raise MachineryError(
                    "the NumPy reference disagrees with Storage.tla (one of the two is wrong; this is not a verdict "
                    f"about pipefunc): g={tr['g']} ops={tr['ops']} event {it['l']} clause {it['c']}[{it['i']}] "
                    f"spec={it['exp']} numpy={observed_item(tr, it)}")
        # Event by event; after an event whose mutator outcome or stored state differs, the real object and the
        # specified state have diverged: later items are consequences, not separate failures.
        for own in owners[i]:
            t2 = dict(tr, cls=own["cls"])
            seen: set[str] = set()
            for lev in sorted({it["l"] for it in items}):
                here = [it for it in items if it["l"] == lev]
                for sig, it in classify(t2, here, check):
                    k = json.dumps(sig, sort_keys=True)
                    if k in seen:
                        continue
                    seen.add(k)
                    e = tr["ev"][it["l"] - 1]
                    what = (f"{sig['cls']} {g_str(tr['g'])}: after {e['op']}{key_str(e['key']) if e['op'] == 'dump' else ''} "
                            f"(event {it['l']}) {it['c']}"
                            f"{'[' + key_str(tr['gkeys'][it['i'] - 1]) + ']' if it['c'] == 'get' else ''}"
                            f"{'(' + str(it['i'] - 1) + ')' if it['c'] in ('has', 'gfi') else ''} "
                            f"observed {short(observed_item(tr, it))}, required {short(it['exp'])}")
                    nsig = _G.setdefault("nsig", {})
                    nsig[k] = nsig.get(k, 0) + 1
                    wit = {"cls": own["cls"], "g": tr["g"], "ops": tr["ops"], "obs": tr["obs"], "check": check}
                    if nsig[k] <= 2:      # full replayable witness for the first ones only (memory)
                        wit.update({"gkeys": tr["gkeys"], "rejected_at": rejected[i], "item": it,
                                    "observed": observed_item(tr, it)})
                    ctx.violation(sig, what, wit)
                if any(it["c"] == "outcome" or it["c"] in STATE_CLAUSES for it in here):
                    break


def g_str(g: dict) -> str:
    return f"shape={tuple(g['shape'])} internal={tuple(g['internal'])} mask={tuple(int(m) for m in g['mask'])}"


def key_str(key: list) -> str:
    def c(x):
        if len(x) == 1:
            return str(x[0])
        a, b, s = ("" if v == NONE else str(v) for v in x)
        return f"{a}:{b}" + (f":{s}" if s else "")
    return "(" + ", ".join(c(x) for x in key) + ")"


def short(x: Any) -> str:
    if isinstance(x, dict):
        if x.get("exc"):
            return x["exc"]
        if x.get("elems"):
            return f"array{x['shape']} of blocks {[e['data'] for e in x['elems']]}"
        return f"array{x['shape']}{x['data']}" if x["shape"] else f"{x['data'][0] if x['data'] else x}"
    return repr(x)


def validate(ctx: Ctx, traces: list[dict], name: str, check: str) -> list[dict]:
    """Deduplicate recorded histories (the class is not an input of the spec), TLC-validate the distinct ones,
    report the rejected ones per class. Returns the accepted distinct histories."""
    bad = [t for t in traces if "machinery" in t]
    if bad:
        raise MachineryError(bad[0]["machinery"])
    uniq: dict[str, int] = {}
    dist: list[dict] = []
    owners: dict[int, list[dict]] = {}
    for t in traces:
        i = uniq.setdefault(t["digest"], len(dist))
        if i == len(dist):
            dist.append(t)
        owners.setdefault(i, []).append({"cls": t["cls"], "sid": t["sid"]})
    rej = validate_traces(ctx, "TraceStorage", dist, name, invariants=["InvWellFormed", "InvMask"],
                          strip=STRIP + ("digest",), chunk=600, constants="Diag = FALSE")
    # validate_traces counted the distinct accepted histories; count the accepted histories of REAL classes instead
    ctx.traces_validated += sum(1 for i in range(len(dist)) if i not in rej for o in owners[i] if o["cls"] != REF) \
        - (len(dist) - len(rej))
    report(ctx, dist, owners, rej, name, check)
    ctx.extra.setdefault("distinct_histories_validated", 0)
    ctx.extra["distinct_histories_validated"] += len(dist)
    return [dist[i] for i in range(len(dist)) if i not in rej]


def cross_backend(ctx: Ctx, traces: list[dict], rejected_digests: set[str]) -> None:
    """Direct comparison of the backends on every sequence.  Two different histories of one sequence cannot
    both be explained by the (deterministic) spec: then the machinery is wrong."""
    by_sid: dict[Any, list[dict]] = {}
    for t in traces:
        by_sid.setdefault(t["sid"], []).append(t)
    n_dis = 0
    for sid, ts in by_sid.items():
        digs = {t["digest"] for t in ts if t["cls"] != REF}
        if len(digs) > 1:
            n_dis += 1
            if len(digs - rejected_digests) > 1:
                raise MachineryError(f"backends disagree on sequence {sid} but TLC accepted both histories: "
                                     f"{[(t['cls'], t['ops']) for t in ts][:2]}")
    ctx.extra["sequences_compared_across_backends"] = ctx.extra.get("sequences_compared_across_backends", 0) + len(by_sid)
    ctx.extra["sequences_with_backend_disagreement"] = ctx.extra.get("sequences_with_backend_disagreement", 0) + n_dis


def validate_and_compare(ctx: Ctx, traces: list[dict], name: str, check: str) -> list[dict]:
    ok = validate(ctx, traces, name, check)
    okd = {t["digest"] for t in ok}
    cross_backend(ctx, traces, {t["digest"] for t in traces} - okd)
    return ok


# ------------------------------------------------------------------------------------------------
def selftest_binding(ctx: Ctx, accepted: list[dict]) -> None:
    """Corrupt one logged observation of one accepted history: TLC must reject exactly that history at that
    event, and the diagnostic mode must name exactly the corrupted item."""
    cands = [t for t in accepted if len(t["ev"]) >= 2 and t["ev"][1]["op"] == "dump" and not t["ev"][1]["exc"]
             and any(x["data"] for x in t["ev"][1]["o"]["get"])]
    if len(cands) < 3:
        raise MachineryError("binding self-test: no accepted history to corrupt")
    sample = copy.deepcopy(cands[:12])
    for corruption in ("ml", "get"):
        s2 = copy.deepcopy(sample)
        victim = len(s2) // 2
        o = s2[victim]["ev"][1]["o"]
        if corruption == "ml":
            o["ml"]["data"][0] = 1 - o["ml"]["data"][0]
            want = {"c": "ml", "i": 0}
        else:
            gi = next(i for i, x in enumerate(o["get"]) if x["data"])
            o["get"][gi]["data"][0] += 1000
            want = {"c": "get", "i": gi + 1}
        rej = validate_traces(ctx, "TraceStorage", s2, f"selftest_{corruption}", invariants=[],
                              strip=STRIP + ("digest",), count=False, constants="Diag = FALSE")
        dg = diagnose(ctx, [s2[victim]], f"selftest_{corruption}")
        items = [{"c": x["c"], "i": x["i"], "l": x["l"]} for x in dg.get(0, [])]
        ok = rej == {victim: 2} and items == [dict(want, l=2)]
        ctx.selftest(f"trace-corruption({corruption} of event 2)", ok,
                     f"rejections={rej} expected={{{victim}: 2}} diagnostic={items} expected=[{dict(want, l=2)}]")


# ------------------------------------------------------------------------------------------------
# random histories on larger shapes
def rand_comp(rng: random.Random, n: int) -> list[int]:
    x = rng.random()
    if x < 0.5:
        return [rng.randint(-n, n - 1)]
    if x < 0.56:
        return [rng.choice([n, n + 1, -n - 1, -n - 2])]
    def f():
        return NONE if rng.random() < 0.4 else rng.randint(-n - 2, n + 2)
    return [f(), f(), rng.choice([NONE, NONE, 1, -1, 2, -2, 3, -3])]


def rand_key(rng: random.Random, sizes: list[int]) -> list[list[int]]:
    if rng.random() < 0.04:
        r = len(sizes) + rng.choice([-1, 1])
        return [rand_comp(rng, 2) for _ in range(max(r, 0))]
    return [rand_comp(rng, n) for n in sizes]


def random_case(rng: random.Random, nops: int) -> tuple[dict, list[dict], list]:
    while True:
        rank = rng.randint(1, 4)
        full = [rng.randint(1, 4) for _ in range(rank)]
        mask = [rng.random() < 0.6 for _ in range(rank)]
        if any(mask) and int(np.prod(full)) <= 64:
            break
    g = {"shape": [n for n, m in zip(full, mask) if m], "internal": [n for n, m in zip(full, mask) if not m], "mask": mask}
    nint = int(np.prod(g["internal"])) if g["internal"] else 1
    ops = []
    for t in range(1, nops + 1):
        if rng.random() < 0.1:
            ops.append({"op": "persist_reopen", "key": [], "val": dict(MISSING_VAL), "exc": ""})
        else:
            ops.append({"op": "dump", "key": rand_key(rng, g["shape"]),
                        "val": {"shape": g["internal"], "data": ([NONE_ELEM] if not g["internal"] and t % 4 == 3 else
                                                                  [1000 * t + j for j in range(1, nint + 1)])}, "exc": ""})
    gkeys = [[[NONE, NONE, NONE]] * rank, [[0]] * rank, [[-1]] * rank] + [rand_key(rng, full) for _ in range(24)]
    return g, ops, gkeys


# ------------------------------------------------------------------------------------------------
def run(ctx: Ctx) -> None:
    quick = ctx.tier == "quick"
    rng = random.Random(ctx.seed)
    ctx.rule = ("case = one mutator history (dump with int/negative/out-of-range/slice/wrong-rank keys, persist-then-"
                "reopen) on one geometry (external shape, internal shape, shape_mask) and one backend class; histories "
                "are the leaves exported by TLC from MC_Storage (every geometry of rank<=3 with maximally distinct sizes, "
                "every mask with >=1 external axis) plus seeded random histories on shapes of rank<=4, sizes<=4; "
                "non-trivial = at least one successful dump and (an internal axis or >=2 external cells)")
    ctx.assumptions = [
        "TLC and the JSON trace encoding ({shape, data} row-major) are trusted",
        "elements are small positive integers; blocks are int64 ndarrays, object ndarrays or nested lists in turn",
        "an element counts as masked if its mask bit is set or it is the np.ma.masked constant (MaskedArray vs "
        "ndarray-of-masked-constants is not distinguished)",
        "don't care: storage arrays without any external axis (never built by pipefunc); linear indices outside "
        "0..size-1; the exception class of get_from_index on an unwritten index; non-tuple keys",
        "SharedMemoryDictArray runs on a sample of the sequences (mostly with one shared Manager per worker via "
        "mapping=, a few with its own Manager)",
        "observed __getitem__ keys: the bounded representative set ObsGetKeys of Storage.tla (all cells, per axis its "
        "whole alphabet against two bases, wrong ranks, six all-slice keys), after the last step of every exported "
        "history and after EVERY step of every 4th (thorough: 8th) one, together with to_array(splat_internal=True/False); "
        "to_array(), mask, mask_linear, has_index, get_from_index after every step of every history; random histories: "
        "27 sampled keys and all observers after every step",
    ]
    classes = backend_classes()
    ctx.extra["backend_classes"] = sorted(classes)
    _G["full_every"] = 4 if quick else 8
    _G["scratch"] = str(ctx.workdir("arrays"))

    phases: dict[str, float] = {}
    ctx.extra["phase_wall_s"] = phases
    t0 = time.time()

    def lap(name: str) -> None:
        nonlocal t0
        phases[name] = round(phases.get(name, 0.0) + time.time() - t0, 1)
        t0 = time.time()

    # 0. SliceIndices vs CPython
    check_slice_indices(ctx, 6, 6)
    lap("slice_indices")

    # 1. laws (in a thread: it only needs TLC)
    law_err: list[BaseException] = []
    law_res: list = []

    def laws() -> None:
        try:
            if quick:
                check_laws(ctx, 2, 2, False, law_res)
            else:
                check_laws(ctx, 2, 3, False, law_res)
                check_laws(ctx, 2, 2, True, law_res)     # __getitem__ laws over the FULL key alphabet
                check_laws(ctx, 3, 2, False, law_res)
        except BaseException as ex:  # noqa: BLE001
            law_err.append(ex)

    th = threading.Thread(target=laws)
    th.start()

    # 2./3. exported universe -> real classes -> TLC
    accepted: list[dict] = []
    universes = [(2, 3, 50, 200)] if quick else [(2, 3, 1500, 100000), (3, 3, 400, 100000)]
    n_seq = 0
    for size, depth, budget, keylimit in universes:
        geoms, seqs = export_universe(ctx, size, depth, budget, keylimit)
        lap("export")
        _G["geoms"] = geoms
        n_seq += len(seqs)
        ctx.extra.setdefault("universe", []).append(
            {"MaxSize": size, "geometries": len(geoms), "sequences": len(seqs),
             "KeyLimit": keylimit, "Budget": budget,
             "plans(depth,full_steps,keys,star)": sorted({(*x["plan"], x["nkeys"], x["star"]) for x in geoms})})
        smd_every = 40 if quick else 25
        batch = 3000
        for b0 in range(0, len(seqs), batch):
            jobs = []
            for sid in range(b0, min(b0 + batch, len(seqs))):
                gid, ops = seqs[sid]
                for cn in classes:
                    if cn == "SharedMemoryDictArray":
                        if sid % smd_every == 0:
                            jobs.append((cn + ("" if sid % (smd_every * 8) == 0 else "+mapping"), gid, ops, "full", (size, sid)))
                    else:
                        jobs.append((cn, gid, ops, "full", (size, sid)))
                    if cn == "FileArray" and sid % 7 == 3:
                        jobs.append((cn + "+template", gid, ops, "full", (size, sid)))
                    if cn == "SharedMemoryDictArray" and sid % (smd_every * 2) == 1:
                        jobs.append((cn + "+childdump", gid, ops, "full", (size, sid)))
                jobs.append((REF, gid, ops, "full", (size, sid)))
            traces = run_many(jobs)
            lap("replay_on_classes")
            ok = validate_and_compare(ctx, traces, f"u{size}_{b0}", "replay")
            lap("tlc_validation")
            accepted += ok[:: max(1, len(ok) // 20)][:20]
            for t in traces:
                if t["cls"] != REF:
                    g = t["g"]
                    nontriv = any(e["op"] == "dump" and not e["exc"] for e in t["ev"]) and \
                        (bool(g["internal"]) or int(np.prod(g["shape"])) >= 2)
                    ctx.case({"cls": t["cls"], "g": g, "ops": t["ops"]}, nontrivial=nontriv)
            mid = next(t for t in traces[len(traces) // 2:] + traces if t["cls"] != REF)
            ctx.sample({"cls": mid["cls"], "g": mid["g"], "ops": mid["ops"],
                        "last_event": {k: v for k, v in mid["ev"][-1].items() if k != "o"},
                        "last_mask_linear": mid["ev"][-1]["o"]["ml"]}, limit=4)
            del traces
    ctx.exhaustive = True   # the whole exported universe was replayed on FileArray and DictArray (SharedMemory: sample)

    # 4. random histories on larger shapes
    nrand = 250 if quick else 4000
    geoms_r, jobs = [], []
    _G["rand_gkeys"] = {}
    for i in range(nrand):
        g, ops, gkeys = random_case(rng, rng.randint(4, 9 if quick else 14))
        geoms_r.append({"g": g, "gkeys": gkeys})
        sid = ("r", i)
        _G["rand_gkeys"][sid] = gkeys
        for cn in classes:
            if cn == "SharedMemoryDictArray":
                if i % 10 == 0:
                    jobs.append((cn + "+mapping", i, ops, "sampled", sid))
            else:
                jobs.append((cn, i, ops, "sampled", sid))
            if cn == "FileArray" and i % 5 == 2:
                jobs.append((cn + "+template", i, ops, "sampled", sid))
            if cn == "SharedMemoryDictArray" and i % 20 == 5:
                jobs.append((cn + "+childdump", i, ops, "sampled", sid))
        jobs.append((REF, i, ops, "sampled", sid))
    _G["geoms"] = geoms_r
    rtraces = run_many(jobs)
    lap("random_replay")
    validate_and_compare(ctx, rtraces, "random", "random")
    lap("random_tlc_validation")
    for t in rtraces:
        if "cls" in t and t["cls"] != REF:
            ctx.case({"cls": t["cls"], "g": t["g"], "ops": t["ops"]}, nontrivial=any(e["op"] == "dump" and not e["exc"] for e in t["ev"]))
    ctx.extra["random_histories"] = nrand

    # 5. binding self-test
    selftest_binding(ctx, accepted)
    lap("selftest")

    th.join()
    lap("wait_for_laws")
    for r, what in law_res:
        ctx.add_tlc(r, what)
    if law_err:
        raise law_err[0]


def replay(rep: dict) -> int:
    w = rep["witness"]
    ctx = Ctx(PROPERTY, "quick", 0)
    ctx.findings = []
    try:
        _G["scratch"] = str(ctx.workdir("arrays"))
        tr = replay_ops(w["cls"], w["g"], w["ops"], w["gkeys"], w["obs"], _G["scratch"])
        tr["sid"] = 0
        tr["digest"] = "replay"
        for e in tr["ev"]:
            print(json.dumps({k: v for k, v in e.items() if k != "o"}), "mask_linear=", e["o"]["ml"]["data"] or e["o"]["ml"]["exc"])
        validate(ctx, [tr], "replay", w.get("check", "replay"))
        for v in ctx.violations:
            print("  ", v["what"])
            print("   sig:", json.dumps(v["sig"]))
        n = len(ctx.violations)
    finally:
        ctx.cleanup()
    print("replay:", "VIOLATION reproduced" if n else "history accepted")
    return 1 if n else 0
