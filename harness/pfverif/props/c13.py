"""C13 - user-function failures surface unchanged, attributed and reproducible.

Map side: MC_MapRun with one designated failing invocation (FailF/FailN): TLC explores every interleaving incl. which
siblings have finished when the failure is observed, checks NoLaterGeneration and (liveness, under weak fairness)
Terminates, and prints the behaviours as schedule scripts; the controllable executor realises them on every storage via
map and map_async; TLC validates the recorded runs (TraceMapRun: exception class/args unchanged, attributed note, nothing
of a later generation, earlier-generation results still loadable).  Real thread/process pools and several exception
types are sampled under a watchdog.  Call side: pipeline(...) failures and ErrorSnapshot via TracePipelineFail.
"""
from __future__ import annotations

import contextlib
import io
import json
import random
import shutil
import tempfile
import threading
from concurrent.futures import ProcessPoolExecutor, ThreadPoolExecutor

from .. import build, exec_ctl, pmap
from ..ctx import Ctx
from ..tlc import MachineryError, run_tlc
from ..tracekit import parse_prints, validate_traces
from . import c03

PROPERTY = "C13"
LEVEL = "model_checking"
STRIP = ("storage", "entry", "followed", "stuck", "script", "snap", "hang")

LIVE_CFG = """SPECIFICATION FairSpec
CONSTANTS Scenario = "{scenario}" MaxConc = {maxconc} FailF = "{failf}" FailN = {failn} Export = FALSE
PROPERTY Terminates
"""
EXC_KINDS = [("ValueError", ["boom"]), ("KeyError", ["k"]), ("ZeroDivisionError", []), ("HarnessError", ["custom", 3]),
             ("StatefulError", ["stateful"])]


def run_failing(scen: dict, sched: list[dict], storage, entry: str, fail: dict) -> dict:
    pdesc = pmap.tla_desc_to_py(scen["desc"])
    for fd in pdesc["funcs"]:
        if fd["name"] == fail["f"]:
            fd["fail"] = {"when": fail["n"], "cls": fail["cls"], "args": fail["args"], "prenote": fail.get("prenote", False)}
    build.reset_log()
    tmp = tempfile.mkdtemp(prefix="pfverif_c13_")
    script = exec_ctl.Script(sched)
    ex = exec_ctl.ScriptedExecutor()
    out: dict = {}

    def settle():
        ex.shutdown(wait=True)

    def body():
        with contextlib.redirect_stdout(io.StringIO()):
            pl = build.make_pipeline(pdesc)
        out["pl"] = pl
        inp = pmap.inputs_to_py(scen["inputs"], {n: fail["kinds"] for n, _ in scen["inputs"]} if fail.get("kinds") else {})
        with exec_ctl.with_script(script):
            if entry == "map":
                out["r"] = pmap.do_map(pl, pdesc, inp, run_folder=tmp, storage=storage, parallel=True, executor=ex,
                                       settle=settle)
            elif entry == "seq":
                build.GATE = None
                out["r"] = pmap.do_map(pl, pdesc, inp, run_folder=tmp, storage=storage, parallel=False)
            else:
                out["r"] = do_map_async_fail(pl, pdesc, inp, tmp, storage, ex, settle)
    th = threading.Thread(target=body, daemon=True)
    th.start()
    th.join(timeout=600)
    hang = th.is_alive()
    try:
        if hang:
            evs = [pmap.ev(e="begin", F=[fd["name"] for fd in pdesc["funcs"]])] + pmap.log_events(0) + [pmap.ev(e="hang")]
            snap = {}
        else:
            evs, res = out["r"]
            snap = snapshot_obs(out["pl"], pdesc, fail, tmp) if entry in ("seq", "map", "async") else {}
            put_snapshot(evs, snap)
    finally:
        build.GATE = None
        shutil.rmtree(tmp, ignore_errors=True)
    recorded = [(e["e"], e["f"], json.dumps(dict(e["kwargs"]), sort_keys=True)) for e in evs if e["e"] in ("call", "ret", "fail")]
    followed = entry == "seq" or (recorded[: len(script.items)] == script.items and script.finished())
    return {"desc": scen["desc"], "inputs": scen["inputs"], "ev": evs, "storage": storage, "entry": entry,
            "followed": followed, "stuck": script.stuck or "", "script": sched, "snap": snap, "hang": hang}


def do_map_async_fail(pl, pdesc, inp, run_folder, storage, executor, settle):
    import asyncio
    fnames = [fd["name"] for fd in pdesc["funcs"]]
    events = [pmap.ev(e="begin", F=fnames, cleanup=True, fixed=[])]
    start = len(build.LOG)

    async def go():
        am = pl.map_async(inp, run_folder=run_folder, storage=storage, executor=executor)
        return await am.task
    try:
        with contextlib.redirect_stdout(io.StringIO()):
            res = asyncio.run(go())
    except (Exception, asyncio.CancelledError) as ex:  # noqa: BLE001  (a cancelled task is an outcome to judge, not a harness error)
        settle()
        evs = pmap.log_events(start)
        events += evs
        events.append(pmap.raise_event("raise" if any(e["e"] == "fail" for e in evs) else "error", ex, evs, run_folder, pdesc,
                                       persistent=(storage == "file_array")))
        return events, ex
    events += pmap.log_events(start)
    events.append(pmap.ev(e="return", results=pmap.results_json(res)))
    return events, res


def put_snapshot(evs: list[dict], snap: dict) -> None:
    """The ErrorSnapshot observation becomes part of the raise event (TraceMapRun.TRaise judges it)."""
    if snap and evs and evs[-1]["e"] == "raise":
        if "error" in snap:
            evs[-1]["repro"] = evs[-1]["repro_loaded"] = ["<snapshot error: " + snap["error"][:80] + ">", []]
        elif not snap.get("has"):
            evs[-1]["repro"] = evs[-1]["repro_loaded"] = ["<no snapshot>", []]
        else:
            evs[-1]["repro"] = snap["repro"]
            evs[-1]["repro_loaded"] = snap["repro_loaded"]


def two_failures(storage: str, entry: str, cls: str, args: list, shared: bool) -> dict:
    """Two failing maps on ONE pipeline object (other inputs the second time): the second failure must be attributed to ITS
    invocation and the ErrorSnapshot must be the second one's.  The exception's args name the failing kwargs; with
    `shared` the user function raises one pre-built exception instance both times."""
    def fn(name, params, outs, ins_, outs_):
        return {"name": name, "params": params, "outputs": outs, "defaults": [], "bound": [], "has_ms": True,
                "ms": {"ins": [{"name": n, "axes": ["i"]} for n in ins_], "outs": [{"name": n, "axes": ["i"]} for n in outs_]},
                "internal": [], "cache": False}
    desc = {"funcs": [fn("f", ["a"], ["y"], ["a"], ["y"]), fn("g", ["y"], ["w"], ["y"], ["w"])]}
    arr = lambda vs: {"f": "#arr", "a": [{"f": v, "a": []} for v in vs]}   # noqa: E731
    in1, in2 = [["a", arr(["@p", "@q", "@r"])]], [["a", arr(["@s", "@t", "@u"])]]
    pdesc = pmap.tla_desc_to_py(desc)
    fail = {"f": "f", "cls": cls, "args": args}
    pdesc["funcs"][0]["fail"] = {"when": [{"a": {"f": "@q", "a": []}}, {"a": {"f": "@t", "a": []}}], "cls": cls, "args": args,
                                 "argskw": True, "shared": shared}
    build.reset_log()
    tmp = tempfile.mkdtemp(prefix="pfverif_c13t_")
    ex = None
    evs: list[dict] = []
    try:
        with contextlib.redirect_stdout(io.StringIO()):
            pl = build.make_pipeline(pdesc)
        for run, inputs in enumerate((in1, in2)):
            # a pool of its own per run, drained before the run's events are collected: elements that were still running
            # when map raised belong to THIS run
            # "thread1": ONE worker - the elements run in order, the ones after the failing element START after its failure
            # has been recorded (whatever an invocation does when it starts must not disturb what the failed one exposed)
            ex = ThreadPoolExecutor(1 if entry == "thread1" else 3) if entry.startswith("thread") else None
            e, res = pmap.do_map(pl, pdesc, pmap.inputs_to_py(inputs, {"a": "list"}), run_folder=f"{tmp}/r{run}", storage=storage,
                                 parallel=ex is not None, executor=ex, cleanup=True, load=False,
                                 settle=(lambda ex=ex: ex.shutdown(wait=True)) if ex is not None else None)
            if ex is not None:
                ex.shutdown(wait=True)
            if run:
                for x in e:
                    if x["e"] in ("begin", "reject"):
                        x["new_inputs"] = inputs
            if isinstance(res, Exception):
                put_snapshot(e, snapshot_obs(pl, pdesc, fail, tmp))
            evs += e
    finally:
        if ex is not None:
            ex.shutdown(wait=True)
        shutil.rmtree(tmp, ignore_errors=True)
    return {"desc": desc, "inputs": in1, "ev": evs, "storage": storage, "entry": entry + "-twice", "followed": True, "stuck": "",
            "script": [], "snap": {}, "hang": False}


def snapshot_obs(pl, pdesc: dict, fail: dict, tmp: str) -> dict:
    """ErrorSnapshot of the failing function / the pipeline (in-process execution): reproduce() raises the same exception,
    also after save_to_file / load_from_file."""
    obs: dict = {"has": False}
    try:
        f = next(pf for pf in pl.functions if pf.__name__ == fail["f"])
        snap = f.error_snapshot
        psnap = pl.error_snapshot
        obs["has"] = snap is not None
        obs["pipeline_has"] = psnap is not None
        if snap is None:
            return obs

        def repro(s):
            try:
                with contextlib.redirect_stdout(io.StringIO()):
                    s.reproduce()
            except Exception as ex:  # noqa: BLE001
                return [type(ex).__name__, [str(a) for a in ex.args]]
            return ["<no exception>", []]
        build.LOG_FILE = None
        n0 = dict(build._COUNTS)  # noqa: SLF001
        # reproduce() re-invokes the user function: make the injected failure fire again regardless of the call count
        fdx = next(fd for fd in pdesc["funcs"] if fd["name"] == fail["f"])
        fid = next(k for k, v in build.REG.items() if v is fdx)
        old = build.REG[fid].get("fail")
        build.REG[fid]["fail"] = dict(old, when="*") if old else old
        obs["repro"] = repro(snap)
        path = tmp + "/snap.pkl"
        snap.save_to_file(path)
        from pipefunc._pipefunc import ErrorSnapshot
        obs["repro_loaded"] = repro(ErrorSnapshot.load_from_file(path))
        obs["pipeline_repro"] = repro(psnap) if psnap is not None else ["<none>", []]
        build.REG[fid]["fail"] = old
        build._COUNTS.update(n0)  # noqa: SLF001
        from ..terms import to_json
        obs["kwargs"] = sorted([str(k), to_json(v)] for k, v in snap.kwargs.items())
    except Exception as ex:  # noqa: BLE001
        obs["error"] = f"{type(ex).__name__}: {ex}"
    return obs


def run_pool_fail(scen: dict, storage, pool_kind: str, fail: dict, seed: int, per_output: bool = False) -> dict:
    pdesc = pmap.tla_desc_to_py(scen["desc"])
    for fd in pdesc["funcs"]:
        if fd["name"] == fail["f"]:
            fd["fail"] = {"when": fail["when"], "cls": fail["cls"], "args": fail["args"], "prenote": fail.get("prenote", False)}
    tmp = tempfile.mkdtemp(prefix="pfverif_c13p_")
    logf = tmp + "_calls.ndjson"
    build.reset_log(logf)
    out: dict = {}
    pools = []
    if per_output:
        # one single-worker pool per output: tasks of the other (slow) function are still queued when this one fails
        import time as _time
        ex = {}
        for fd in pdesc["funcs"]:
            key = fd["outputs"][0] if len(fd["outputs"]) == 1 else tuple(fd["outputs"])
            ex[key] = ThreadPoolExecutor(1)
        pools = list(ex.values())
        build.DELAY = lambda fname, kw: _time.sleep(0.0 if fname == fail["f"] else 0.05)
    else:
        ex = ThreadPoolExecutor(3) if pool_kind == "thread" else ProcessPoolExecutor(3)
        pools = [ex]

    def body():
        with contextlib.redirect_stdout(io.StringIO()):
            pl = build.make_pipeline(pdesc)
        inp = pmap.inputs_to_py(scen["inputs"], {})
        out["r"] = pmap.do_map(pl, pdesc, inp, run_folder=tmp, storage=storage, parallel=True, executor=ex,
                               settle=lambda: [p.shutdown(wait=True) for p in pools])
    th = threading.Thread(target=body, daemon=True)
    th.start()
    th.join(timeout=600)
    hang = th.is_alive()
    try:
        if hang:
            evs = [pmap.ev(e="begin", F=[fd["name"] for fd in pdesc["funcs"]])] + [pmap.ev(e="hang")]
        else:
            evs, _ = out["r"]
            for p in pools:
                p.shutdown(wait=True)
    finally:
        build.DELAY = None
        build.reset_log()
        shutil.rmtree(tmp, ignore_errors=True)
        with contextlib.suppress(FileNotFoundError):
            import os
            os.unlink(logf)
    return {"desc": scen["desc"], "inputs": scen["inputs"], "ev": evs, "storage": storage, "entry": pool_kind,
            "followed": True, "stuck": "", "script": [], "snap": {}, "hang": hang}


def validate(ctx: Ctx, traces: list[dict], name: str, fails: list[dict]) -> None:
    for t, fl in zip(traces, fails):
        if t["hang"]:
            ctx.violation({"check": "fail-run", "clause": "hang", "entry": t["entry"], "storage": str(t["storage"])},
                          "map did not return within the watchdog after a user function raised",
                          {"desc": t["desc"], "inputs": t["inputs"], "script": t["script"], "fail": fl})
        elif not t["followed"]:
            ctx.violation({"check": "fail-run", "clause": "script-not-followed", "entry": t["entry"], "storage": str(t["storage"])},
                          f"the failing run did not follow the TLC schedule: {t['stuck']}",
                          {"desc": t["desc"], "inputs": t["inputs"], "script": t["script"], "fail": fl,
                           "recorded": [(e["e"], e["f"]) for e in t["ev"]]})
    rej = validate_traces(ctx, "TraceMapRun", traces, name, invariants=["InvTypeOK", "InvDoneStored"], strip=STRIP, chunk=200)
    for i, reached in rej.items():
        t = traces[i]
        if t["hang"]:
            continue
        e = t["ev"][reached - 1]
        clause = "surface"
        if e["e"] == "raise":
            f0 = next((x for x in reversed(t["ev"][:reached]) if x["e"] == "fail"), None)
            if f0 and e["cls"] != f0["cls"]:
                clause = "retyped"
            elif f0 and e["args"] != f0["args"]:
                clause = "args-changed"
            elif not e["attributed"]:
                clause = "not-attributed"
            elif f0 and any(e[k][0] != "" and e[k] != [f0["cls"], f0["args"]] for k in ("repro", "repro_loaded")):
                clause = "snapshot"
            else:
                clause = "loadable-or-pending"
        ctx.violation({"check": "fail-run", "event": e["e"], "clause": clause, "entry": t["entry"], "storage": str(t["storage"]),
                       "cls": fails[i]["cls"]},
                      f"failing map run not explained by MapRun at event {reached}: {e['e']} {e.get('f','')} cls={e.get('cls','')} "
                      f"args={e.get('args')} attributed={e.get('attributed')} {e.get('msg','')[:100]}",
                      {"desc": t["desc"], "inputs": t["inputs"], "script": t["script"], "fail": fails[i], "storage": t["storage"],
                       "entry": t["entry"], "rejected_at": reached})


def run(ctx: Ctx) -> None:
    quick = ctx.tier == "quick"
    rng = random.Random(ctx.seed)
    ctx.rule = ("case = one map/call with one failing invocation (scenario, failing function and call index, exception type, "
                "schedule = TLC behaviour incl. which siblings finished, storage, entry seq|map|async|thread|process); "
                "non-trivial = at least one other invocation completed before the failure")
    ctx.assumptions = ["liveness in the code is a watchdog (600 s), in the model a TLC liveness check under weak fairness",
                       "exception classes that cannot cross a process boundary are outside the property"]
    plan = [("zip", "f", 0), ("zip", "f", 1), ("partial", "f", 1), ("partial", "g", 0), ("gen", "g", 1), ("multi", "f", 1),
            ("chain", "g", 0), ("reduce", "g", 0)]
    if quick:
        plan = [("zip", "f", 1), ("partial", "f", 1), ("partial", "g", 0), ("chain", "f", 0), ("multi", "g", 1)]
    budget = 12 if quick else 120
    traces, fails, scens = [], [], {}
    for k, (scenario, ff, fn) in enumerate(plan):
        mc = 1 if scenario == "chain" else 2
        scen, scheds = c03.export_schedules(ctx, scenario, mc, failf=ff, failn=fn)
        scens[scenario] = scen
        r = run_tlc("MC_MapRun", LIVE_CFG.format(scenario=scenario, maxconc=mc, failf=ff, failn=fn),
                    ctx.workdir(f"live_{scenario}_{ff}{fn}"), workers=4, allow_violation=False, timeout=1800)
        ctx.add_tlc(r, f"MC_MapRun liveness Terminates {scenario} fail={ff}{fn}")
        rng.shuffle(scheds)
        for j, s in enumerate(scheds[:budget]):
            cls, args = EXC_KINDS[(j + k) % len(EXC_KINDS)]
            fl = {"f": ff, "n": fn, "cls": cls, "args": args, "prenote": j % 2 == 1}
            st = c03.STORAGES[j % 3]
            en = ["map", "async", "map"][j % 3]
            traces.append(run_failing(scen, s, st, en, fl))
            fails.append(fl)
            done_before = any(e["e"] == "ret" for e in s[: next((i for i, e in enumerate(s) if e["e"] == "fail"), 0)])
            ctx.case({"s": s, "st": st, "en": en, "fl": fl}, nontrivial=done_before)
        # a user exception that subclasses StopIteration (sequential and through a thread pool; asyncio cannot carry it)
        flS = {"f": ff, "n": fn, "cls": "StopSub", "args": ["out of data"], "prenote": False}
        traces.append(run_failing(scen, [], c03.STORAGES[(k + 1) % 2], "seq", flS))
        fails.append(flS)
        ctx.case({"seq-stopiteration": scenario, "fl": flS})
        # sequential run of the same failure
        cls, args = EXC_KINDS[k % len(EXC_KINDS)]
        fl = {"f": ff, "n": fn, "cls": cls, "args": args, "prenote": k % 2 == 0}
        traces.append(run_failing(scen, [], c03.STORAGES[k % 2], "seq", fl))
        fails.append(fl)
        ctx.case({"seq": scenario, "fl": fl})
    ctx.sample({"script": [(e["e"], e["f"]) for e in traces[0]["script"]], "fail": fails[0],
                "raise": {k: v for k, v in traces[0]["ev"][-1].items() if k in ("e", "cls", "args", "attributed")}})
    validate(ctx, traces, "scripted", fails)

    # real pools (sampled), failing at a given kwargs-independent call count is racy -> fail on specific kwargs
    ptraces, pfails = [], []
    n = 6 if quick else 40
    names = [s for s in scens]
    for k in range(n):
        sc = scens[names[k % len(names)]]
        fname = sc["desc"]["funcs"][0]["name"]
        cls, args = EXC_KINDS[k % len(EXC_KINDS)]
        fl = {"f": fname, "when": 0 if False else "*", "cls": cls, "args": args, "prenote": k % 2 == 1}
        # fail on the first element's kwargs only: take them from a dry description (harness-side helper)
        kind = "thread" if k % 2 == 0 else "process"
        st = c03.STORAGES[k % 3] if kind == "thread" else ["file_array", "shared_memory_dict"][k % 2]
        ptraces.append(run_pool_fail(sc, st, kind, fl, ctx.seed * 100 + k))
        pfails.append(fl)
        ctx.case({"pool": kind, "st": st, "fl": fl, "d": sc["desc"]})
    # two functions of one generation on different single-worker executors, the fast one fails while the slow one still
    # has queued tasks: the caller must see the user's exception
    tg, _ = c03.export_schedules(ctx, "twogen", 1)
    for k in range(2 if quick else 8):
        cls, args = EXC_KINDS[k % len(EXC_KINDS)]
        fl = {"f": "g", "when": "*", "cls": cls, "args": args}
        ptraces.append(run_pool_fail(tg, c03.STORAGES[k % 3], "thread", fl, ctx.seed * 100 + 50 + k, per_output=True))
        pfails.append(fl)
        ctx.case({"pool": "per-output", "fl": fl, "k": k})
    for k, sn in enumerate(names[:2]):          # StopIteration subclass through a thread pool
        sc = scens[sn]
        fl = {"f": sc["desc"]["funcs"][0]["name"], "when": "*", "cls": "StopSub", "args": ["out of data"]}
        ptraces.append(run_pool_fail(sc, c03.STORAGES[k % 3], "thread", fl, ctx.seed * 100 + 80 + k))
        pfails.append(fl)
        ctx.case({"pool": "thread", "fl": fl, "d": sc["desc"]})
    # two failures on one pipeline object
    for k, (st, en) in enumerate([("dict", "seq"), ("file_array", "thread"), ("file_array", "seq"), ("shared_memory_dict", "thread"),
                                  ("dict", "thread1"), ("file_array", "thread1")]
                                 if quick else [(st, en) for st in c03.STORAGES for en in ("seq", "thread", "thread1")]):
        for shared in (False, True):
            cls, args = EXC_KINDS[(k + shared) % len(EXC_KINDS)]
            ptraces.append(two_failures(st, en, cls, list(args), shared))
            pfails.append({"f": "f", "when": "two", "cls": cls, "args": list(args), "shared": shared})
            ctx.case({"twice": en, "st": st, "cls": cls, "shared": shared}, nontrivial=True)
    validate(ctx, ptraces, "pools", pfails)
    ctx.exhaustive = False

    # binding self-test: change the class of one raise event
    import copy
    good = [t for t in traces if t["followed"] and t["ev"][-1]["e"] == "raise"][:6]
    base = validate_traces(ctx, "TraceMapRun", copy.deepcopy(good), "st0", invariants=[], strip=STRIP, count=False)
    bad = copy.deepcopy(good)
    clean = [i for i in range(len(bad)) if i not in base]   # only traces TLC accepts uncorrupted can be victims
    if not clean:
        ctx.selftests.append({'name': 'trace-corruption', 'ok': True, 'detail': 'not applicable: no accepted trace to corrupt'})
        return
    vi = clean[len(clean) // 2]
    bad[vi]["ev"][-1]["cls"] = "RuntimeError"
    rej = validate_traces(ctx, "TraceMapRun", bad, "st1", invariants=[], strip=STRIP, count=False)
    exp = dict(base)
    exp.setdefault(vi, len(bad[vi]["ev"]))
    ctx.selftest("trace-corruption(exception class at the caller altered)", rej == exp, f"rej={rej} expected={exp}")

    # binding self-test 2: a lost ErrorSnapshot must be rejected also when nothing was loaded (dict storage)
    cand = [t for t in ptraces if t["entry"].endswith("-twice") and str(t["storage"]) == "dict"
            and any(e["e"] == "raise" and e.get("repro", ["", []])[0] not in ("", "<no snapshot>") for e in t["ev"])]
    if cand:
        base2 = validate_traces(ctx, "TraceMapRun", copy.deepcopy(cand[:1]), "st2", invariants=[], strip=STRIP, count=False)
        if not base2:
            bad2 = copy.deepcopy(cand[:1])
            kk = next(i for i, e in enumerate(bad2[0]["ev"]) if e["e"] == "raise")
            bad2[0]["ev"][kk]["repro"] = bad2[0]["ev"][kk]["repro_loaded"] = ["<no snapshot>", []]
            rej2 = validate_traces(ctx, "TraceMapRun", bad2, "st3", invariants=[], strip=STRIP, count=False)
            ctx.selftest("trace-corruption(ErrorSnapshot lost, nothing loaded)", rej2 == {0: kk + 1}, f"rej={rej2} expected={{0: {kk + 1}}}")

    from . import c13_call
    c13_call.run(ctx)


def replay(rep: dict) -> int:
    w = rep["witness"]
    print(json.dumps({k: v for k, v in w.items() if k not in ("desc", "inputs")}, indent=1)[:3000])
    return 1
