"""C05 - an interrupted map resumes to the uninterrupted result, redoing no stored work.

Three parts, all decided by TLC:
1. Design: MapCrash.tla, an fs-level model of run / process death / resume with switches for the write protocol
   (Atomic) and the order of run_info vs inputs (InfoLast).  TLC shows that the original protocol violates ResumeOK /
   NoPartialServed, and that the repaired one satisfies ResumeOK, NoPartialServed, NoRecompute, ResultComplete and the
   liveness property Terminates for up to MaxCrashes successive crashes.
2. Protocol conformance: the raw-IO operation sequence of a real uninterrupted run (fs interposer) is validated by TLC
   against the write protocol of the repaired model (TraceFsProtocol): every file under the run folder is only ever
   created by writing a temporary sibling and renaming it; run_info.json is written after the inputs and defaults.
3. Exhaustive crash replay: for EVERY index k of that recorded operation sequence (and a torn variant of every raw
   write) a forked child runs the map and dies right after operation k; a second child resumes with cleanup=False
   (optionally dying again, then a third resumes); every user-function raise point is treated the same way.  The whole
   history (run, interrupt + what is completely stored, resumed run with its results) is validated by TLC against
   MapRun (TraceMapRun: resumed results = denotation, nothing completely stored is recomputed).
"""
from __future__ import annotations

import contextlib
import io
import json
import os
import pickle
import random
import shutil
import tempfile
import time
from pathlib import Path

from .. import build, fsx, pmap
from ..ctx import Ctx
from ..tlc import MachineryError, run_tlc
from ..tracekit import validate_traces
from . import c03

PROPERTY = "C05"
LEVEL = "model_checking"
STRIP = ("meta",)

CRASH_CFG = """SPECIFICATION FairSpec
CONSTANTS N = {n} MaxCrashes = {mc} Atomic = {atomic} InfoLast = {infolast}
INVARIANT ResumeOK NoPartialServed NoRecompute ResultComplete
PROPERTY Terminates
"""


# ---- child processes ---------------------------------------------------------------------------------
def in_child(fn, timeout: float = 600):
    """Run fn() in a forked child; returns (exit status, payload or None)."""
    r, w = os.pipe()
    pid = os.fork()
    if pid == 0:
        os.close(r)
        os.setpgid(0, 0)          # own process group: helpers that outlive the child are killed by the parent
        try:
            payload = fn()
            with os.fdopen(w, "w") as fh:
                json.dump(payload, fh)
            os._exit(0)
        except BaseException:  # noqa: BLE001
            import traceback
            traceback.print_exc()
            os._exit(3)
    os.close(w)
    # Do not wait for EOF: a helper process the child started (a Manager server of a shared-memory storage, a pool worker)
    # inherits the write end and may outlive the child.  Read while the child lives, then drain what is left.
    import select
    os.set_blocking(r, False)
    chunks: list[bytes] = []
    status = None
    deadline = time.time() + timeout
    while True:
        ready, _, _ = select.select([r], [], [], 0.05)
        if ready:
            try:
                b = os.read(r, 1 << 16)
            except BlockingIOError:
                b = None
            if b:
                chunks.append(b)
                continue
            if b == b"":          # every write end is closed
                if status is None:
                    _, status = os.waitpid(pid, 0)
                break
        if status is None:
            done, st = os.waitpid(pid, os.WNOHANG)
            if done:
                status = st       # the child is gone: one more pass drains what it wrote before exiting
                continue
            if time.time() > deadline:
                os.kill(pid, 9)
                _, status = os.waitpid(pid, 0)
                break
        elif not ready:
            break
    os.close(r)
    with contextlib.suppress(ProcessLookupError, PermissionError):
        os.killpg(pid, 9)         # stragglers of the child's process group (e.g. an orphaned Manager server)
    data = b"".join(chunks).decode()
    code = os.waitstatus_to_exitcode(status)
    return code, (json.loads(data) if data else None)


def map_job(pdesc, inputs, folder, storage, cleanup, logf, die_after=None, torn=False, record=False, fail=None,
            kinds=None, new_inputs=None, pool=None):
    """Executed inside a child: one map run, optionally dying after fs operation `die_after`."""
    def job():
        pd = json.loads(json.dumps(pdesc))
        if fail is not None:
            for fd in pd["funcs"]:
                if fd["name"] == fail["f"]:
                    fd["fail"] = {"when": fail["n"], "cls": "ValueError", "args": ["injected"]}
        build.LOG.clear()
        build._COUNTS.clear()  # noqa: SLF001
        build.LOG_FILE = logf
        start = len(build.read_log())
        with contextlib.redirect_stdout(io.StringIO()):
            pl = build.make_pipeline(pd)
        inp = pmap.inputs_to_py(new_inputs or inputs, kinds or {n: "list" for n, _ in inputs})
        if die_after is not None or record:
            fsx.install(folder, die_after=die_after, torn=torn, record=record)
        try:
            evs, res = do_map_from(pl, pd, inp, folder, storage, cleanup, start, pool=pool)
            if new_inputs:
                for e in evs:
                    if e["e"] in ("begin", "reject"):
                        e["new_inputs"] = new_inputs
        finally:
            ops = fsx.uninstall() if (die_after is not None or record) else None
        return {"ev": evs, "ops": ops}
    return job


def learners_job(pdesc, inputs, folder, logf):
    """Executed inside a child: resume an interrupted run through create_learners(cleanup=False) + simple_run()."""
    def job():
        from pipefunc.map.adaptive import create_learners
        pd = json.loads(json.dumps(pdesc))
        build.LOG.clear()
        build._COUNTS.clear()  # noqa: SLF001
        build.LOG_FILE = logf
        start = len(build.read_log())
        fnames = [fd["name"] for fd in pd["funcs"]]
        evs = [pmap.ev(e="begin", F=fnames, cleanup=False, fixed=[])]
        try:
            with contextlib.redirect_stdout(io.StringIO()):
                pl = build.make_pipeline(pd)
                inp = pmap.inputs_to_py(inputs, {n: "list" for n, _ in inputs})
                learners = create_learners(pl, inp, folder, storage="file_array", cleanup=False)
                learners.simple_run()
            evs += pmap.log_events(start)
            evs.append(pmap.ev(e="ldone"))
        except Exception as ex:  # noqa: BLE001
            evs += pmap.log_events(start)
            evs.append(pmap.ev(e="error", cls=type(ex).__name__, msg=str(ex)[:300]))
        return {"ev": evs, "ops": None}
    return job


def do_map_from(pl, pd, inp, folder, storage, cleanup, start, pool=None):
    """pool: None = sequential | "thread" | "process" = the run goes through a real pool of that kind."""
    fnames = [fd["name"] for fd in pd["funcs"]]
    events = [pmap.ev(e="begin", F=fnames, cleanup=cleanup, fixed=[])]
    ex = None
    if pool:
        from concurrent.futures import ProcessPoolExecutor, ThreadPoolExecutor
        ex = ThreadPoolExecutor(3) if pool == "thread" else ProcessPoolExecutor(3)
    try:
        try:
            with contextlib.redirect_stdout(io.StringIO()):
                res = pl.map(inp, run_folder=folder, storage=storage, parallel=bool(pool), executor=ex, cleanup=cleanup)
        finally:
            if ex is not None:
                ex.shutdown(wait=True)
    except Exception as ex:  # noqa: BLE001
        evs = pmap.log_events(start)
        if not evs:
            return [pmap.ev(e="reject", F=fnames, cleanup=cleanup, cls=type(ex).__name__, msg=str(ex)[:300])], ex
        events += evs
        kind = "raise" if any(e["e"] == "fail" for e in evs) else "error"
        events.append(pmap.ev(e=kind, cls=type(ex).__name__, msg=str(ex)[:300],
                              args=[str(a) for a in ex.args], attributed=True))
        return events, ex
    events += pmap.log_events(start)
    events.append(pmap.ev(e="return", results=pmap.results_json(res)))
    return events, res


def observe_disk(folder: str, shapes: dict[str, list[int]]) -> list[list]:
    """What is COMPLETELY stored in the run folder: [[output name, linear index]] (0 for single outputs).
    Independent of pipefunc's own notion: a file counts iff it can be unpickled."""
    import cloudpickle
    out = []
    base = Path(folder) / "outputs"
    if not base.is_dir():
        return out
    for p in sorted(base.iterdir()):
        if p.is_file() and p.suffix == ".cloudpickle":
            try:
                with p.open("rb") as fh:
                    cloudpickle.load(fh)
                out.append([p.stem, 0])
            except Exception:  # noqa: BLE001
                pass
        elif p.is_dir():
            for q in sorted(p.iterdir()):
                if q.name.startswith("__") and q.name.endswith("__.pickle"):
                    try:
                        with q.open("rb") as fh:
                            cloudpickle.load(fh)
                        out.append([p.name, int(q.name.strip("_").split("__")[0].replace(".pickle", "").strip("_"))])
                    except Exception:  # noqa: BLE001
                        pass
                elif q.name == "dict_array.cloudpickle":
                    try:
                        with q.open("rb") as fh:
                            dct = cloudpickle.load(fh)
                        keys = list(dct.keys())
                        sh = shapes.get(p.name, [])
                        for key in keys:
                            lin = 0
                            for k, n in zip(key, sh):
                                lin = lin * n + k
                            out.append([p.name, lin])
                    except Exception:  # noqa: BLE001
                        pass
    return out


def ext_shapes(scen: dict) -> dict[str, list[int]]:
    """External shapes of mapped outputs, from the description and inputs (harness-side, trivial)."""
    sizes: dict[str, list[int]] = {}
    shp: dict[str, list[int]] = {}

    def shape_of(v):
        s = []
        while v["f"] == "#arr":
            s.append(len(v["a"]))
            if not v["a"]:
                break
            v = v["a"][0]
        return s
    for n, v in scen["inputs"]:
        shp[n] = shape_of(v)
    for f in scen["desc"]["funcs"]:
        if f["has_ms"] and f["ms"]["ins"]:
            ax: dict[str, int] = {}
            for i in f["ms"]["ins"]:
                for k, a in enumerate(i["axes"]):
                    if a != ":" and i["name"] in shp and k < len(shp[i["name"]]):
                        ax[a] = shp[i["name"]][k]
            oax = f["ms"]["outs"][0]["axes"]
            full, ext = [], []
            ii = 0
            for a in oax:
                if a in ax:
                    full.append(ax[a])
                    ext.append(ax[a])
                else:
                    full.append(f["internal"][ii])
                    ii += 1
            for o in f["outputs"]:
                shp[o] = full
                sizes[o] = ext
        elif f["has_ms"]:
            for o in f["outputs"]:
                shp[o] = list(f["internal"])
    return sizes


def file_class(rel: str) -> str:
    if rel.endswith("run_info.json") or "run_info.json" in rel:
        return "run_info"
    if rel.startswith("inputs"):
        return "input"
    if rel.startswith("defaults"):
        return "defaults"
    if "dict_array" in rel:
        return "dict_dump"
    if rel.startswith("outputs") and rel.endswith(".pickle"):
        return "element"
    if rel.startswith("outputs") and ".cloudpickle" in rel:
        return "single_output"
    return "dir"


def history(scen, pdesc, storage, crash_points: list[dict], logdir: str, resume: str = "map", kinds=None) -> dict:
    """One history: run (dies at crash_points[0]) -> resume (dies at crash_points[1]) ... -> final resume."""
    folder = tempfile.mkdtemp(prefix="pfverif_c05_", dir=logdir)
    shutil.rmtree(folder)
    logf = folder + ".calls"
    shapes = ext_shapes(scen)
    evs: list[dict] = []
    meta = {"storage": storage, "crash": crash_points, "codes": [], "resume": resume, "kinds": kinds}
    try:
        pos = 0
        for n, cp in enumerate(crash_points + [None]):
            cleanup = n == 0
            if cp is None and resume == "learners":
                code, payload = in_child(learners_job(pdesc, scen["inputs"], folder, logf))
                if payload is not None and payload["ev"][-1]["e"] == "ldone":
                    payload["ev"].append(pmap.ev(e="stored", disk=observe_disk(folder, shapes)))
                    code2, p2 = in_child(map_job(pdesc, scen["inputs"], folder, storage, False, logf, kinds=kinds))
                    if p2 is None:
                        raise MachineryError(f"final map child exited with {code2}")
                    payload["ev"] += p2["ev"]
            elif cp is None:
                code, payload = in_child(map_job(pdesc, scen["inputs"], folder, storage, cleanup, logf, kinds=kinds,
                                                 pool=resume.split("-")[1] if resume.startswith("map-") else None))
            elif cp["kind"] == "fs":
                code, payload = in_child(map_job(pdesc, scen["inputs"], folder, storage, cleanup, logf, kinds=kinds,
                                                 die_after=cp["k"], torn=cp.get("torn", False)))
            else:
                code, payload = in_child(map_job(pdesc, scen["inputs"], folder, storage, cleanup, logf, fail=cp, kinds=kinds))
            meta["codes"].append(code)
            if payload is not None:
                evs += payload["ev"]
                build.LOG_FILE = logf
                pos = len(build.read_log())
                if cp is not None:
                    evs.append(pmap.ev(e="interrupt", disk=observe_disk(folder, shapes)))
            elif code == 77:
                build.LOG_FILE = logf
                fnames = [fd["name"] for fd in pdesc["funcs"]]
                evs.append(pmap.ev(e="begin", F=fnames, cleanup=cleanup, fixed=[]))
                evs += pmap.log_events(pos, pdesc)
                pos = len(build.read_log())
                evs.append(pmap.ev(e="interrupt", disk=observe_disk(folder, shapes)))
            else:
                raise MachineryError(f"child exited with {code} without a payload")
        build.LOG_FILE = None
    finally:
        build.LOG_FILE = None
        shutil.rmtree(folder, ignore_errors=True)
        with contextlib.suppress(FileNotFoundError):
            os.unlink(logf)
    return {"desc": scen["desc"], "inputs": scen["inputs"], "ev": evs, "meta": meta}


def classify(t: dict, reached: int, ops: list) -> dict:
    e = t["ev"][reached - 1]
    cps = t["meta"]["crash"]
    cp = cps[0] if cps else {}
    sig = {"check": "crash-resume", "event": e["e"], "cls": e.get("cls", ""), "storage": t["meta"]["storage"],
           "ncrashes": len(cps), "resume": t["meta"].get("resume", "map")}
    if t["meta"].get("changed_inputs"):
        return {"check": "changed-inputs", "event": e["e"], "inputs_kind": t["meta"]["changed_inputs"]}
    if cp.get("kind") == "fs":
        k = cp["k"]
        op = ops[k - 1] if 0 < k <= len(ops) else ("?", "?", "")
        sig.update(crash_op=op[0], crash_file=file_class(op[1]), torn=bool(cp.get("torn")))
    else:
        sig.update(crash_op="user-raise", crash_file="", torn=False)
    return sig


def run(ctx: Ctx) -> None:
    quick = ctx.tier == "quick"
    rng = random.Random(ctx.seed)
    ctx.rule = ("case = one history run -> death after fs operation k (every k of the recorded raw-IO trace, plus a torn variant "
                "of every raw write) or user-function raise at call n -> resume with cleanup=False [-> second death -> resume]; "
                "non-trivial = at least one element was completely stored when the process died")
    ctx.assumptions = ["crash = death of the whole (sequential) process between two operations that reach the OS; no fsync / "
                       "reordering / directory-entry durability", "a stored value counts as complete iff it can be unpickled",
                       "process-pool runs: not crashed here"]
    # 1. design model
    for atomic, infolast, expect_ok in (("FALSE", "FALSE", False), ("TRUE", "FALSE", False), ("FALSE", "TRUE", False),
                                        ("TRUE", "TRUE", True)):
        r = run_tlc("MapCrash", CRASH_CFG.format(n=2 if quick else 3, mc=2, atomic=atomic, infolast=infolast),
                    ctx.workdir(f"crash_{atomic}_{infolast}"), workers=2, allow_violation=True)
        ctx.add_tlc(r, f"MapCrash Atomic={atomic} InfoLast={infolast}")
        if expect_ok and r.violated:
            raise MachineryError(f"MapCrash repaired setting violated: {r.violated}")
        if not expect_ok and not r.violated:
            raise MachineryError("MapCrash original protocol unexpectedly safe: the model lost its teeth")
    ctx.extra["design_model"] = "original write protocol / order violates ResumeOK in TLC; Atomic+InfoLast holds incl. Terminates"

    # 2 + 3. real code
    logdir = tempfile.mkdtemp(prefix="pfverif_c05root_")
    try:
        # "multiplain+picker": the two-output function without MapSpec returns a mapping picked by a custom output_picker
        # "reduce+tuple": the single result of every function without MapSpec is itself a tuple (one value for one name)
        scen_names = ["reduce+tuple", "multi", "multiplain+picker"] if quick else \
            ["reduce", "reduce+tuple", "partial", "multi", "chain", "gen", "twogen", "multiplain", "multiplain+picker"]
        storages = ["file_array", "dict"] if quick else ["file_array", "dict", "shared_memory_dict"]
        hist: list[dict] = []
        opsof: list[list] = []
        proto: list[dict] = []
        scen_names = scen_names + ["fixed:internalfirst"]      # a mapped output with an internal axis (scenario of MC_MapFixed)
        for sn in scen_names:
            if sn.startswith("fixed:"):
                from . import c06
                scen, _, _ = c06.export(ctx, sn.split(":")[1])
            else:
                scen, _ = c03.export_schedules(ctx, sn.split("+")[0], 1)
            if sn.endswith("+picker"):
                scen = json.loads(json.dumps(scen))
                for f in scen["desc"]["funcs"]:
                    if len(f["outputs"]) > 1:
                        f["picker"] = True
            if sn.endswith("+tuple"):
                scen = json.loads(json.dumps(scen))
                for f in scen["desc"]["funcs"]:
                    if len(f["outputs"]) == 1 and not f["has_ms"]:
                        f["rettuple"] = True
            pdesc = pmap.tla_desc_to_py(scen["desc"])
            for st in storages:
                folder = tempfile.mkdtemp(prefix="rec_", dir=logdir)
                shutil.rmtree(folder)
                code, payload = in_child(map_job(pdesc, scen["inputs"], folder, st, True, folder + ".calls", record=True))
                shutil.rmtree(folder, ignore_errors=True)
                if payload is None:
                    raise MachineryError(f"recording run failed with exit {code}")
                ops = payload["ops"]
                renamed = {o[2] for o in ops if o[0] == "replace"}
                proto.append({"ops": [{"op": o[0], "path": o[1], "cls": file_class(o[1]), "src": o[2] if o[0] == "replace" else "",
                                       "tmp": o[1] in renamed} for o in ops]
                                     + [{"op": "end", "path": "", "cls": "dir", "src": "", "tmp": False}],
                              "meta": {"scenario": sn, "storage": st}})
                ks = list(range(1, len(ops) + 1))
                if quick and len(ks) > 26:
                    ks = sorted(rng.sample(ks, 26))
                if quick and sn.startswith("fixed:"):
                    ks = sorted(rng.sample(ks, min(9, len(ks))))
                for k in ks:
                    hist.append(history(scen, pdesc, st, [{"kind": "fs", "k": k}], logdir))
                    opsof.append(ops)
                    if ops[k - 1][0] == "write":
                        hist.append(history(scen, pdesc, st, [{"kind": "fs", "k": k, "torn": True}], logdir))
                        opsof.append(ops)
                # resume through learners (create_learners(cleanup=False).simple_run()), then a full map must be idle
                if st == "file_array":
                    for k in (ks if not quick else ks[::2]):
                        hist.append(history(scen, pdesc, st, [{"kind": "fs", "k": k}], logdir, resume="learners"))
                        opsof.append(ops)
                # the resumed run goes through a real thread / process pool
                for k in ks[1::3] if quick else ks:
                    for kind in ("map-thread", "map-process"):
                        hist.append(history(scen, pdesc, st, [{"kind": "fs", "k": k}], logdir, resume=kind))
                        opsof.append(ops)
                # inputs that cannot be compared (== raises): the resumed run cannot tell and must proceed
                for k in ks[2::5] if quick else ks[::2]:
                    hist.append(history(scen, pdesc, st, [{"kind": "fs", "k": k}], logdir,
                                        kinds={n: "noeq" for n, _ in scen["inputs"]}))
                    opsof.append(ops)
                # two successive crashes
                pairs = [(rng.choice(ks), rng.randint(1, max(1, len(ops)))) for _ in range(3 if quick else 25)]
                for k1, k2 in pairs:
                    hist.append(history(scen, pdesc, st, [{"kind": "fs", "k": k1}, {"kind": "fs", "k": k2}], logdir))
                    opsof.append(ops)
                # user-function raise at every call index
                ncalls = {fd["name"]: sum(1 for e in payload["ev"] if e["e"] == "call" and e["f"] == fd["name"]) for fd in pdesc["funcs"]}
                for fname, n in ncalls.items():
                    for i in (range(n) if not quick else range(min(n, 2))):
                        hist.append(history(scen, pdesc, st, [{"kind": "raise", "f": fname, "n": i}], logdir))
                        opsof.append(ops)
    finally:
        shutil.rmtree(logdir, ignore_errors=True)

    # a kept folder must not be reused for OTHER inputs (stale elements would be served): list and object-ndarray inputs
    logdir2 = tempfile.mkdtemp(prefix="pfverif_c05chg_")
    try:
        for sn in ("reduce", "multi" if quick else "partial"):
            scen, _ = c03.export_schedules(ctx, sn, 1)
            pdesc = pmap.tla_desc_to_py(scen["desc"])
            changed = json.loads(json.dumps(scen["inputs"]).replace('"@a_0"', '"@CHANGED"'))
            if changed == scen["inputs"]:
                continue
            for kind in ("list", "ndarray"):
                kinds = {n: kind for n, _ in scen["inputs"]}
                folder = tempfile.mkdtemp(prefix="chg_", dir=logdir2)
                shutil.rmtree(folder)
                _, p1 = in_child(map_job(pdesc, scen["inputs"], folder, "file_array", True, folder + ".calls", kinds=kinds))
                _, p2 = in_child(map_job(pdesc, scen["inputs"], folder, "file_array", False, folder + ".calls", kinds=kinds,
                                         new_inputs=changed))
                if p1 is None or p2 is None:
                    raise MachineryError("changed-inputs child failed")
                hist.append({"desc": scen["desc"], "inputs": scen["inputs"], "ev": p1["ev"] + p2["ev"],
                             "meta": {"storage": "file_array", "crash": [], "codes": [], "changed_inputs": kind}})
                opsof.append([])
    finally:
        shutil.rmtree(logdir2, ignore_errors=True)

    for t in hist:
        k = next((i for i, e in enumerate(t["ev"]) if e["e"] == "interrupt"), None)
        ctx.case({"d": t["desc"], "m": t["meta"]}, nontrivial=bool(k is not None and t["ev"][k]["disk"]))
    ctx.sample({"crash": hist[len(hist) // 2]["meta"], "events": [(e["e"], e["f"]) for e in hist[len(hist) // 2]["ev"]]})

    # protocol conformance of the recorded fs traces
    rej = validate_traces(ctx, "TraceFsProtocol", proto, "fsproto", invariants=[], strip=("meta",))
    for i, reached in rej.items():
        o = proto[i]["ops"][reached - 1]
        ctx.violation({"check": "fs-protocol", "op": o["op"], "file": o["cls"], "storage": proto[i]["meta"]["storage"]},
                      f"file-system operation {reached} of an uninterrupted run does not follow the atomic write protocol: {o}",
                      {"ops": proto[i]["ops"][: reached + 2], "meta": proto[i]["meta"]})
    # histories
    rej = validate_traces(ctx, "TraceMapRun", hist, "histories", invariants=["InvTypeOK", "InvDoneStored"], strip=STRIP,
                          chunk=100)
    for i, reached in rej.items():
        t = hist[i]
        e = t["ev"][reached - 1]
        sig = classify(t, reached, opsof[i])
        ctx.violation(sig, f"crash/resume history not explained by MapRun at event {reached}: {e['e']} {e.get('f','')} "
                           f"{e.get('cls','')} {e.get('msg','')[:140]}",
                      {"desc": t["desc"], "inputs": t["inputs"], "meta": t["meta"], "rejected_at": reached,
                       "events": [(x["e"], x["f"], x.get("cls", "")) for x in t["ev"]]})
    ctx.exhaustive = False

    # concurrent stores of one path (a left-over task of the interrupted run and the resumed run): StoreRace.tla
    from . import c05_race
    c05_race.run(ctx, quick)

    # binding self-test: claim that an element recomputed by the resumed run had been completely stored
    import copy
    good = [t for i, t in enumerate(hist) if i not in rej and any(e["e"] == "call" for e in t["ev"][next(
        (k for k, e in enumerate(t["ev"]) if e["e"] == "interrupt"), 0):])][:6]
    if good:
        base = validate_traces(ctx, "TraceMapRun", copy.deepcopy(good), "st0", invariants=[], strip=STRIP, count=False)
        bad = copy.deepcopy(good)
        clean = [i for i in range(len(bad)) if i not in base]   # only traces TLC accepts uncorrupted can be victims
        if not clean:
            ctx.selftests.append({'name': 'trace-corruption', 'ok': True, 'detail': 'not applicable: no accepted trace to corrupt'})
            return
        vi = clean[len(clean) // 2]
        evs = bad[vi]["ev"]
        ki = next(k for k, e in enumerate(evs) if e["e"] == "interrupt")
        kc = next(k for k in range(ki, len(evs)) if evs[k]["e"] == "call")
        fn = next(f for f in bad[vi]["desc"]["funcs"] if f["name"] == evs[kc]["f"])
        nlin = 8
        evs[ki]["disk"] = [[o, j] for o in fn["outputs"] for j in range(nlin)]
        rej2 = validate_traces(ctx, "TraceMapRun", bad, "st1", invariants=[], strip=STRIP, count=False)
        exp = dict(base)
        exp.setdefault(vi, kc + 1)
        ctx.selftest("trace-corruption(recomputed element declared stored)", rej2 == exp, f"rej={rej2} expected={exp}")


def replay(rep: dict) -> int:
    w = rep["witness"]
    if w.get("race"):
        from . import c05_race
        return c05_race.replay(w)
    print(json.dumps(w.get("meta"), indent=1))
    if "desc" not in w or "crash" not in (w.get("meta") or {}):     # protocol traces / changed-input histories: show only
        print(w.get("events") or w.get("ops"))
        return 1
    logdir = tempfile.mkdtemp(prefix="pfverif_c05replay_")
    try:
        scen = {"desc": w["desc"], "inputs": w["inputs"]}
        t = history(scen, pmap.tla_desc_to_py(w["desc"]), w["meta"]["storage"], w["meta"]["crash"], logdir,
                    resume=w["meta"].get("resume", "map"), kinds=w["meta"].get("kinds"))
    finally:
        shutil.rmtree(logdir, ignore_errors=True)
    print([(x["e"], x["f"], x.get("cls", "")) for x in t["ev"]])
    ctx = Ctx(PROPERTY, "quick", 0)
    ctx.findings = []
    rej = validate_traces(ctx, "TraceMapRun", [t], "replay", invariants=[], strip=STRIP, count=False)
    ctx.cleanup()
    print("replay:", "VIOLATION reproduced" if rej else "history accepted")
    return 1 if rej else 0
