"""C05, concurrent stores of one path (spec/StoreRace.tla, MC_StoreRace.tla, TraceStoreRace.tla).

A run with a thread pool that is interrupted by a raising user function leaves element tasks in flight; the run resumed
at once stores the same elements again.  TLC enumerates every schedule of N stores of one path at the grain
Open(w) / Finish(w); each schedule is driven through the REAL store (pipefunc._utils.dump, FileArray.dump): the value
being stored blocks inside its own pickling (`__reduce__`, ordinary user code), i.e. after the store has opened its file
and before it makes the value visible.  The recorded steps (did the store raise, what does a reader of the final path
see) go back to TLC (TraceStoreRace).
"""
from __future__ import annotations

import json
import shutil
import tempfile
import threading
from pathlib import Path

from ..tlc import MachineryError, run_tlc
from ..tracekit import parse_prints, validate_traces

CFG = """SPECIFICATION {spec}
CONSTANTS Writers = {{{ws}}}
Private = {private}
{invs}
CHECK_DEADLOCK FALSE
"""

_CTL: dict[int, tuple[threading.Event, threading.Event]] = {}


def _rebuild(w: int):
    return ("stored-by", w)


class Blocker:
    """A user value whose pickling takes a while: it tells the driver that the store has reached it and waits."""

    def __init__(self, w: int) -> None:
        self.w = w

    def __reduce__(self):
        opened, go = _CTL[self.w]
        opened.set()
        if not go.wait(60):
            raise RuntimeError("pfverif: the driver never released this store")
        return (_rebuild, (self.w,))


def final_state(path: Path) -> str:
    from pipefunc._utils import load
    if not path.exists():
        return "absent"
    try:
        v = load(path)
    except Exception:  # noqa: BLE001
        return "partial"
    return "complete" if isinstance(v, tuple) and v and v[0] == "stored-by" else "partial"


def drive(sched: list[dict], target: str, root: str) -> list[dict]:
    """Run one schedule through the real store; returns the recorded events."""
    from pipefunc._utils import dump
    from pipefunc.map._storage_array._file import FileArray
    folder = Path(tempfile.mkdtemp(prefix="race_", dir=root))
    if target == "FileArray.dump":
        arr = FileArray(folder, (1,))
        path = arr._key_to_file((0,))

        def store(w):
            arr.dump((0,), Blocker(w))
    else:
        path = folder / "value.cloudpickle"

        def store(w):
            dump(Blocker(w), path)
    threads: dict[int, threading.Thread] = {}
    outcome: dict[int, str] = {}

    def body(w):
        try:
            store(w)
            outcome[w] = ""
        except BaseException as e:  # noqa: BLE001
            outcome[w] = f"{type(e).__name__}: {e}"
        finally:
            _CTL[w][0].set()

    ev = []
    try:
        for s in sched:
            w = s["w"]
            if s["e"] == "open":
                _CTL[w] = (threading.Event(), threading.Event())
                threads[w] = threading.Thread(target=body, args=(w,), daemon=True)
                threads[w].start()
                if not _CTL[w][0].wait(60):
                    raise MachineryError(f"store {w} never reached the pickling of its value")
                if w in outcome:          # raised before pickling: reported at its finish step
                    pass
                ev.append({"e": "open", "w": w, "final": final_state(path)})
            else:
                _CTL[w][1].set()
                threads[w].join(60)
                if threads[w].is_alive():
                    raise MachineryError(f"store {w} did not return")
                ev.append({"e": "finish", "w": w, "ok": outcome[w] == "", "exc": outcome[w], "final": final_state(path)})
    finally:
        for w, (_, go) in list(_CTL.items()):
            go.set()
        for t in threads.values():
            t.join(10)
        _CTL.clear()
        shutil.rmtree(folder, ignore_errors=True)
    return ev


def run(ctx, quick: bool) -> None:
    n = 2 if quick else 3
    ws = ", ".join(str(i) for i in range(1, n + 1))
    # design: a private temporary name is necessary and sufficient
    for private, inv, expect_ok in (("TRUE", "NoStoreFails\nINVARIANT FinalNeverTorn\nINVARIANT AllDone\nINVARIANT TypeOK", True),
                                   ("FALSE", "NoStoreFails", False), ("FALSE", "FinalNeverTorn", False)):
        r = run_tlc("StoreRace", CFG.format(spec="Spec", ws="1, 2, 3", private=private, invs="INVARIANT " + inv),
                    ctx.workdir(f"race_{private}_{inv[:8]}"), workers=2, allow_violation=True)
        ctx.add_tlc(r, f"StoreRace Private={private} {inv.split()[0]}")
        if expect_ok and r.violated:
            raise MachineryError(f"StoreRace with private temporary names violated: {r.violated}")
        if not expect_ok and not r.violated:
            raise MachineryError("StoreRace with a shared temporary name unexpectedly safe: the model lost its teeth")
    # every schedule, exported
    r = run_tlc("MC_StoreRace", CFG.format(spec="CSpec", ws=ws, private="TRUE",
                                           invs="INVARIANT NoStoreFails\nINVARIANT FinalNeverTorn\nINVARIANT Export"),
                ctx.workdir("race_sched"), workers=1)
    ctx.add_tlc(r, f"MC_StoreRace {n} writers")
    scheds = [p for tag, p in parse_prints(r.prints) if tag == "SCHED"]
    if len(scheds) < (6 if n == 2 else 90):
        raise MachineryError(f"MC_StoreRace exported only {len(scheds)} schedules")
    root = tempfile.mkdtemp(prefix="pfverif_c05race_")
    traces = []
    try:
        for target in ("utils.dump", "FileArray.dump"):
            for s in scheds:
                traces.append({"n": n, "ev": drive(s, target, root), "meta": {"target": target, "sched": [(x["e"], x["w"]) for x in s]}})
    finally:
        shutil.rmtree(root, ignore_errors=True)
    for t in traces:
        ctx.case({"race": t["meta"]["target"], "sched": t["meta"]["sched"]},
                 nontrivial=any(a["e"] == "open" and b["e"] == "open" for a, b in zip(t["ev"], t["ev"][1:])))
    rej = validate_traces(ctx, "TraceStoreRace", traces, "race", invariants=["InvNoStoreFails", "InvFinalNeverTorn"],
                          strip=("meta",))
    for i, reached in rej.items():
        t = traces[i]
        e = t["ev"][reached - 1]
        ctx.violation({"check": "store-race", "target": t["meta"]["target"], "event": e["e"],
                       "raised": bool(e.get("exc")), "final": e["final"]},
                      f"concurrent stores of one path through {t['meta']['target']}: step {reached} ({e['e']} of writer {e['w']}) "
                      f"is not explained by StoreRace with private temporary names: {e.get('exc') or 'final path ' + e['final']}",
                      {"race": True, "target": t["meta"]["target"], "sched": t["meta"]["sched"], "events": t["ev"], "rejected_at": reached})
    # binding self-test: a store that is claimed to have failed must be rejected
    import copy
    bad = copy.deepcopy(traces[len(traces) // 2])
    k = max(i for i, e in enumerate(bad["ev"]) if e["e"] == "finish")
    bad["ev"][k]["ok"] = False
    rej2 = validate_traces(ctx, "TraceStoreRace", [bad], "race_st", invariants=[], strip=("meta",), count=False)
    ctx.selftests.append({"name": "store-race-corruption", "ok": rej2.get(0) == k + 1,
                          "detail": f"a finish step claimed to have failed is rejected at {rej2.get(0)} (expected {k + 1})"})
    if rej2.get(0) != k + 1:
        raise MachineryError("TraceStoreRace accepted a corrupted trace")


def replay(payload: dict) -> int:
    root = tempfile.mkdtemp(prefix="pfverif_c05race_")
    try:
        ev = drive([{"e": e, "w": w} for e, w in payload["sched"]], payload["target"], root)
    finally:
        shutil.rmtree(root, ignore_errors=True)
    print(json.dumps(ev, indent=1))
    bad = [e for e in ev if (e["e"] == "finish" and not e["ok"]) or e["final"] == "partial"]
    print("reproduced" if bad else "conforms")
    return 1 if bad else 0
