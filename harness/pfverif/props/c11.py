"""C11 - selecting outputs / supplying intermediates keeps values, runs only needed work.

Spec: SubPipeline.tla (NeededSet, Computable, the run rule SubBegin / SubReject, laws) on top of MapRun/MapDenote.
1. TLC enumerates the TLA+-defined universe MC_SubPipeline (the descriptions of MC_PipelineCall incl. nullary, all-defaults
   and all-bound functions) x every non-empty set S of requested outputs x every cut I of provided names, checks the laws
   (NeededSet is the least dependency-closed set; Computable <=> the denotation is defined; values = the full pipeline's
   with I substituted) per case, explores every behaviour of a request under the run rule (deadlock checking on) and
   exports each case as (desc, S, I, inputs, computable, needed, missing, surplus, must serve/reject/either).
2. Every exported case is realised on the real Pipeline through the three routes
      pipeline.subpipeline(inputs=I, output_names=S).map(inputs) / pipeline.map(inputs, output_names=S) /
      pipeline.map(inputs, output_names=S, auto_subpipeline=True)
   and the MapRun events are recorded (begin with S and the exported needed set, call/ret with kwargs, return with results;
   or reject with the names its message mentions).
3. TLC validates every recorded run (MC_SubPipeline Part 3): a served request ran exactly NeededSet with the values of the
   denotation with I substituted; a rejection is allowed only for a request that need not be served and, when S is not
   computable, must name a missing root argument.
4. Seeded random larger DAGs (call-style up to 6 functions, and mapped pipelines of gen_map with supplied array
   intermediates) go through 2-3 (TLC computes the needed set itself).
"""
from __future__ import annotations

import contextlib
import copy
import io
import json
import multiprocessing as mp
import os
import random
import re
from concurrent.futures import ProcessPoolExecutor, ThreadPoolExecutor

from .. import build, gen_map, pcall, pmap
from ..build import desc_to_tla
from ..ctx import Ctx
from ..terms import arr_shape, canon
from ..tlc import MachineryError, run_tlc
from ..tracekit import parse_prints, validate_traces

PROPERTY = "C11"
LEVEL = "model_checking"

ROUTES = ("subpipeline", "output_names", "auto_subpipeline")
LAWS = ("InvLeast InvCutOff InvComputableSources InvComputableDefined InvDenotationDefined InvMapEqualsCall "
        "InvSubstitution InvClasses")
UCFG = """SPECIFICATION USpec
CONSTANTS N = {n} Rich = {rich} Shard = {shard} NShards = {nshards}
INVARIANT {laws} Emit
"""
BCFG = """SPECIFICATION BSpec
CONSTANTS N = {n} Rich = {rich} Shard = {shard} NShards = {nshards}
INVARIANT InvOnlyNeeded InvServeEnabled InvRejectOnlyIfAllowed InvReturnExact InvTypeOK
"""
TRACE_CONSTANTS = "N = 2 Rich = FALSE Shard = 0 NShards = 2"     # unused by the trace specification
NPROC = min(8, os.cpu_count() or 4)
STRIP = ("route", "S", "must", "cut", "kinds", "pdesc", "dontcare")
_IDENT = re.compile(r"[A-Za-z_][A-Za-z0-9_]*(?:\.[A-Za-z_][A-Za-z0-9_]*)*")   # identifiers incl. scoped (dotted) ones


# ---- events -------------------------------------------------------------------------------------------------------
def with_request(e: dict, S: list[str], named: list[str] | None = None) -> dict:
    e = dict(e)
    e["S"] = list(S)
    e["named"] = list(named or [])
    return e


def names_of(tdesc: dict) -> set[str]:
    return {p for f in tdesc["funcs"] for p in f["params"]} | {o for f in tdesc["funcs"] for o in f["outputs"]}


def named_in(msg: str, tdesc: dict) -> list[str]:
    """The names of the description that an error message mentions (whole identifiers)."""
    return sorted(set(_IDENT.findall(msg)) & names_of(tdesc))


def do_route(pl, pdesc: dict, tdesc: dict, inputs_py: dict, S: list[str], needed: list[str], route: str,
             run_folder=None, storage="dict") -> list[dict]:
    """One request through one route -> MapRun events carrying the request."""
    target = pl
    kw: dict = {}
    if route == "subpipeline":
        try:
            with contextlib.redirect_stdout(io.StringIO()):
                flat = {k if not isinstance(v, dict) else f"{k}.{b}" for k, v in inputs_py.items()
                        for b in (v if isinstance(v, dict) else [None])}
                target = pl.subpipeline(inputs=flat, output_names=set(S))     # subpipeline takes NAMES (dotted)
        except Exception as ex:  # noqa: BLE001
            return [with_request(pmap.ev(e="reject", F=needed, cls=type(ex).__name__, msg=str(ex)[:300]), S,
                                 named_in(str(ex), tdesc))]
    elif route == "output_names":
        kw = {"output_names": set(S)}
    elif route == "auto_subpipeline":
        kw = {"output_names": set(S), "auto_subpipeline": True}
    elif route == "async_output_names":
        evs, res = do_map_async(pl, inputs_py, needed, output_names=set(S))
        named = named_in(str(res), tdesc) if isinstance(res, BaseException) else []
        return [with_request(e, S, named if e["e"] == "reject" else None) for e in evs]
    else:
        raise ValueError(route)
    evs, res = pmap.do_map(target, pdesc, inputs_py, run_folder=run_folder, storage=storage, parallel=False, F=needed,
                           **kw)
    named = named_in(str(res), tdesc) if isinstance(res, BaseException) else []
    return [with_request(e, S, named if e["e"] == "reject" else None) for e in evs]


def do_map_async(pl, inputs_py: dict, needed: list[str], **kw) -> tuple[list[dict], object]:
    """Pipeline.map_async (thread pool, dict storage, no folder) -> the same events as pmap.do_map."""
    import asyncio
    events = [pmap.ev(e="begin", F=needed, cleanup=True, fixed=[], cache=pl.cache is not None)]
    start = len(build.read_log())
    ex = ThreadPoolExecutor(2)

    async def go():
        am = pl.map_async(inputs_py, run_folder=None, storage="dict", executor=ex, **kw)
        return await am.task
    try:
        with contextlib.redirect_stdout(io.StringIO()):
            res = asyncio.run(go())
    except (Exception, asyncio.CancelledError) as exn:  # noqa: BLE001
        ex.shutdown(wait=True)
        evs = pmap.log_events(start)
        if not evs:
            return [pmap.ev(e="reject", F=needed, cleanup=True, fixed=[], cls=type(exn).__name__, msg=str(exn)[:300])], exn
        kind = "raise" if any(e["e"] == "fail" for e in evs) else "error"
        return events + evs + [pmap.ev(e=kind, cls=type(exn).__name__, msg=str(exn)[:300])], exn
    ex.shutdown(wait=True)
    events += pmap.log_events(start)
    events.append(pmap.ev(e="return", results=pmap.results_json(res), loaded=[]))
    return events, res


_PL_CACHE: dict[str, tuple] = {}


def run_history(job: dict) -> list[dict]:
    """Requests and mutations on ONE fresh pipeline object (a selection must not change the pipeline it selects from, and a
    later selection must see the pipeline as it is then).  steps: {"op": "request", S, inputs, route} |
    {"op": "update_defaults", "out": o, "p": p, "v": v} | {"op": "drop", "out": o}; the description is updated alongside."""
    tdesc = copy.deepcopy(job["desc"])
    with contextlib.redirect_stdout(io.StringIO()):
        pl = build.make_pipeline(pmap.tla_desc_to_py(tdesc))
    out = []
    for k, st in enumerate(job["steps"]):
        if st["op"] == "request":
            build.LOG.clear()
            pdesc = pmap.tla_desc_to_py(tdesc)
            evs = do_route(pl, pdesc, tdesc, pmap.inputs_to_py(st["inputs"], None), st["S"], ["*"], st["route"])
            out.append({"desc": copy.deepcopy(tdesc), "inputs": st["inputs"], "ev": evs, "route": st["route"] + f"@history{k}",
                        "S": st["S"], "must": "?", "cut": "?", "kinds": None, "dontcare": False})
            continue
        if st["op"] == "scribble":
            # what the caller does to a selection it was handed must not reach the pipeline it was selected from (nor a
            # later selection): take the selection, change its defaults, drop one of its functions
            with contextlib.suppress(Exception), contextlib.redirect_stdout(io.StringIO()):
                flat = {n for n, _ in st["inputs"]}
                sub = pl.subpipeline(inputs=flat or None, output_names=set(st["S"]))
                for p_ in sorted(sub.topological_generations.root_args)[:2]:
                    sub.update_defaults({p_: build.py_value({"f": "@scribbled_" + p_, "a": []})})
                sub.drop(output_name=sub.functions[-1].output_name)
            continue
        fi = next(i for i, f in enumerate(tdesc["funcs"]) if st["out"] in f["outputs"])
        f = tdesc["funcs"][fi]
        key = f["outputs"][0] if len(f["outputs"]) == 1 else tuple(f["outputs"])
        with contextlib.redirect_stdout(io.StringIO()):
            if st["op"] == "update_defaults":
                pl[key].update_defaults({st["p"]: build.py_value(st["v"])})
                f["defaults"] = [x for x in f["defaults"] if x[0] != st["p"]] + [[st["p"], st["v"]]]
            else:
                pl.drop(output_name=key)
                del tdesc["funcs"][fi]
    return out


def history_jobs(rng: random.Random, count: int) -> list[dict]:
    from .c02 import random_desc
    jobs = []
    for n in range(count):
        td = random_desc(rng, rng.randint(3, 5))
        for f in td["funcs"]:                        # plain functions (the histories rebuild descriptions step by step)
            for extra in ("retnone", "outperm", "outrenamed", "renamed", "picker"):
                f.pop(extra, None)
        # make sure some default is declared by exactly one function and read (without a default) by another one
        if len(td["funcs"]) >= 2 and rng.random() < 0.8:
            a, b = rng.sample(range(len(td["funcs"])), 2)
            for f in (td["funcs"][a], td["funcs"][b]):
                if "p_sh" not in f["params"]:
                    f["params"] = f["params"] + ["p_sh"]
            td["funcs"][a]["defaults"] = td["funcs"][a]["defaults"] + [["p_sh", {"f": "@d_p_sh", "a": []}]]
        cur = copy.deepcopy(td)
        steps = []
        fresh = 0
        for k in range(rng.choice([3, 4, 5])):
            outs = [o for f in cur["funcs"] for o in f["outputs"]]
            if k % 2 == 0 or len(cur["funcs"]) < 2:
                S = rng.sample(outs, min(len(outs), rng.choice([1, 1, 2])))
                inter = [o for o in outs if o not in S]
                given = set(rng.sample(inter, rng.randint(0, min(2, len(inter))))) if rng.random() < 0.5 else set()
                defaults = {p for f in cur["funcs"] for p, _ in f["defaults"]}
                _, roots = _closure(cur["funcs"], S, given)
                I = {r for r in roots if r in given or r not in defaults or rng.random() < 0.3} - set(S)
                req = {"op": "request", "S": sorted(S), "inputs": [[x, pcall.kv(x)] for x in sorted(I)],
                       "route": rng.choice(ROUTES + ("async_output_names",))}
                steps.append(req)
                if rng.random() < 0.5:      # the caller alters the selection it got, then asks for the same selection again
                    steps.append({"op": "scribble", "S": req["S"], "inputs": req["inputs"]})
                    steps.append(dict(req, route=rng.choice(ROUTES)))
            else:
                owners: dict[str, list[int]] = {}
                for i, f in enumerate(cur["funcs"]):
                    for p, _ in f["defaults"]:
                        owners.setdefault(p, []).append(i)
                single = [(p, o[0]) for p, o in owners.items() if len(o) == 1]
                if single and rng.random() < 0.6:
                    p, i = rng.choice(single)
                    v = {"f": f"@hd{fresh}_{p}", "a": []}
                    fresh += 1
                    steps.append({"op": "update_defaults", "out": cur["funcs"][i]["outputs"][0], "p": p, "v": v})
                    cur["funcs"][i]["defaults"] = [x for x in cur["funcs"][i]["defaults"] if x[0] != p] + [[p, v]]
                else:
                    i = rng.randrange(len(cur["funcs"]))
                    steps.append({"op": "drop", "out": cur["funcs"][i]["outputs"][0]})
                    del cur["funcs"][i]
        jobs.append({"desc": td, "steps": steps})
    return jobs


def run_case(job: dict) -> list[dict]:
    """All routes of one case in a worker process -> one trace record per route."""
    tdesc, S, inputs = job["desc"], job["S"], job["inputs"]
    key = json.dumps(tdesc, sort_keys=True)
    if key not in _PL_CACHE:
        if len(_PL_CACHE) > 64:
            _PL_CACHE.clear()
        pdesc = job.get("pdesc") or pmap.tla_desc_to_py(tdesc)
        try:
            with contextlib.redirect_stdout(io.StringIO()):
                _PL_CACHE[key] = (pdesc, build.make_pipeline(pdesc))
        except Exception as ex:  # noqa: BLE001  a description the pipeline refuses to be built from: every request is refused
            return [{"desc": tdesc, "inputs": inputs, "route": route, "S": S, "must": job.get("must", "?"),
                     "cut": job.get("cut", "?"), "kinds": job.get("kinds"), "dontcare": job.get("dontcare", False),
                     "ev": [with_request(pmap.ev(e="reject", F=job["needed"], cls=type(ex).__name__,
                                                 msg="construct: " + str(ex)[:280]), S, named_in(str(ex), tdesc))]}
                    for route in job.get("routes", ROUTES)]
    pdesc, pl = _PL_CACHE[key]
    inputs_py = pmap.inputs_to_py(inputs, job.get("kinds"))
    if job.get("nested"):              # scoped names given as nested dicts: {"sc": {"x": ...}} instead of {"sc.x": ...}
        nested: dict = {}
        for k, v in inputs_py.items():
            if "." in k:
                sc, base = k.split(".", 1)
                nested.setdefault(sc, {})[base] = v
            else:
                nested[k] = v
        inputs_py = nested
    out = []
    for route in job.get("routes", ROUTES):
        build.LOG.clear()
        evs = do_route(pl, pdesc, tdesc, inputs_py, S, job["needed"], route)
        out.append({"desc": tdesc, "inputs": inputs, "ev": evs, "route": route, "S": S, "must": job.get("must", "?"),
                    "cut": job.get("cut", "?"), "kinds": job.get("kinds"), "dontcare": job.get("dontcare", False)})
    return out


def run_jobs(jobs: list[dict]) -> list[dict]:
    if not jobs:
        return []
    with ProcessPoolExecutor(NPROC, mp_context=mp.get_context("fork")) as pool:
        res = pool.map(run_case, jobs, chunksize=max(1, len(jobs) // (NPROC * 16)))
        return [t for ts in res for t in ts]


# ---- classification (features of the request; never decides anything) -----------------------------------------------
def forward_selection(tdesc: dict, S: list[str], I: list[str]) -> set[str]:
    """descendants(I) & (ancestors(S) | producers(S)) over the full dependency graph: the selection that the
    unrepaired Pipeline.subpipeline makes.  Used only to label a failure (F10), not to judge it."""
    prod = {o: f["name"] for f in tdesc["funcs"] for o in f["outputs"]}
    by = {f["name"]: f for f in tdesc["funcs"]}
    bound = {f["name"]: {p for p, _ in f["bound"]} for f in tdesc["funcs"]}
    succ: dict[str, set[str]] = {}
    for f in tdesc["funcs"]:
        for p in f["params"]:
            if p in bound[f["name"]]:
                continue
            succ.setdefault(prod.get(p, "$" + p), set()).add(f["name"])

    def reach(start: set[str], edges: dict[str, set[str]]) -> set[str]:
        seen: set[str] = set()
        todo = list(start)
        while todo:
            n = todo.pop()
            for m in edges.get(n, ()):
                if m not in seen:
                    seen.add(m)
                    todo.append(m)
        return seen
    pred: dict[str, set[str]] = {}
    for a, bs in succ.items():
        for b in bs:
            pred.setdefault(b, set()).add(a)
    down = reach({prod.get(n, "$" + n) for n in I}, succ)
    outs = {prod[o] for o in S if o in prod}
    up = reach(outs, pred) | outs
    return {n for n in down & up if n in by}


def features(tr: dict) -> dict:
    """Labels of a request for violation signatures (they classify, they never judge)."""
    tdesc = tr["desc"]
    I = [n for n, _ in tr["inputs"]]
    outs = {o for f in tdesc["funcs"] for o in f["outputs"]}
    roots = names_of(tdesc) - outs
    begin = next((e for e in tr["ev"] if e["e"] in ("begin", "reject")), None)
    walk_needed, walk_roots = _closure(tdesc["funcs"], tr["S"], set(I))
    needed = set(begin["F"]) if begin and begin["F"] != ["*"] else walk_needed
    defaults = {p: {f["name"] for f in tdesc["funcs"] if p in {q for q, _ in f["defaults"]}} for p in roots}
    filled = {p for p in walk_roots if p not in I and defaults.get(p)}
    return {"route": tr["route"], "must": tr["must"], "mapped": any(f["has_ms"] for f in tdesc["funcs"]),
            # the unrepaired selection descendants(I) & ancestors(S) is a different set of functions (F10)
            "forward_selection_differs": forward_selection(tdesc, tr["S"], I) != needed,
            # a root argument of the cut that is not provided gets its value from a default (F60) ...
            "default_fills_cut_root": bool(filled),
            # ... which only functions outside the needed set declare (F61)
            "default_only_on_dropped_function": any(not (defaults[p] & needed) for p in filled)}


def classify(tr: dict, reached: int) -> dict:
    e = tr["ev"][reached - 1]
    return {"check": "sub-run", "event": e["e"], "cls": e.get("cls", ""), **features(tr)}


def validate(ctx: Ctx, traces: list[dict], name: str, chunk: int | None = None) -> dict[int, int]:
    rej = validate_traces(ctx, "MC_SubPipeline", traces, name, invariants=["InvTypeOK", "InvDoneStored"],
                          strip=STRIP, constants=TRACE_CONSTANTS,
                          chunk=chunk or max(100, min(1500, len(traces) // 8 + 1)))
    for i, reached in sorted(rej.items()):
        tr = traces[i]
        e = tr["ev"][reached - 1]
        sig = classify(tr, reached)
        I = [n for n, _ in tr["inputs"]]
        got = (f"rejected with {e['cls']}: {e['msg'][:160]}" if e["e"] == "reject"
               else f"returned outputs {[n for n, _ in e['results']]}" if e["e"] == "return"
               else f"{e['e']} {e.get('f', '')} {e.get('cls', '')} {e.get('msg', '')[:120]}")
        ctx.violation(sig, f"request S={tr['S']} I={I} via {tr['route']} (specification: must {tr['must']}, needed "
                           f"functions {tr['ev'][0]['F']}) not explained by SubPipeline/MapRun at event {reached}: {got}; "
                           f"functions={[(f['name'], f['params'], f['outputs']) for f in tr['desc']['funcs']]}",
                      {"desc": tr["desc"], "pdesc": tr.get("pdesc"), "inputs": tr["inputs"], "S": tr["S"],
                       "route": tr["route"], "must": tr["must"], "needed": tr["ev"][0]["F"], "kinds": tr.get("kinds"),
                       "rejected_at": reached,
                       "event": {k: v for k, v in e.items() if k not in ("loaded",)}})
    return rej


# ---- TLC: universe export and behaviours ---------------------------------------------------------------------------
def export_universe(ctx: Ctx, n: int, rich: bool, shards: list[int], nshards: int, workers: int) -> list[dict]:
    def one(s: int):
        wd = ctx.workdir(f"u{n}{'r' if rich else ''}_{s}")
        return run_tlc("MC_SubPipeline", UCFG.format(n=n, rich="TRUE" if rich else "FALSE", shard=s, nshards=nshards,
                                                     laws=LAWS), wd, workers=workers, allow_violation=False,
                       timeout=3000, heap="4g")
    cases: list[dict] = []
    with ThreadPoolExecutor(max_workers=max(1, 8 // workers)) as ex:
        for s, r in zip(shards, ex.map(one, shards)):
            ctx.add_tlc(r, f"MC_SubPipeline USpec N={n} rich={rich} shard {s}/{nshards}")
            cases += [p for t, p in parse_prints(r.prints) if t == "CASE"]
    if not cases:
        raise MachineryError("MC_SubPipeline exported no cases")
    cases.sort(key=lambda c: json.dumps(c, sort_keys=True))
    return cases


def behaviours(ctx: Ctx, n: int, rich: bool, shard: int, nshards: int, workers: int) -> None:
    r = run_tlc("MC_SubPipeline", BCFG.format(n=n, rich="TRUE" if rich else "FALSE", shard=shard, nshards=nshards),
                ctx.workdir(f"b{n}_{shard}"), workers=workers, deadlock=True, allow_violation=False, timeout=3000)
    ctx.add_tlc(r, f"MC_SubPipeline BSpec N={n} shard {shard}/{nshards} (deadlock checking on)")


# ---- random larger DAGs ----------------------------------------------------------------------------------------------
def _closure(funcs: list[dict], S: list[str], given: set[str]) -> tuple[set[str], set[str]]:
    """GENERATOR helper (not an oracle): functions a backward walk from S reaches when it stops at `given`, and the root
    names those functions read.  Only used to aim random requests at the interesting regions; TLC judges every run."""
    prod = {o: f for f in funcs for o in f["outputs"]}
    need: dict[str, dict] = {}
    roots: set[str] = set()
    todo = [prod[o] for o in S if o in prod]
    while todo:
        f = todo.pop()
        if f["name"] in need:
            continue
        need[f["name"]] = f
        bound = {p for p, _ in f["bound"]} if isinstance(f["bound"], list) else set(f["bound"])
        for p in f["params"]:
            if p in bound:
                continue
            if p in given or p not in prod:
                roots.add(p)
            else:
                todo.append(prod[p])
    return set(need), roots


def random_call_style_jobs(rng: random.Random, count: int) -> list[dict]:
    from .c02 import random_desc
    jobs = []
    for _ in range(count):
        td = random_desc(rng, rng.randint(3, 6))
        outs = [o for f in td["funcs"] for o in f["outputs"]]
        defaults = {p for f in td["funcs"] for p, _ in f["defaults"]}
        S = rng.sample(outs, min(len(outs), rng.choice([1, 1, 2, 3])))
        inter = [o for o in outs if o not in S]
        given = set(rng.sample(inter, rng.randint(0, min(3, len(inter))))) if rng.random() < 0.7 else set()
        _, roots = _closure(td["funcs"], S, given)
        I = {r for r in roots if r in given or r not in defaults or rng.random() < 0.5}
        r = rng.random()
        if r < 0.2 and I:
            I.discard(rng.choice(sorted(I)))                 # possibly not computable any more
        elif r < 0.3:
            I.add(rng.choice(["x", "y", "z", "w"] + inter) if inter else "x")   # possibly a surplus name
        I -= set(S)
        inputs = [[n, pcall.kv(n)] for n in sorted(I)]
        job = {"desc": td, "S": sorted(S), "inputs": inputs, "needed": ["*"], "must": "?", "cut": "?"}
        if rng.random() < 0.25:        # the same request on the pipeline moved into a scope, inputs as nested dicts
            sd, si = build.scoped(td, inputs, "sc")
            job = {"desc": sd, "S": sorted("sc." + o for o in S), "inputs": si, "needed": ["*"], "must": "?", "cut": "?",
                   "nested": rng.random() < 0.6}
        jobs.append(job)
    return jobs


def _fresh_array(name: str, shape: tuple[int, ...]) -> dict:
    def rec(prefix: list[int], rest: tuple[int, ...]) -> dict:
        if not rest:
            return {"f": "@g_" + name + "".join(f"_{q}" for q in prefix), "a": []}
        return {"f": "#arr", "a": [rec(prefix + [q], rest[1:]) for q in range(rest[0])]}
    return rec([], shape)


def mapped_case(seed: int) -> list[dict]:
    """Worker: a random mapped pipeline (gen_map); the full pipeline is run once to learn the array shapes of its
    intermediates (input generation only), then requests with supplied array intermediates are derived."""
    rng = random.Random(seed)
    case = gen_map.random_map_case(rng, rng.randint(2, 5), max_rank=2, allow_gen=False, allow_internal=False)
    pdesc, inputs = case["desc"], case["inputs"]
    tdesc = desc_to_tla(pdesc)
    with contextlib.redirect_stdout(io.StringIO()):
        try:
            pl = build.make_pipeline(pdesc)
            full = pl.map(pmap.inputs_to_py(inputs, case["kinds"]), None, parallel=False, storage="dict")
        except Exception:  # noqa: BLE001
            return []                                       # C01's business
    rank = {s["name"]: len(s["axes"]) for f in tdesc["funcs"] for s in f["ms"]["ins"] + f["ms"]["outs"]}
    outs = [o for f in tdesc["funcs"] for o in f["outputs"]]
    jobs = []
    for k in range(3):
        S = rng.sample(outs, rng.choice([1, 1, 2]) if len(outs) > 1 else 1)
        inter = [o for o in outs if o not in S]
        given = set(rng.sample(inter, rng.randint(0, min(2, len(inter)))))
        _, roots = _closure(tdesc["funcs"], S, given)
        I = set(roots)
        r = rng.random()
        if r < 0.15 and I:
            I.discard(rng.choice(sorted(I)))
        elif r < 0.25 and inter:
            I.add(rng.choice(inter))
        I -= set(S)
        have = dict(map(tuple, inputs))
        sub_inputs = []
        for n in sorted(I):
            if n in have:
                sub_inputs.append([n, have[n]])
            elif n in full:
                shape = arr_shape(canon(full[n].output))[: rank.get(n, 0)]
                sub_inputs.append([n, _fresh_array(n, shape)])
        kinds = {n: case["kinds"].get(n, "ndarray") for n, _ in sub_inputs}
        jobs.append({"desc": tdesc, "pdesc": pdesc, "S": sorted(S), "inputs": sub_inputs, "needed": ["*"], "must": "?",
                     "cut": "?", "kinds": kinds, "routes": [ROUTES[(seed + k) % 3]]})
    out = []
    for j in jobs:
        for t in run_case(j):
            t["pdesc"] = pdesc
            out.append(t)
    return out


def axis_case(seed: int) -> list[dict]:
    """Worker: a plain pipeline that gets its MapSpecs from Pipeline.add_mapspec_axis(p, axis="k") (GENERATED MapSpecs);
    the description TLC judges against is the lifted one (every function that depends on p maps element-wise over k),
    which must be what the real pipeline reports; then requests for some outputs from the root arguments."""
    from .c02 import random_desc
    rng = random.Random(seed)
    td = random_desc(rng, rng.randint(2, 5))
    for f in td["funcs"]:
        for extra in ("retnone", "outperm", "outrenamed", "renamed", "picker", "hook"):
            f.pop(extra, None)
        f["defaults"], f["bound"] = [], []
    prod = {o: f["name"] for f in td["funcs"] for o in f["outputs"]}
    roots = sorted({q for f in td["funcs"] for q in f["params"]} - set(prod))
    if not roots:
        return []
    p = rng.choice(roots)
    dep: set[str] = set()                      # names carrying the new axis: p and every output downstream of it
    lifted = copy.deepcopy(td)
    carrying = {p}
    for f in lifted["funcs"]:                  # listed in topological order by construction
        ins = [q for q in f["params"] if q in carrying]
        if ins:
            carrying |= set(f["outputs"])
            f["has_ms"] = True
            f["ms"] = {"ins": [{"name": q, "axes": ["k"]} for q in ins], "outs": [{"name": o, "axes": ["k"]} for o in f["outputs"]]}
    inputs = [[r, {"f": "#arr", "a": [{"f": f"@k_{r}_{j}", "a": []} for j in range(2)]} if r == p else pcall.kv(r)] for r in roots]
    with contextlib.redirect_stdout(io.StringIO()):
        pl = build.make_pipeline(pmap.tla_desc_to_py(td))
        pl.add_mapspec_axis(p, axis="k")
    def norm(ms: str) -> str:                  # the order in which a MapSpec lists its inputs carries no meaning
        left, right = ms.split(" -> ")
        return ", ".join(sorted(x.strip().rstrip("]") + "]" for x in left.split("],"))) + " -> " + right
    want = sorted(norm(pmap.ms_string(f["ms"])) for f in lifted["funcs"] if f["has_ms"])
    got = sorted(norm(m) for m in pl.mapspecs_as_strings)
    if want != got:
        raise MachineryError(f"add_mapspec_axis({p!r}) gave {got}, the lifted description has {want}")
    pdesc = pmap.tla_desc_to_py(lifted)
    outs = sorted(prod)
    out = []
    for k in range(3):
        S = rng.sample(outs, min(len(outs), rng.choice([1, 1, 2])))
        _, need_roots = _closure(lifted["funcs"], S, set())
        sub_inputs = [[n, v] for n, v in inputs if n in need_roots]
        build.LOG.clear()
        route = ROUTES[(seed + k) % 3]
        evs = do_route(pl, pdesc, lifted, pmap.inputs_to_py(sub_inputs, {p: "list"}), sorted(S), ["*"], route)
        out.append({"desc": lifted, "inputs": sub_inputs, "ev": evs, "route": route + "@axis", "S": sorted(S), "must": "?",
                    "cut": "?", "kinds": {p: "list"}, "dontcare": False, "pdesc": pdesc})
    return out


def random_mapped_traces(seeds: list[int]) -> list[dict]:
    if not seeds:
        return []
    with ProcessPoolExecutor(NPROC, mp_context=mp.get_context("fork")) as pool:
        return [t for ts in pool.map(mapped_case, seeds, chunksize=max(1, len(seeds) // (NPROC * 8))) for t in ts]


# ---- the check ------------------------------------------------------------------------------------------------------
def nontrivial(tr: dict) -> bool:
    return any(e["e"] == "call" for e in tr["ev"]) or tr["must"] == "reject"


def run(ctx: Ctx) -> None:
    import time
    quick = ctx.tier == "quick"
    rng = random.Random(ctx.seed)
    stages: dict[str, float] = {}
    t0 = [time.time()]

    def stage(name: str) -> None:
        stages[name] = round(time.time() - t0[0], 1)
        t0[0] = time.time()
    ctx.extra["stage_wall_s"] = stages
    # many small single-worker TLC processes on a shared machine: keep each JVM's helper threads few
    os.environ.setdefault("JDK_JAVA_OPTIONS", "-XX:ParallelGCThreads=2 -XX:CICompilerCount=2")
    ctx.rule = ("case = one request (description, requested outputs S, provided names I with values, route); descriptions "
                "x S x I are ALL members of the TLA+-defined universe MC_SubPipeline (C02 generators: 2-3 functions over 3 "
                "roots and earlier outputs, nullary functions, defaults, bound, shadowing bound, tuple output + all-bound and "
                "all-defaults functions; every non-empty S; every I disjoint from S: root-only, interior-only, mixed), each "
                "through subpipeline().map, map(output_names=S), map(output_names=S, auto_subpipeline=True); plus seeded "
                "random DAGs (3-6 functions) and random mapped pipelines with supplied array intermediates; non-trivial = "
                "at least one user function ran, or the specification requires a rejection")
    ctx.assumptions = ["TLC and the JSON/term encoding are trusted", "user functions are free term constructors",
                       "sequential execution, dict storage, no run folder (schedules/storages are C03/C04)",
                       "don't-care (either served exactly or refused): provided names that no needed function reads "
                       "(tests pin 'Got extra inputs'); a provided output of a tuple-output function whose sibling is needed",
                       "a requested output that is itself provided is outside the universe (no stated meaning)"]
    if quick:
        nsh = 12
        shard = ctx.seed % nsh
        cases = export_universe(ctx, 2, False, [shard], nsh, workers=4)
        behaviours(ctx, 2, False, shard, nsh, workers=4)
        ctx.exhaustive = False
        ctx.extra["universe"] = f"N=2 shard {shard}/{nsh} of the descriptions, all S x I of each"
    else:
        cases = export_universe(ctx, 2, False, list(range(4)), 4, workers=2)           # the whole N=2 universe
        behaviours(ctx, 2, False, 0, 1, workers=4)
        rsh = ctx.seed % 8
        cases += export_universe(ctx, 2, True, [rsh], 8, workers=4)                     # + reversed orders / more options
        sh3 = [(2 * ctx.seed + k) % 1024 for k in range(2)]
        cases += export_universe(ctx, 3, False, sh3, 1024, workers=2)                  # + three functions
        behaviours(ctx, 3, False, sh3[0], 1024, workers=4)
        seen: set[str] = set()
        uniq = []
        for c in cases:
            k = json.dumps([c["desc"], c["S"], c["I"]], sort_keys=True)
            if k not in seen:
                seen.add(k)
                uniq.append(c)
        cases = uniq
        ctx.exhaustive = True
        ctx.extra["universe"] = (f"N=2: complete (all descriptions x S x I); N=2 rich: shard {rsh}/8; N=3: shards {sh3} of 1024 "
                                 "(by description), all S x I of each")
    stage("tlc universe + behaviours")
    jobs = [{"desc": c["desc"], "S": c["S"], "inputs": c["inputs"], "needed": c["needed"], "must": c["must"],
             "cut": c["cut"], "dontcare": bool(c["surplus"]) or c["shadowed"]} for c in cases]
    traces = run_jobs(jobs)
    by_must: dict[str, int] = {}
    for c in cases:
        by_must[c["must"] + "/" + c["cut"]] = by_must.get(c["must"] + "/" + c["cut"], 0) + 1
    ctx.extra["universe_cases_by_class"] = dict(sorted(by_must.items()))
    for t in traces:
        ctx.case({"d": t["desc"], "S": t["S"], "i": t["inputs"], "r": t["route"]}, nontrivial(t))
    served = [t for t in traces if t["ev"][-1]["e"] == "return" and t["ev"][-1]["results"]]
    if served:
        mid = served[len(served) // 2]
        ctx.sample({"functions": [(f["name"], f["params"], f["outputs"]) for f in mid["desc"]["funcs"]], "S": mid["S"],
                    "inputs": mid["inputs"], "route": mid["route"],
                    "events": [{k: v for k, v in e.items() if v not in ("", [], True)} for e in mid["ev"][:6]]})
    stage("universe runs")
    validate(ctx, traces, "universe")
    stage("universe trace validation")

    # random larger DAGs (TLC computes the needed set)
    rjobs = random_call_style_jobs(rng, 150 if quick else 4000)
    # two consumers declaring DIFFERENT defaults for a parameter that a third function produces (legal: the produced value
    # wins), in several listing orders: selections that do not cut that producer off are valid requests
    def _fn(name, params, outs, dflt=None):
        return {"name": name, "params": params, "outputs": outs, "defaults": dflt or [], "bound": [], "has_ms": False,
                "ms": {"ins": [], "outs": []}, "internal": [], "cache": False}
    cf = [_fn("f", ["x"], ["y"]), _fn("g1", ["y"], ["a"], [["y", {"f": "@d1_y", "a": []}]]),
          _fn("g2", ["y"], ["b"], [["y", {"f": "@d2_y", "a": []}]]), _fn("h", ["x"], ["w"])]
    for order in ([0, 1, 2, 3], [1, 2, 3, 0], [3, 2, 1, 0], [1, 0, 3, 2]):
        for S in (["w"], ["a"], ["a", "w"], ["b", "y"]):
            rjobs.append({"desc": {"funcs": [cf[i] for i in order]}, "S": S, "inputs": [["x", pcall.kv("x")]], "needed": ["*"],
                          "must": "?", "cut": "?"})
    for j in rjobs[::3]:
        j["routes"] = ROUTES + ("async_output_names",)
    rtraces = run_jobs(rjobs)
    hjobs = history_jobs(rng, 60 if quick else 1500)
    with ProcessPoolExecutor(NPROC, mp_context=mp.get_context("fork")) as pool:
        rtraces += [t for ts in pool.map(run_history, hjobs, chunksize=max(1, len(hjobs) // (NPROC * 8))) for t in ts]
    mseeds = [rng.randrange(1 << 30) for _ in range(40 if quick else 1200)]
    mtraces = random_mapped_traces(mseeds)
    with ProcessPoolExecutor(NPROC, mp_context=mp.get_context("fork")) as pool:       # generated MapSpecs (add_mapspec_axis)
        aseeds = [rng.randrange(1 << 30) for _ in range(40 if quick else 800)]
        mtraces += [t for ts in pool.map(axis_case, aseeds, chunksize=max(1, len(aseeds) // (NPROC * 4))) for t in ts]
    for t in rtraces + mtraces:
        ctx.case({"d": t["desc"], "S": t["S"], "i": t["inputs"], "r": t["route"]}, nontrivial(t))
    if mtraces:
        m0 = next((t for t in mtraces if t["ev"][-1]["e"] == "return" and any(n in {o for f in t["desc"]["funcs"]
                   for o in f["outputs"]} for n, _ in t["inputs"])), mtraces[0])
        ctx.sample({"random mapped": [pmap.ms_string(f["ms"]) or f["name"] for f in m0["desc"]["funcs"]], "S": m0["S"],
                    "provided": [n for n, _ in m0["inputs"]], "route": m0["route"], "outcome": m0["ev"][-1]["e"]})
    ctx.extra["random_outcomes"] = {k: sum(1 for t in rtraces + mtraces if t["ev"][-1]["e"] == k)
                                    for k in ("return", "reject", "error", "raise")}
    stage("random runs")
    validate(ctx, rtraces, "random")
    validate(ctx, mtraces, "mapped", chunk=max(40, len(mtraces) // 8 + 1))
    stage("random trace validation")

    selftest(ctx, traces)
    stage("selftest")


def selftest(ctx: Ctx, traces: list[dict]) -> None:
    """Binding self-test, one TLC batch: accepted traces plus four corrupted copies - (1) one atom of one returned value
    altered, (2) one call of a function outside the needed set inserted, (3) the exported needed set of one begin event
    altered, (4) the rejection of a not-computable request made to name a provided name instead of the missing one.
    Exactly the four corrupted copies must be rejected, each at the corrupted event."""
    good = [t for t in traces if t["ev"][-1]["e"] == "return" and t["ev"][-1]["results"] and t["must"] == "serve"][:8]
    rejs = [t for t in traces if t["ev"][-1]["e"] == "reject" and t["must"] == "reject" and not t["dontcare"]
            and t["inputs"]][:4]
    if len(good) < 4 or not rejs:
        raise MachineryError("self-test: not enough served / rejected traces")
    pool = copy.deepcopy(good + rejs)
    expected: dict[int, int] = {}
    names: list[str] = []

    def add(name: str, src: dict, mutate, at) -> None:
        t = copy.deepcopy(src)
        mutate(t)
        expected[len(pool)] = at(t)
        names.append(name)
        pool.append(t)

    def alter_value(t):
        v = t["ev"][-1]["results"][0][1]
        while v["a"]:
            v = v["a"][0]
        v["f"] += "_x"
    add("one atom of one returned value", good[1], alter_value, lambda t: len(t["ev"]))

    def extra_call(t):
        fs = [f for f in t["desc"]["funcs"] if f["name"] not in t["ev"][0]["F"]]
        f = fs[0] if fs else t["desc"]["funcs"][0]
        t["ev"].insert(1, with_request(pmap.ev(e="call", f=f["name"], kwargs=[[p, pcall.kv(p)] for p in f["params"]]),
                                       t["S"]))
    src = next((t for t in good if len(t["ev"][0]["F"]) < len(t["desc"]["funcs"])), good[0])
    add("call of a function outside the needed set", src, extra_call, lambda t: 2)

    def alter_needed(t):
        others = [f["name"] for f in t["desc"]["funcs"] if f["name"] not in t["ev"][0]["F"]]
        t["ev"][0]["F"] = t["ev"][0]["F"] + others[:1] if others else t["ev"][0]["F"][1:]
    add("exported needed set of one begin event", good[2], alter_needed, lambda t: 1)

    def wrong_name(t):
        t["ev"][-1]["named"] = [n for n, _ in t["inputs"]]
    add("rejection names a provided name, not the missing one", rejs[0], wrong_name, lambda t: len(t["ev"]))

    rej = validate_traces(ctx, "MC_SubPipeline", pool, "selftest", invariants=[], strip=STRIP, count=False,
                          constants=TRACE_CONSTANTS)
    ctx.selftest("trace-corruption(" + "; ".join(names) + "): exactly the corrupted copies rejected, at the corrupted "
                 "event", rej == expected, f"rejected={rej} expected={expected}")


def replay(rep: dict) -> int:
    w = rep["witness"]
    job = {"desc": w["desc"], "pdesc": w.get("pdesc"), "S": w["S"], "inputs": w["inputs"], "needed": w["needed"],
           "must": w["must"], "routes": [w["route"]], "kinds": w.get("kinds")}
    tr = run_case(job)[0]
    for e in tr["ev"]:
        print({k: (v if k not in ("results", "loaded", "kwargs") else f"<{len(v)} entries>") for k, v in e.items()
               if v not in ("", [], True)})
    ctx = Ctx(PROPERTY, "quick", 0)
    ctx.findings = []
    validate(ctx, [tr], "replay")
    n = len(ctx.violations)
    ctx.cleanup()
    print("replay:", "VIOLATION reproduced" if n else "run accepted")
    return 1 if n else 0
