"""pfverif: model-based verification harness for pipefunc (TLA+ specification + conformance)."""
