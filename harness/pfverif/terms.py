"""Free term algebra for user functions (DESIGN.md section 3.1).

A user function built by the harness does not compute numbers: `c(a=1, b=2)` returns the opaque term
`c(@1, @2)`.  Swapped, mis-sliced, stale or doubly evaluated arguments change the term.
JSON / TLA+ shape of every value: {"f": <string>, "a": [<value>, ...]}.
"""
from __future__ import annotations

from typing import Any

import numpy as np


class Term:
    """Opaque, hashable, picklable value. Deliberately NOT a sequence (np.asarray must not splat it)."""

    __slots__ = ("f", "a", "_h")

    def __init__(self, f: str, a: tuple = ()) -> None:
        self.f = f
        self.a = tuple(canon(x) for x in a)
        self._h = hash((self.f, self.a))

    def __eq__(self, other: object) -> bool:
        return isinstance(other, Term) and self._h == other._h and self.f == other.f and self.a == other.a

    def __ne__(self, other: object) -> bool:
        return not self.__eq__(other)

    def __hash__(self) -> int:
        return self._h

    def __repr__(self) -> str:
        if not self.a:
            return self.f
        return f"{self.f}({', '.join(map(repr, self.a))})"

    def __reduce__(self):
        return (_rebuild, (self.f, self.a))

    def __bool__(self) -> bool:
        return True


def _rebuild(f: str, a: tuple) -> Term:
    t = Term.__new__(Term)
    t.f = f
    t.a = a
    t._h = hash((f, a))
    return t


NONE = Term("#none")
MASKED = Term("#masked")


def atom(x: Any) -> Term:
    return Term(f"@{x}")


def idx_atom(j: int) -> Term:
    return Term(f"#i{j}")


def canon(x: Any) -> Term:
    """Canonical term of any value that can flow through a harness-built pipeline."""
    if isinstance(x, Term):
        return x
    if hasattr(x, "_pfverif_term"):      # an instance of a harness-built dataclass callable: the instance IS the result
        return x._pfverif_term
    if hasattr(x, "_pfverif_atom"):      # an instance of a class defined in the run script's __main__ standing for an atom
        return Term(x._pfverif_atom)
    if x is None:
        return NONE
    if x is np.ma.masked:
        return MASKED
    if isinstance(x, np.ma.MaskedArray):
        if x.ndim == 0:
            return MASKED if x.mask else canon(x.item())
        return Term("#arr", tuple(canon(x[i]) for i in range(x.shape[0])))
    if isinstance(x, np.ndarray):
        if x.ndim == 0:
            return canon(x.item())
        return Term("#arr", tuple(canon(x[i]) for i in range(x.shape[0])))
    if isinstance(x, (list, tuple, range)):
        return Term("#arr", tuple(canon(y) for y in x))
    if isinstance(x, (bool, int, str, float, np.integer, np.floating)):
        return atom(x)
    if isinstance(x, dict):
        return Term("#map", tuple(Term("#kv", (canon(k), canon(v))) for k, v in x.items()))
    if hasattr(x, "to_array"):  # a pipefunc StorageBase
        return canon(x.to_array())
    return Term(f"#obj:{type(x).__name__}:{x!r}")


class TupleTerm(tuple):
    """A user value that IS a tuple (a pair of bounds, a shape, ...) and stands for one term: the single result of a function
    declared `rettuple`.  Whoever decides "one value per output name" from the type of the value instead of from the
    function's output names splats it, and the first component is not the term."""

    def __repr__(self) -> str:
        return repr(self._pfverif_term)

    def __eq__(self, o: object) -> bool:
        return canon(self) == canon(o)

    def __ne__(self, o: object) -> bool:
        return not self.__eq__(o)

    def __hash__(self) -> int:
        return hash(self._pfverif_term)


def tuple_term(t: Term) -> TupleTerm:
    x = TupleTerm((Term("#fst-of-a-tuple-valued-result"), Term("#snd-of-a-tuple-valued-result")))
    x._pfverif_term = t
    return x


def to_json(x: Any) -> dict:
    t = canon(x)
    return {"f": t.f, "a": [to_json(y) for y in t.a]}


def from_json(j: dict) -> Term:
    return Term(j["f"], tuple(from_json(y) for y in j["a"]))


def arr_shape(t: Term) -> tuple[int, ...]:
    """Shape of a nested #arr term (as far as it is rectangular along first elements)."""
    shape = []
    while isinstance(t, Term) and t.f == "#arr":
        shape.append(len(t.a))
        if not t.a:
            break
        t = t.a[0]
    return tuple(shape)


def to_ndarray(t: Term, rank: int) -> np.ndarray:
    """Nested #arr term of the given rank -> object ndarray of Terms."""
    shape = arr_shape(t)[:rank]
    out = np.empty(shape, dtype=object)
    for idx in np.ndindex(*shape):
        e = t
        for i in idx:
            e = e.a[i]
        out[idx] = e
    return out
