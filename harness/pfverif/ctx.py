"""Per-run context: evidence accumulation, violations, known findings, replay files."""
from __future__ import annotations

import hashlib
import json
import os
import shutil
import tempfile
import time
from pathlib import Path
from typing import Any

from .tlc import ROOT, MachineryError, TLCResult

# mutant / scratch runs redirect their output so that the committed evidence is never overwritten by them
EVIDENCE_DIR = Path(os.environ.get("VERIF_EVIDENCE_DIR") or ROOT / "evidence")
REPLAY_DIR = Path(os.environ.get("VERIF_REPLAY_DIR") or ROOT / "replay")
FINDINGS_FILE = ROOT / "known_findings.json"


def digest(obj: Any) -> str:
    return hashlib.sha1(json.dumps(obj, sort_keys=True, default=str).encode()).hexdigest()[:16]


def sig_matches(pattern: dict, sig: dict) -> bool:
    """A finding signature matches a violation signature when every key of the pattern is present in
    the violation's signature with an equal value (a list in the pattern = any of these values)."""
    for k, v in pattern.items():
        if k not in sig:
            return False
        if isinstance(v, list) and not isinstance(sig[k], list):
            if sig[k] not in v:
                return False
        elif sig[k] != v:
            return False
    return True


class Ctx:
    def __init__(self, prop: str, tier: str, seed: int, level: str = "model_checking") -> None:
        self.prop = prop
        self.tier = tier
        self.seed = seed
        self.level = level
        self.t0 = time.time()
        self.tmp = Path(tempfile.mkdtemp(prefix=f"pfverif_{prop}_"))
        self.states = 0
        self.transitions = 0
        self.traces_validated = 0
        self.evaluations = 0
        self._distinct: set[str] = set()
        self.samples: list[Any] = []
        self.rule = ""
        self.exhaustive: bool | None = None
        self.assumptions: list[str] = []
        self.extra: dict[str, Any] = {}
        self.tlc_runs: list[dict] = []
        self.coverage_actions: dict[str, int] = {}
        self.violations: list[dict] = []
        self.known_hit: dict[str, int] = {}
        self.selftests: list[dict] = []
        self.checker_cmds: list[str] = []
        try:
            self.findings = [f for f in json.loads(FINDINGS_FILE.read_text())["findings"]
                             if f["property"] == prop]
        except FileNotFoundError:
            self.findings = []

    # ---- bookkeeping ---------------------------------------------------------------------
    def workdir(self, name: str) -> Path:
        d = self.tmp / name
        d.mkdir(parents=True, exist_ok=True)
        return d

    def add_tlc(self, r: TLCResult, what: str = "") -> TLCResult:
        self.states += r.distinct
        self.transitions += r.generated
        self.tlc_runs.append({"module": r.module, "what": what, "distinct": r.distinct,
                              "generated": r.generated, "depth": r.depth, "wall_s": round(r.wall_s, 2)})
        for k, v in r.coverage.items():
            self.coverage_actions[k] = self.coverage_actions.get(k, 0) + v
        if r.cmd and len(self.checker_cmds) < 3:
            self.checker_cmds.append(r.cmd)
        return r

    def case(self, obj: Any, nontrivial: bool = True) -> None:
        """Count one explored case; distinct non-trivial ones are counted by digest."""
        self.evaluations += 1
        if nontrivial:
            self._distinct.add(digest(obj))

    def sample(self, obj: Any, limit: int = 6) -> None:
        if len(self.samples) < limit:
            self.samples.append(obj)

    def selftest(self, name: str, ok: bool, detail: str = "") -> None:
        self.selftests.append({"name": name, "ok": ok, "detail": detail})
        if not ok:
            if self.violations:
                # The tree under test already violates the property: the histories the self-test corrupts may themselves be
                # rejected, so its expectation does not apply.  The verdict of this run is VIOLATION (exit 1), not a
                # machinery failure; on a tree without violations a failing self-test is still fatal (exit 2).
                self.selftests[-1]["detail"] = "inconclusive (violations present): " + detail[:300]
                return
            raise MachineryError(f"binding self-test failed: {name}: {detail}")

    # ---- violations ----------------------------------------------------------------------
    def violation(self, sig: dict, what: str, witness: Any) -> None:
        """Report a property violation with a classifying signature and a replayable witness."""
        for f in self.findings:
            if f.get("status") == "known" and sig_matches(f["signature"], sig):
                self.known_hit[f["id"]] = self.known_hit.get(f["id"], 0) + 1
                return
        self.violations.append({"sig": sig, "what": what, "witness": witness})

    # ---- finish --------------------------------------------------------------------------
    def finish(self) -> int:
        wall = time.time() - self.t0
        for f in self.findings:
            if f["id"] in self.known_hit:
                print(f"KNOWN-FINDING: property={self.prop} {f['id']}: {f['what']} "
                      f"(hit {self.known_hit[f['id']]}x)")
        rc = 0
        if self.violations:
            REPLAY_DIR.mkdir(exist_ok=True)
            seen: set[str] = set()
            for v in self.violations:
                key = digest(v["sig"])
                if key in seen:
                    continue
                seen.add(key)
                path = REPLAY_DIR / f"{self.prop}_{key}.json"
                path.write_text(json.dumps({"property": self.prop, **v}, indent=1, default=str))
                print(f"VIOLATION property={self.prop} replay={path}")
                print(f"  what: {v['what']}")
                print(f"  sig: {json.dumps(v['sig'], default=str)}")
            rc = 1
        cov: dict[str, Any] = {
            "states": self.states,
            "transitions": self.transitions,
            "traces_validated_against_impl": self.traces_validated,
            "samples": self.samples or ["(none)"],
            "evaluations": self.evaluations,
            "distinct_nontrivial": len(self._distinct),
            "rule": self.rule,
            "checker_cmd": "; ".join(self.checker_cmds),
            "tlc_runs": self.tlc_runs,
            "coverage_actions": self.coverage_actions,
            "binding_selftest": self.selftests,
            "known_findings_hit": self.known_hit,
            "violation_signatures": [v["sig"] for v in self.violations][:20],
        }
        if self.exhaustive is not None:
            cov["exhaustive"] = self.exhaustive
        cov.update(self.extra)
        ev = {
            "property_id": self.prop,
            "tier": self.tier,
            "seed": self.seed,
            "level": self.level,
            "coverage": cov,
            "assumptions": self.assumptions,
            "wall_s": round(wall, 2),
            "violations": len(self.violations),
        }
        EVIDENCE_DIR.mkdir(exist_ok=True)
        (EVIDENCE_DIR / f"{self.prop}.json").write_text(json.dumps(ev, indent=1, default=str))
        self.cleanup()
        print(f"[{self.prop}] tier={self.tier} seed={self.seed} states={self.states} "
              f"transitions={self.transitions} traces={self.traces_validated} evals={self.evaluations} "
              f"violations={len(self.violations)} known={sum(self.known_hit.values())} wall={wall:.1f}s")
        return rc

    def cleanup(self) -> None:
        if not os.environ.get("VERIF_KEEP_TMP"):
            shutil.rmtree(self.tmp, ignore_errors=True)
