"""Seeded generator of valid mapped pipeline descriptions + inputs (C01 family)."""
from __future__ import annotations

import random
from typing import Any

AXES = ["i", "j", "k", "m", "n"]


def _arr(name: str, shape: list[int]) -> dict:
    def rec(prefix: list[int], rest: list[int]) -> dict:
        if not rest:
            return {"f": "@" + name + "_" + "_".join(map(str, prefix)), "a": []}
        return {"f": "#arr", "a": [rec(prefix + [q], rest[1:]) for q in range(rest[0])]}
    return rec([], shape)


def random_map_case(rng: random.Random, nf: int, *, max_rank: int = 3, max_size: int = 3, allow_internal=True,
                    allow_multi=True, allow_gen=True, allow_partial=True) -> dict:
    """Returns {"desc": build-description, "tdesc": TLA description, "inputs": [[name, value]], "kinds": {...}}."""
    sizes: dict[str, int] = {}
    arrays: dict[str, list[str]] = {}     # array name -> axes
    scalars: list[str] = []
    roots: dict[str, Any] = {}
    funcs: list[dict] = []
    free_axes = list(AXES)
    rng.shuffle(free_axes)

    def new_axis() -> str | None:
        if not free_axes:
            return None
        a = free_axes.pop()
        sizes[a] = rng.randint(1, max_size)
        return a

    def new_root_array() -> str | None:
        rank = rng.choice([1, 1, 1, 2, 2, 3][: 2 * max_rank])
        axes: list[str] = []
        for _ in range(rank):
            if sizes and rng.random() < 0.4:
                cand = [a for a in sizes if a not in axes]
                if cand:
                    axes.append(rng.choice(cand))
                    continue
            a = new_axis()
            if a is None:
                break
            axes.append(a)
        if not axes:
            return None
        name = f"x{len(roots)}"
        arrays[name] = axes
        roots[name] = _arr(name, [sizes[a] for a in axes])
        return name

    def new_root_scalar() -> str:
        name = f"s{len(roots)}"
        roots[name] = {"f": "@" + name, "a": []}
        scalars.append(name)
        return name

    for fi in range(nf):
        fname = f"f{fi}"
        outs = [f"y{fi}"] if (not allow_multi or rng.random() < 0.75) else [f"y{fi}", f"z{fi}"]
        kind = rng.choices(["map", "plain", "gen"], [0.7, 0.2, 0.1 if allow_gen else 0.0])[0]
        params: list[str] = []
        fd: dict[str, Any] = {"name": fname, "outputs": outs, "defaults": {}, "bound": {}, "internal_shape": []}
        if kind == "map":
            nmapped = rng.choice([1, 1, 2])
            ins = []
            for _ in range(nmapped):
                cand = [a for a in arrays if a not in params]
                if cand and rng.random() < 0.7:
                    p = rng.choice(cand)
                else:
                    p = new_root_array()
                    if p is None:
                        if not cand:
                            break
                        p = rng.choice(cand)
                params.append(p)
                axes = list(arrays[p])
                spec_axes = list(axes)
                if allow_partial and len(axes) > 1 and rng.random() < 0.3:
                    spec_axes[rng.randrange(len(axes))] = ":"
                ins.append((p, spec_axes))
            if not ins:
                kind = "plain"
            else:
                named: list[str] = []
                for _, sa in ins:
                    for a in sa:
                        if a != ":" and a not in named:
                            named.append(a)
                if not named:
                    kind = "plain"
                else:
                    out_axes = list(named)
                    rng.shuffle(out_axes)
                    if len(out_axes) > max_rank:
                        kind = "plain"
                    else:
                        if allow_internal and len(out_axes) < max_rank and rng.random() < 0.2:
                            a = new_axis()
                            if a is not None:
                                pos = rng.randint(0, len(out_axes))
                                out_axes.insert(pos, a)
                                fd["internal_shape"] = [sizes[a]]
                        lhs = ", ".join(f"{p}[{', '.join(sa)}]" for p, sa in ins)
                        rhs = ", ".join(f"{o}[{', '.join(out_axes)}]" for o in outs)
                        fd["mapspec"] = f"{lhs} -> {rhs}"
                        for o in outs:
                            arrays[o] = out_axes
        if kind == "gen":
            a = new_axis()
            if a is None:
                kind = "plain"
            else:
                fd["internal_shape"] = [sizes[a]]
                fd["mapspec"] = "... -> " + ", ".join(f"{o}[{a}]" for o in outs)
                for o in outs:
                    arrays[o] = [a]
                params = []
        if kind == "plain":
            fd["mapspec"] = None
            params = [p for p in params if False]
        # unlisted parameters: scalars, whole arrays
        for _ in range(rng.choice([0, 1, 1, 2])):
            r = rng.random()
            if r < 0.4:
                cand = [s for s in scalars if s not in params]
                p = rng.choice(cand) if cand and rng.random() < 0.5 else new_root_scalar()
            elif r < 0.8:
                cand = [a for a in arrays if a not in params and a not in outs]
                if not cand:
                    continue
                p = rng.choice(cand)
            else:
                p = new_root_scalar()
            if p not in params:
                params.append(p)
        if kind == "plain":
            for o in outs:
                scalars.append(o)
        if kind != "gen" and not params:
            params.append(new_root_scalar())
        rng.shuffle(params)
        fd["params"] = params
        funcs.append(fd)
    # a mapped root array may have a (differently sized) array default that the inputs override; a scalar root may have a
    # default that is used because no input is given
    for fd in funcs:
        for p in fd["params"]:
            if p in roots and p in arrays and p.startswith("x") and rng.random() < 0.12 \
                    and not any(p in (g.get("defaults") or {}) for g in funcs):
                shape = [sizes[a] + 1 for a in arrays[p]]
                fd["defaults"][p] = _arr("dflt_" + p, shape)
    desc = {"funcs": funcs}
    used = {p for fd in funcs for p in fd["params"]}
    inputs = [[n, v] for n, v in roots.items() if n in used]
    kinds = {n: rng.choice(["list", "ndarray"]) for n, _ in inputs}
    return {"desc": desc, "inputs": inputs, "kinds": kinds, "sizes": sizes}
