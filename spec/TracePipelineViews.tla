------------------------ MODULE TracePipelineViews --------------------------
(* {desc, ev: [{e, kind, f, p, v, func, root_args, all_root_args, gens, defaults, leafs, roots, outputs}]}            *)
(* e = "mutate" (kind in update_defaults | update_bound | replace | add | drop)  or  "views" (what the live pipeline  *)
(* object reports now).  A views event is accepted iff every reported view equals the view of the current description.*)
EXTENDS PipelineViews, Json, IOUtils, TLCExt
Traces == ndJsonDeserialize(IOEnv.TRACE_FILE)
NT == Len(Traces)
ASSUME \A i \in 1..NT : TLCSet(i, 0)
VARIABLES tid, l
T  == Traces[tid]
Ev == T.ev[l]
IsEvent(e) == l <= Len(T.ev) /\ Ev.e = e /\ l' = l + 1 /\ UNCHANGED tid
ToSet(s) == {s[i] : i \in DOMAIN s}

Init == tid \in 1..NT /\ l = 1 /\ d = T.desc
TMutate == IsEvent("mutate") /\
           CASE Ev.kind = "update_defaults" -> UpdateDefaults(Ev.p, Ev.v)
             [] Ev.kind = "update_bound"    -> UpdateBound(Ev.f, Ev.p, Ev.v)
             [] Ev.kind = "replace"         -> Replace(Ev.f, Ev.func)
             [] Ev.kind = "add"             -> Add(Ev.func)
             [] Ev.kind = "drop"            -> Drop(Ev.f)
TViews == IsEvent("views") /\ UNCHANGED d
          /\ Acyclic(d)
          /\ (\A k \in DOMAIN Ev.root_args : ToSet(Ev.root_args[k][2]) = RootArgsOf(Ev.root_args[k][1]))
          /\ ({Ev.root_args[k][1] : k \in DOMAIN Ev.root_args} = AllOutputs(d))
          /\ ToSet(Ev.all_root_args) = AllRootArgs
          /\ Len(Ev.gens) = NGenerations
          /\ (\A g \in DOMAIN Ev.gens : ToSet(Ev.gens[g]) = Generation(g))
          /\ {<<Ev.defaults[k][1], Ev.defaults[k][2]>> : k \in DOMAIN Ev.defaults} = DefaultPairs
          /\ ToSet(Ev.leafs) = LeafFuncs
          /\ ToSet(Ev.outputs) = AllOutputs(d)
Next == TMutate \/ TViews
Spec == Init /\ [][Next]_<<d, tid, l>>
Track == IF l > TLCGet(tid) THEN TLCSet(tid, l) ELSE TRUE
Accepted == \A i \in 1..NT : (TLCGet(i) = Len(Traces[i].ev) + 1) \/ PrintT(<<"REJECT", i, TLCGet(i)>>)
=============================================================================
