------------------------- MODULE TracePipelineCall --------------------------
(* Trace validation for PipelineCall.  One ndjson line = one history on one pipeline:            *)
(*   {desc, ev: [{e, out, kw, mode, f, kwargs, val, pairs, cls}]}   (all fields always present)    *)
(* e in begin | call | return | returnfull | raise                                                 *)
EXTENDS PipelineCall, Json, IOUtils, TLCExt
Traces == ndJsonDeserialize(IOEnv.TRACE_FILE)
NT == Len(Traces)
ASSUME \A i \in 1..NT : TLCSet(i, 0)

VARIABLES tid, l
T  == Traces[tid]
Ev == T.ev[l]
IsEvent(e) == l <= Len(T.ev) /\ Ev.e = e /\ l' = l + 1 /\ UNCHANGED tid

Init == tid \in 1..NT /\ l = 1 /\ CallInit(T.desc)

FIdxByName(n) == CHOOSE i \in FIdx(d) : d.funcs[i].name = n

TBegin      == IsEvent("begin") /\ Begin(Ev.out, Ev.kw, Ev.mode)
TCall       == IsEvent("call") /\ (\E i \in FIdx(d) : d.funcs[i].name = Ev.f) /\ Call(FIdxByName(Ev.f), Ev.kwargs)
TReturn     == IsEvent("return") /\ Return(Ev.val)
TReturnFull == IsEvent("returnfull") /\ ReturnFull(SeqToSet(Ev.pairs))
TRaise      == IsEvent("raise") /\
               \/ (Ev.cls = "UnusedParametersError" /\ RaiseUnused)
               \/ (Ev.cls = "ValueError" /\ (RaiseMissing \/ RaiseOutputSupplied))

(* a combination listed by arg_combinations(out) must be a valid cut: the evaluation is defined and every name is consulted *)
TCombo      == IsEvent("combo") /\ phase = "idle" /\ ~PHas(Ev.kw, Ev.out)
               /\ Defined(d, Ev.kw, Ev.out) /\ Surplus(d, Ev.kw, Ev.out) = {} /\ UNCHANGED cvars

Next == TCombo \/ TBegin \/ TCall \/ TReturn \/ TReturnFull \/ TRaise
Spec == Init /\ [][Next]_<<cvars, tid, l>>

Track == IF l > TLCGet(tid) THEN TLCSet(tid, l) ELSE TRUE
InvDoneOnlyNeeded == DoneOnlyNeeded
Accepted == \A i \in 1..NT : (TLCGet(i) = Len(Traces[i].ev) + 1) \/ PrintT(<<"REJECT", i, TLCGet(i)>>)
=============================================================================
